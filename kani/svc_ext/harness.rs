// Injected as a child module of actix-service/src/ext.rs.  The extension methods only wire their operands into the
// combinators (whose contracts are the svc_and_then / svc_map / svc_map_err / svc_map_init_err units); here: the
// operands end up in the right positions (receiver = first stage / inner service, argument = second stage / mapper).
use super::*;
include!(concat!(env!("VERIF_KANI_DIR"), "/svc_oracle.rs"));

static mut M_CALLS: u32 = 0;
fn m_calls() -> u32 { unsafe { M_CALLS } }
fn mapper(v: u8) -> u16 { unsafe { M_CALLS += 1; } v as u16 }

/// a.and_then(b): a request goes to a (receiver) first, b is not called by `call`; readiness asks both  [C11, C12]
#[kani::proof]
fn ext_and_then_wiring() {
    let s = Leaf { id: 0 }.and_then(Leaf { id: 1 });
    let req: u8 = kani::any();
    let _f = s.call(req);
    assert!(calls(0) == 1 && call_req(0) == req && calls(1) == 0);
    let wk = mk_waker(0);
    let mut cx = Context::from_waker(&wk);
    let r = out_of_rdy(&s.poll_ready(&mut cx));
    assert!((r == Out::Ok(0)) == (rdy_out(0) == Out::Ok(0) && rdy_out(1) == Out::Ok(0)));
    core::mem::forget(wk);
}

/// s.map(f) / s.map_err(f): the receiver is the inner service, the mapper is not run by call     [C11]
#[kani::proof]
fn ext_map_wiring() {
    let s = Leaf { id: 0 }.map(|v: u8| mapper(v));
    let req: u8 = kani::any();
    let _f = s.call(req);
    assert!(calls(0) == 1 && call_req(0) == req && m_calls() == 0);
    let t = Leaf { id: 1 }.map_err(|v: u8| mapper(v));
    let req2: u8 = kani::any();
    let _g = t.call(req2);
    assert!(calls(1) == 1 && call_req(1) == req2 && m_calls() == 0 && calls(0) == 1);
}

/// factory forms: receiver first / inner, every inner factory built once with the supplied config   [C11]
#[kani::proof]
fn ext_factory_wiring() {
    let cfg: u8 = kani::any();
    let _a = ServiceFactoryExt::and_then(LeafFactory { id: 0 }, LeafFactory { id: 1 }).new_service(cfg);
    assert!(new_calls(0) == 1 && new_calls(1) == 1 && new_cfg(0) == cfg && new_cfg(1) == cfg);
    let c2: u8 = kani::any();
    let _b = ServiceFactoryExt::map(LeafFactory { id: 2 }, |v: u8| mapper(v)).new_service(c2);
    assert!(new_calls(2) == 1 && new_cfg(2) == c2);
    let c3: u8 = kani::any();
    let _c = ServiceFactoryExt::map_err(LeafFactory { id: 2 }, |v: u8| mapper(v)).new_service(c3);
    assert!(new_calls(2) == 2 && new_cfg(2) == c3);
    let c4: u8 = kani::any();
    let _d = ServiceFactoryExt::map_init_err(LeafFactory { id: 2 }, |v: u8| mapper(v)).new_service(c4);
    assert!(new_calls(2) == 3 && new_cfg(2) == c4 && m_calls() == 0);
    assert!(fact_polls(0) == 0 && fact_polls(1) == 0 && fact_polls(2) == 0);
}

#[kani::proof]
fn reach() {
    let s = Leaf { id: 0 }.and_then(Leaf { id: 1 });
    let wk = mk_waker(0);
    let mut cx = Context::from_waker(&wk);
    let r = out_of_rdy(&s.poll_ready(&mut cx));
    kani::cover!(r == Out::Pending);
    kani::cover!(r.is_ok());
    kani::cover!(r.is_err());
    core::mem::forget(wk);
}
