// Injected as a child module of actix-server/src/availability.rs (scratch copy) — Route K.
// Every harness is loop-free over the full domain [u128; 4] x usize x bool: a complete proof by bit-blasting.
// The contracts proved here are exactly the ones the Verus prelude of unit `accept` assumes for `Availability`
// (view = set of indices whose bit is set).
use super::*;

/// the abstract view: index `i` is in the set iff its bit is set
fn bit(words: &[u128; 4], i: usize) -> bool {
    (words[i / 128] >> (i % 128)) & 1 == 1
}

fn any_avail() -> Availability {
    Availability(kani::any())
}

/// `get_available(i)` reads exactly bit `i`, for every state and every i < 512   [C04]
#[kani::proof]
fn get_reads_bit() {
    let a = any_avail();
    let i: usize = kani::any();
    kani::assume(i < 512);
    assert_eq!(a.get_available(i), bit(&a.0, i));
}

/// `set_available(i, v)` makes bit `i` equal `v` and leaves every other index j untouched  [C04]
#[kani::proof]
fn set_writes_only_bit() {
    let mut a = any_avail();
    let before = a.0;
    let i: usize = kani::any();
    let j: usize = kani::any();
    let v: bool = kani::any();
    kani::assume(i < 512 && j < 512);
    a.set_available(i, v);
    assert_eq!(bit(&a.0, i), v);
    assert_eq!(a.get_available(i), v);
    if j != i {
        assert_eq!(bit(&a.0, j), bit(&before, j));
        assert_eq!(a.get_available(j), bit(&before, j));
    }
    // setting a bit to its current value changes nothing
    if bit(&before, i) == v {
        assert!(a.0 == before);
    }
}

/// `available()` is true iff some index below 512 has its bit set  [C04]
#[kani::proof]
fn available_iff_some_bit() {
    let a = any_avail();
    let i: usize = kani::any();
    kani::assume(i < 512);
    let r = a.available();
    // soundness: a set bit implies available
    if bit(&a.0, i) {
        assert!(r);
    }
    // completeness: available implies a non-zero word, i.e. some set bit
    assert_eq!(r, a.0[0] != 0 || a.0[1] != 0 || a.0[2] != 0 || a.0[3] != 0);
}

/// a non-zero word contains a set bit at some position (closes `available_iff_some_bit`'s completeness half)
#[kani::proof]
fn nonzero_word_has_bit() {
    let w: u128 = kani::any();
    kani::assume(w != 0);
    let p = w.trailing_zeros() as usize;
    assert!(p < 128);
    assert!((w >> p) & 1 == 1);
}

/// `offset` maps idx < 512 to (idx / 128, idx % 128)  [C04]
#[kani::proof]
fn offset_in_range() {
    let i: usize = kani::any();
    kani::assume(i < 512);
    let (w, b) = Availability::offset(i);
    assert!(w == i / 128 && b == i % 128);
}

/// the documented maximum: an index >= 512 panics instead of aliasing another worker's bit  [C04]
#[kani::proof]
#[kani::should_panic]
fn offset_panics_at_512() {
    let i: usize = kani::any();
    kani::assume(i >= 512);
    let _ = Availability::offset(i);
}

/// ... and the boundary itself: `should_panic` is satisfied by ONE panicking input, so index 512 — the first one that
/// would alias worker 384's word with bit 128 — gets a harness of its own (found by the mutation audit: `<` -> `<=`)  [C04]
#[kani::proof]
#[kani::should_panic]
fn offset_panics_at_exactly_512() {
    let _ = Availability::offset(512);
}

/// vacuity guard: the assumptions above are satisfiable and both outcomes of the queries are reachable
#[kani::proof]
fn reach() {
    let mut a = any_avail();
    let i: usize = kani::any();
    kani::assume(i < 512);
    kani::cover!(a.get_available(i));
    kani::cover!(!a.get_available(i));
    kani::cover!(a.available());
    kani::cover!(!a.available());
    a.set_available(i, true);
    kani::cover!(a.available());
}
