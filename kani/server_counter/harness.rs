// Injected as a child module of actix-server/src/worker.rs (scratch copy) — Route K.
// The number of connections in progress is `counter - 1` (the counter is created with value 1).
// Postconditions are written from the property statements (C02/C03), not from the code:
//   inc: returns false exactly when the worker has just reached its limit
//   dec: returns true exactly when the worker was at its limit before this completion
use super::*;
use std::sync::atomic::Ordering::SeqCst;

// ---- abstract transition forms: proved of the real code below, and extracted verbatim into the Verus unit
// `backpressure` as the transition relation of the protocol lemma (one source for both tools) ----
/// `Counter::inc` took the stored value from `c` to `c2` and returned `r`
pub(crate) fn inc_post(c: usize, c2: usize, r: bool, limit: usize) -> bool {
    c2 == c + 1 && r == (c != limit)
}

/// `Counter::dec` took the stored value from `c` to `c2` and returned `r`
pub(crate) fn dec_post(c: usize, c2: usize, r: bool, limit: usize) -> bool {
    c2 + 1 == c && r == (c2 == limit)
}

/// dropping a connection guard: one `dec`, and `wakes` notifications for worker `wake_idx`
pub(crate) fn guard_drop_post(c: usize, c2: usize, limit: usize, wakes: usize, wake_idx: usize, idx: usize) -> bool {
    c2 + 1 == c && wakes == (if c2 == limit { 1usize } else { 0usize }) && (wakes == 0 || wake_idx == idx)
}

fn any_counter() -> (Counter, usize) {
    let limit: usize = kani::any();
    let c0: usize = kani::any();
    (Counter { counter: Arc::new(AtomicUsize::new(c0)), limit }, c0)
}

#[kani::proof]
fn counter_new_is_idle() {
    let limit: usize = kani::any();
    let c = Counter::new(limit);
    assert_eq!(c.total(), 0);          // no connection in progress
    assert_eq!(c.limit, limit);
}

/// proof of the contract attached to `Counter::inc` (see unit.json), for every counter value and every limit
#[kani::proof_for_contract(Counter::inc)]
fn counter_inc_contract() {
    let (c, _c0) = any_counter();
    c.inc();
}

/// proof of the contract attached to `Counter::dec`
#[kani::proof_for_contract(Counter::dec)]
fn counter_dec_contract() {
    let (c, _c0) = any_counter();
    c.dec();
}

/// the same two statements in in-progress terms, without contracts (cross-check of the contract text itself)
#[kani::proof]
fn counter_inc_dec_in_progress_terms() {
    let (c, c0) = any_counter();
    kani::assume(c0 >= 1 && c0 < usize::MAX);
    let in_progress_before = c0 - 1;
    assert_eq!(c.total(), in_progress_before);
    if kani::any() {
        let r = c.inc();
        assert!(inc_post(c0, c.counter.load(SeqCst), r, c.limit));
        let in_progress_after = c.total();
        assert_eq!(in_progress_after, in_progress_before + 1);
        assert_eq!(r, in_progress_after != c.limit);      // false <=> just reached the limit   [C02]
    } else {
        kani::assume(in_progress_before >= 1 || c.limit != usize::MAX);
        kani::assume(c0 >= 1);
        let r = c.dec();
        assert!(dec_post(c0, c.counter.load(SeqCst), r, c.limit));
        assert_eq!(c.counter.load(SeqCst), c0 - 1);
        assert_eq!(r, in_progress_before == c.limit);     // true <=> was at the limit: wake exactly then   [C03]
    }
}

/// `WorkerHandleAccept::inc_counter` is `Counter::inc` on the handle's own counter (contract reused, not the body)
#[kani::proof]
#[kani::stub_verified(Counter::inc)]
fn handle_inc_counter_uses_contract() {
    let (c, c0) = any_counter();
    kani::assume(c0 < usize::MAX);
    let probe = c.clone();
    let (tx, _rx) = fake_channel();
    let h = WorkerHandleAccept { idx: kani::any(), conn_tx: tx, counter: c };
    let r = h.inc_counter();
    assert_eq!(probe.counter.load(SeqCst), c0 + 1);
    assert_eq!(r, c0 != probe.limit);
    core::mem::forget(h);
}

/// a sender that is never used: tokio's channel internals are outside Kani's reach, so the harness only needs a
/// value of the right type that is neither touched nor dropped
fn fake_channel() -> (UnboundedSender<Conn>, ()) {
    let p: usize = 0x1000;
    (unsafe { core::mem::transmute::<usize, UnboundedSender<Conn>>(p) }, ())
}

// ---- WorkerCounterGuard::drop: exactly one dec, and one WorkerAvailable(own idx) iff dec returned true ----
static mut WAKES: usize = 0;
static mut WAKE_IDX: usize = 0;
static mut WAKE_OTHER: bool = false;

fn wake_recorder(_q: &WakerQueue, interest: WakerInterest) {
    unsafe {
        WAKES += 1;
        match interest {
            WakerInterest::WorkerAvailable(i) => WAKE_IDX = i,
            _ => WAKE_OTHER = true,
        }
    }
    core::mem::forget(interest);
}

/// `std::thread::panicking()` is an input of a destructor like any other (a guard dropped while the worker unwinds from a
/// panicking service must still release its slot and notify the accept thread)
fn any_panicking() -> bool { kani::any() }

#[kani::proof]
#[kani::stub(WakerQueue::wake, wake_recorder)]
#[kani::stub(std::thread::panicking, any_panicking)]
fn guard_drop_decrements_once_and_wakes_iff_was_at_limit() {
    let (c, c0) = any_counter();
    kani::assume(c0 >= 1);
    let probe = c.clone();
    let idx: usize = kani::any();
    // a WakerQueue value that is never dereferenced (its only use, `wake`, is stubbed) and never dropped
    let wq = unsafe { core::mem::transmute::<usize, WakerQueue>(0x1000usize) };
    let wc = WorkerCounter::new(idx, wq, c);
    let keep = wc.clone();
    let guard = wc.guard();
    drop(guard);
    assert_eq!(probe.counter.load(SeqCst), c0 - 1);                 // exactly one decrement   [C02]
    let was_at_limit = c0 - 1 == probe.limit;
    unsafe {
        assert!(guard_drop_post(c0, probe.counter.load(SeqCst), probe.limit, WAKES, WAKE_IDX, idx));
        assert_eq!(WAKES, if was_at_limit { 1 } else { 0 });         // wake iff the worker leaves its limit  [C03]
        assert!(!WAKE_OTHER);
        if was_at_limit {
            assert_eq!(WAKE_IDX, idx);                               // with the guard's own worker index   [C03]
        }
    }
    core::mem::forget(keep);
    core::mem::forget(wc);
}

#[kani::proof]
fn reach() {
    let (c, c0) = any_counter();
    kani::assume(c0 >= 1 && c0 < usize::MAX);
    if kani::any() {
        let i = c.inc();
        kani::cover!(i);
        kani::cover!(!i);
    } else {
        let d = c.dec();
        kani::cover!(d);
        kani::cover!(!d);
    }
}
