// Injected as a child module of actix-service/src/apply.rs.  `apply_fn` / `apply_fn_factory`: contracts against the
// most-general leaves and a most-general counting wrap function (it logs its arguments and returns an oracle
// future with leaf id W, i.e. an arbitrary future).
use super::*;
include!(concat!(env!("VERIF_KANI_DIR"), "/svc_oracle.rs"));

const S: usize = 0;     // the wrapped service / factory
const W: usize = 2;     // the future produced by the wrap function

static mut W_CALLS: u32 = 0;
static mut W_REQ: u16 = 0;
static mut W_SVC: usize = NOW;
/// counting wrap function: outer request type u16, inner service Leaf
fn wrap(req: u16, svc: &Leaf) -> OFut {
    unsafe { W_CALLS += 1; W_REQ = req; W_SVC = svc.id; }
    OFut { id: W, done: false }
}
fn w_calls() -> u32 { unsafe { W_CALLS } }
fn w_req() -> u16 { unsafe { W_REQ } }
fn w_svc() -> usize { unsafe { W_SVC } }

/// poll_ready (forward_ready!): exactly the wrapped service's answer, polled once with the caller's waker   [C12]
#[kani::proof]
fn apply_poll_ready_transparent() {
    let s = apply_fn(Leaf { id: S }, wrap);
    let w = any_w();
    let wk = mk_waker(w);
    let mut cx = Context::from_waker(&wk);
    let r = out_of_rdy(&s.poll_ready(&mut cx));
    assert!(r == rdy_out(S));
    assert!(rdy_polls(S) == 1 && rdy_waker(S) == w);
    assert!(w_calls() == 0 && calls(S) == 0);
    core::mem::forget(wk);
}

/// call(req): the wrap function is applied exactly once to (req, the wrapped service); its future is the result,
/// handed back unpolled; the combinator itself neither calls nor polls the wrapped service      [C11]
#[kani::proof]
fn apply_call() {
    let s = apply_fn(Leaf { id: S }, wrap);
    let req: u16 = kani::any();
    let f: OFut = s.call(req);
    assert!(w_calls() == 1 && w_req() == req && w_svc() == S);
    assert!(f.id == W && !f.done);
    assert!(untouched(S) && untouched(W));
}

/// factory: inner factory asked exactly once with the supplied config; nothing polled; wrap function not applied
#[kani::proof]
fn apply_factory_new_service() {
    let fac = apply_fn_factory(LeafFactory { id: S }, wrap);
    let cfg: u8 = kani::any();
    let f = fac.new_service(cfg);
    assert!(new_calls(S) == 1 && new_cfg(S) == cfg && fact_polls(S) == 0 && w_calls() == 0);
    assert!(f.wrap_fn.is_some() && f.fut.id == S && !f.fut.done);
}

/// ApplyServiceFactoryResponse, one poll from its only pre-completion state (wrap_fn is Some until Ready(Ok)):
/// Pending (caller's waker) / the init error / Apply around exactly the built service with the supplied wrap fn
#[kani::proof]
fn apply_factory_response_poll() {
    let mut f = ApplyServiceFactoryResponse::<LeafFactory, _, OFut, u16, u8, u8, u8>::new(OFactFut { id: S, done: false }, wrap);
    let w = any_w();
    let wk = mk_waker(w);
    let mut cx = Context::from_waker(&wk);
    let p = Pin::new(&mut f).poll(&mut cx);
    assert!(fact_polls(S) == 1);
    assert!(out_of_init(&p) == fact_out(S));
    assert!(w_calls() == 0);
    if p.is_pending() { assert!(fact_waker(S) == w); assert!(f.wrap_fn.is_some()); }
    if let Poll::Ready(Ok(a)) = p {
        assert!(a.service.id == S);
        let req: u16 = kani::any();
        let g: OFut = a.call(req);                      // it applies the supplied wrap function to the built service
        assert!(w_calls() == 1 && w_req() == req && w_svc() == S && g.id == W);
    }
    core::mem::forget(wk);
}

#[kani::proof]
#[kani::unwind(6)]
fn apply_factory_run_to_completion() {
    let fac = apply_fn_factory(LeafFactory { id: S }, wrap);
    let mut f = fac.new_service(kani::any());
    let wk = mk_waker(0);
    let mut cx = Context::from_waker(&wk);
    let mut i = 0;
    while i < 4 {
        let p = Pin::new(&mut f).poll(&mut cx);
        assert!(out_of_init(&p) == fact_out(S));
        if p.is_ready() { break; }
        i += 1;
    }
    assert!(new_calls(S) == 1 && w_calls() == 0);
    core::mem::forget(wk);
}

/// Clone: a clone is the same combinator over the same parts — `apply_call` holds of it verbatim   [C11]
#[kani::proof]
fn apply_call_on_clone() {
    let orig = apply_fn(Leaf { id: S }, wrap);
    let s = orig.clone();          // everything below is asked of the CLONE
    let req: u16 = kani::any();
    let f: OFut = s.call(req);
    assert!(w_calls() == 1 && w_req() == req && w_svc() == S);
    assert!(f.id == W && !f.done);
    assert!(untouched(S) && untouched(W));
}

/// Clone: a clone is the same combinator over the same parts — `apply_factory_new_service` holds of it verbatim   [C11]
#[kani::proof]
fn apply_factory_new_service_on_clone() {
    let orig = apply_fn_factory(LeafFactory { id: S }, wrap);
    let fac = orig.clone();          // everything below is asked of the CLONE
    let cfg: u8 = kani::any();
    let f = fac.new_service(cfg);
    assert!(new_calls(S) == 1 && new_cfg(S) == cfg && fact_polls(S) == 0 && w_calls() == 0);
    assert!(f.wrap_fn.is_some() && f.fut.id == S && !f.fut.done);
}

#[kani::proof]
fn reach() {
    let mut f = ApplyServiceFactoryResponse::<LeafFactory, _, OFut, u16, u8, u8, u8>::new(OFactFut { id: S, done: false }, wrap);
    let wk = mk_waker(0);
    let mut cx = Context::from_waker(&wk);
    let p = Pin::new(&mut f).poll(&mut cx);
    kani::cover!(p.is_pending());
    kani::cover!(matches!(p, Poll::Ready(Ok(_))));
    kani::cover!(matches!(p, Poll::Ready(Err(_))));
    let s = apply_fn(Leaf { id: 1 }, wrap);
    let q = out_of_rdy(&s.poll_ready(&mut cx));
    kani::cover!(q == Out::Pending);
    kani::cover!(q.is_ok());
    kani::cover!(q.is_err());
    core::mem::forget(wk);
}
