// Injected as a child module of actix-utils/src/counter.rs — Route K, complete: every harness starts from an
// ARBITRARY counter state (any count, any capacity, a waker registered or not), so each statement is a per-operation
// contract; the history statements of C17 follow by induction over operations.
use super::*;
use core::task::Context;
include!(concat!(env!("VERIF_KANI_DIR"), "/common_waker.rs"));

fn any_counter() -> (Counter, usize, usize, Option<usize>) {
    let count: usize = kani::any();
    let capacity: usize = kani::any();
    let inner = CounterInner { count: Cell::new(count), capacity, task: LocalWaker::new() };
    let reg = if kani::any() {
        let a = any_id();
        let w = mk_waker(a);
        inner.task.register(&w);
        core::mem::forget(w);
        Some(a)
    } else { None };
    (Counter(Rc::new(inner)), count, capacity, reg)
}

/// available() is true exactly when fewer guards than the capacity are alive; when it answers `false` the caller's
/// waker becomes the registered one; when it answers `true` the registration is untouched.  total() == count.  [C17]
#[kani::proof]
fn available_iff_below_capacity_and_registers_caller() {
    let (c, count, capacity, reg) = any_counter();
    assert_eq!(c.total(), count);
    let me = any_id();
    let w = mk_waker(me);
    let cx = Context::from_waker(&w);
    let r = c.available(&cx);
    assert_eq!(r, count < capacity);
    assert_eq!(c.total(), count);
    let before = [woken(0), woken(1), woken(2)];
    c.0.task.wake();
    if !r {
        assert_eq!(woken(me), before[me] + 1);                    // the task most recently answered "unavailable"
        assert_eq!(woken(0) + woken(1) + woken(2), before[0] + before[1] + before[2] + 1);
    } else {
        match reg {
            Some(a) => assert_eq!(woken(a), before[a] + 1),
            None => assert_eq!(woken(0) + woken(1) + woken(2), before[0] + before[1] + before[2]),
        }
    }
    core::mem::forget(w);
}

/// acquiring a guard adds exactly one; dropping it removes exactly one and wakes the registered task exactly when
/// the drop brings the count from `capacity` to below it (and then clears the registration)   [C17]
#[kani::proof]
fn guard_counts_and_wakes_on_release() {
    let (c, count, capacity, reg) = any_counter();
    kani::assume(count < usize::MAX);
    let g = c.get();
    assert_eq!(c.total(), count + 1);
    let before = [woken(0), woken(1), woken(2)];
    drop(g);
    assert_eq!(c.total(), count);
    let crossing = count + 1 == capacity;
    let sum = woken(0) + woken(1) + woken(2);
    match (crossing, reg) {
        (true, Some(a)) => { assert_eq!(woken(a), before[a] + 1); assert_eq!(sum, before[0] + before[1] + before[2] + 1); }
        _ => assert_eq!(sum, before[0] + before[1] + before[2]),
    }
    // the registration is consumed by the wake and ONLY by it: a release that does not free capacity (the gate was
    // over-committed, or not full) leaves the waiting task registered — it is still owed the wake-up of the release that does
    c.0.task.wake();
    match (crossing, reg) {
        (false, Some(a)) => { assert_eq!(woken(a), before[a] + 1); assert_eq!(woken(0) + woken(1) + woken(2), sum + 1); }
        _ => assert_eq!(woken(0) + woken(1) + woken(2), sum),
    }
}

/// `std::thread::panicking()` is an INPUT of a destructor like any other: a guard dropped while its thread unwinds (the
/// handler or the handshake future that owns it panicked) must release its slot and wake the waiter just the same.
fn any_panicking() -> bool { kani::any() }

/// dropping any live guard from an arbitrary state (count >= 1) — whether or not the thread is unwinding: one decrement,
/// wake iff count == capacity, and the registration survives a release that does not wake   [C17]
#[kani::proof]
#[kani::stub(std::thread::panicking, any_panicking)]
fn drop_from_arbitrary_state() {
    let (c, count, capacity, reg) = any_counter();
    kani::assume(count >= 1);
    let g = CounterGuard(c.0.clone());       // a guard that is already counted in `count`
    let before = [woken(0), woken(1), woken(2)];
    drop(g);
    assert_eq!(c.total(), count - 1);
    let sum = woken(0) + woken(1) + woken(2);
    match (count == capacity, reg) {
        (true, Some(a)) => { assert_eq!(woken(a), before[a] + 1); assert_eq!(sum, before[0] + before[1] + before[2] + 1); }
        _ => assert_eq!(sum, before[0] + before[1] + before[2]),
    }
    // frame: a release that does not wake leaves the registration alone (count > capacity happens: `get()` never checks
    // the capacity, and several services share one gate)
    c.0.task.wake();
    match (count == capacity, reg) {
        (false, Some(a)) => { assert_eq!(woken(a), before[a] + 1); assert_eq!(woken(0) + woken(1) + woken(2), sum + 1); }
        _ => assert_eq!(woken(0) + woken(1) + woken(2), sum),
    }
}

/// dropping a Counter HANDLE (not a guard) changes nothing: the count stays and the registered task stays registered
/// (every clone shares one waker slot — a handle that goes away must not take another handle's waiter with it)   [C17]
#[kani::proof]
fn dropping_a_handle_changes_nothing() {
    let (c, count, _capacity, reg) = any_counter();
    let d = c.clone();
    drop(d);
    assert_eq!(c.total(), count);
    let before = [woken(0), woken(1), woken(2)];
    c.0.task.wake();
    match reg {
        Some(a) => { assert_eq!(woken(a), before[a] + 1); assert_eq!(woken(0) + woken(1) + woken(2), before[0] + before[1] + before[2] + 1); }
        None => assert_eq!(woken(0) + woken(1) + woken(2), before[0] + before[1] + before[2]),
    }
}

/// clones share one count
#[kani::proof]
fn clone_shares_count() {
    let (c, count, _cap, _reg) = any_counter();
    kani::assume(count < usize::MAX);
    let d = c.clone();
    let g = d.get();
    assert_eq!(c.total(), count + 1);
    assert_eq!(d.total(), count + 1);
    drop(g);
    assert_eq!(c.total(), count);
}

#[kani::proof]
fn counter_new_is_empty() {
    let cap: usize = kani::any();
    let c = Counter::new(cap);
    assert_eq!(c.total(), 0);
    let w = mk_waker(0);
    let cx = Context::from_waker(&w);
    assert_eq!(c.available(&cx), cap > 0);
    core::mem::forget(w);
}

// ---- an OBSERVING waker: its data pointer is the CounterInner itself; wake() records what a task that is polled
//      synchronously from inside wake() (a LocalSet / FuturesUnordered / block_on waker may do that) would read ----
static mut SEEN_AT_WAKE: Option<(usize, usize)> = None;
unsafe fn ob_clone(p: *const ()) -> RawWaker { RawWaker::new(p, &OB_VTABLE) }
unsafe fn ob_wake(p: *const ()) { let i = &*(p as *const CounterInner); SEEN_AT_WAKE = Some((i.count.get(), i.capacity)); }
unsafe fn ob_drop(_p: *const ()) {}
static OB_VTABLE: RawWakerVTable = RawWakerVTable::new(ob_clone, ob_wake, ob_wake, ob_drop);

/// "becomes ready, WITH a wake-up, when one ends": at the moment the registered task is woken the slot is already
/// free (count < capacity) — a task polled from inside wake() must find the gate open, otherwise it re-registers
/// behind a wake that has already been spent and is never woken again (lost wake-up).   [C17]
#[kani::proof]
fn woken_task_finds_the_gate_open() {
    let count: usize = kani::any();
    let capacity: usize = kani::any();
    kani::assume(count >= 1);
    let c = Counter(Rc::new(CounterInner { count: Cell::new(count), capacity, task: LocalWaker::new() }));
    let w = unsafe { Waker::from_raw(RawWaker::new(Rc::as_ptr(&c.0) as *const (), &OB_VTABLE)) };
    c.0.task.register(&w);
    let g = CounterGuard(c.0.clone());       // a guard that is already counted in `count`
    drop(g);
    match unsafe { SEEN_AT_WAKE } {
        Some((seen, cap)) => { assert!(seen < cap); assert_eq!(seen, count - 1); assert_eq!(count, capacity); }
        None => { assert!(count != capacity); }
    }
}

#[kani::proof]
fn reach() {
    let (c, count, capacity, reg) = any_counter();
    kani::cover!(count < capacity);
    kani::cover!(count == capacity && reg.is_some());
    kani::cover!(count > capacity);
    kani::cover!(count < usize::MAX && count + 1 == capacity && reg.is_none());
}
