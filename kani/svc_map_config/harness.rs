// Injected as a child module of actix-service/src/map_config.rs.  `map_config` / `unit_config` adapters: the inner
// factory is asked exactly once, with the mapped (resp. unit) config, and its own future is handed back untouched.
use super::*;
include!(concat!(env!("VERIF_KANI_DIR"), "/svc_oracle.rs"));

static mut M_CALLS: u32 = 0;
static mut M_ARG: u16 = 0;
static mut M_RET: u8 = 0;
/// counting config mapper u16 -> u8 with an arbitrary result
fn cfg_mapper(c: u16) -> u8 {
    let r: u8 = kani::any();
    unsafe { M_CALLS += 1; M_ARG = c; M_RET = r; }
    r
}
fn m_calls() -> u32 { unsafe { M_CALLS } }
fn m_arg() -> u16 { unsafe { M_ARG } }
fn m_ret() -> u8 { unsafe { M_RET } }

/// MapConfig::new_service(c): mapper applied exactly once to c, inner factory built once with the mapped config,
/// the inner future is returned as is (not polled)      [C11]
#[kani::proof]
fn map_config_new_service() {
    let fac = MapConfig::<_, u8, _, u16>::new(LeafFactory { id: 0 }, cfg_mapper);
    let c: u16 = kani::any();
    let f: OFactFut = fac.new_service(c);
    assert!(m_calls() == 1 && m_arg() == c);
    assert!(new_calls(0) == 1 && new_cfg(0) == m_ret());
    assert!(fact_polls(0) == 0 && f.id == 0 && !f.done);
}

/// the public constructor behaves the same   [C11]
#[kani::proof]
fn map_config_fn_new_service() {
    let fac = map_config::<_, _, u8, _, u16>(LeafFactory { id: 1 }, cfg_mapper);
    let c: u16 = kani::any();
    let f: OFactFut = fac.new_service(c);
    assert!(m_calls() == 1 && m_arg() == c);
    assert!(new_calls(1) == 1 && new_cfg(1) == m_ret());
    assert!(fact_polls(1) == 0 && f.id == 1 && !f.done && fact_untouched(0));
}

/// UnitConfig: any outer config, the inner factory is built exactly once (with `()`), its future returned as is [C11]
#[kani::proof]
fn unit_config_new_service() {
    let fac = UnitConfig::<_, u16, u8>::new(UnitLeafFactory { id: 0 });
    let f: OFactFut = fac.new_service(kani::any());
    assert!(new_calls(0) == 1 && fact_polls(0) == 0 && f.id == 0 && !f.done);
    let fac2 = unit_config::<_, _, u16, u8>(UnitLeafFactory { id: 1 });
    let g: OFactFut = fac2.new_service(kani::any());
    assert!(new_calls(1) == 1 && fact_polls(1) == 0 && g.id == 1 && !g.done && new_calls(0) == 1);
}

/// the returned future is the inner one: polling it yields the inner outcome (Pending / Ok / Err all possible)
/// Clone: a clone is the same combinator over the same parts — `map_config_new_service` holds of it verbatim   [C11]
#[kani::proof]
fn map_config_new_service_on_clone() {
    let orig = MapConfig::<_, u8, _, u16>::new(LeafFactory { id: 0 }, cfg_mapper);
    let fac = orig.clone();          // everything below is asked of the CLONE
    let c: u16 = kani::any();
    let f: OFactFut = fac.new_service(c);
    assert!(m_calls() == 1 && m_arg() == c);
    assert!(new_calls(0) == 1 && new_cfg(0) == m_ret());
    assert!(fact_polls(0) == 0 && f.id == 0 && !f.done);
}

/// Clone: a clone is the same combinator over the same parts — `unit_config_new_service` holds of it verbatim   [C11]
#[kani::proof]
fn unit_config_new_service_on_clone() {
    let orig = UnitConfig::<_, u16, u8>::new(UnitLeafFactory { id: 0 });
    let fac = orig.clone();          // everything below is asked of the CLONE
    let f: OFactFut = fac.new_service(kani::any());
    assert!(new_calls(0) == 1 && fact_polls(0) == 0 && f.id == 0 && !f.done);
    let fac2 = unit_config::<_, _, u16, u8>(UnitLeafFactory { id: 1 });
    let g: OFactFut = fac2.new_service(kani::any());
    assert!(new_calls(1) == 1 && fact_polls(1) == 0 && g.id == 1 && !g.done && new_calls(0) == 1);
}

#[kani::proof]
fn reach() {
    let fac = MapConfig::<_, u8, _, u16>::new(LeafFactory { id: 0 }, cfg_mapper);
    let mut f = fac.new_service(7);
    let wk = mk_waker(0);
    let mut cx = Context::from_waker(&wk);
    let p = Pin::new(&mut f).poll(&mut cx);
    kani::cover!(p.is_pending());
    kani::cover!(matches!(p, Poll::Ready(Ok(_))));
    kani::cover!(matches!(p, Poll::Ready(Err(_))));
    core::mem::forget(wk);
}
