// ---- test wakers with identity: the data pointer is an index, wake/wake_by_ref count per index ----
use core::task::{RawWaker, RawWakerVTable, Waker};

pub(crate) static mut WOKEN: [usize; 3] = [0; 3];
pub(crate) static mut CLONED: [usize; 3] = [0; 3];
pub(crate) static mut DROPPED: [usize; 3] = [0; 3];

unsafe fn vt_clone(p: *const ()) -> RawWaker { CLONED[p as usize] += 1; RawWaker::new(p, &VTABLE) }
unsafe fn vt_wake(p: *const ()) { WOKEN[p as usize] += 1; DROPPED[p as usize] += 1; }
unsafe fn vt_wake_by_ref(p: *const ()) { WOKEN[p as usize] += 1; }
unsafe fn vt_drop(p: *const ()) { DROPPED[p as usize] += 1; }
static VTABLE: RawWakerVTable = RawWakerVTable::new(vt_clone, vt_wake, vt_wake_by_ref, vt_drop);

pub(crate) fn mk_waker(id: usize) -> Waker {
    assert!(id < 3);
    unsafe { Waker::from_raw(RawWaker::new(id as *const (), &VTABLE)) }
}
pub(crate) fn woken(id: usize) -> usize { unsafe { WOKEN[id] } }
pub(crate) fn any_id() -> usize { let i: usize = kani::any(); kani::assume(i < 3); i }
