// Injected as a child module of actix-service/src/fn_service.rs.  fn_service / fn_factory / fn_factory_with_config:
// always ready (without touching anything), and call / new_service apply the closure exactly once to the request /
// config and hand back the closure's future untouched.  The closures are counting functions returning oracle
// futures (arbitrary outcome).
use super::*;
include!(concat!(env!("VERIF_KANI_DIR"), "/svc_oracle.rs"));

const H: usize = 2;     // id of the future returned by the request handler
const G: usize = 1;     // id of the init future returned by the factory closures

static mut H_CALLS: u32 = 0;
static mut H_REQ: u8 = 0;
fn handler(req: u8) -> OFut {
    unsafe { H_CALLS += 1; H_REQ = req; }
    OFut { id: H, done: false }
}
fn h_calls() -> u32 { unsafe { H_CALLS } }
fn h_req() -> u8 { unsafe { H_REQ } }

static mut G_CALLS: u32 = 0;
static mut G_CFG: u8 = 0;
fn make() -> OFactFut {
    unsafe { G_CALLS += 1; }
    OFactFut { id: G, done: false }
}
fn make_cfg(cfg: u8) -> OFactFut {
    unsafe { G_CALLS += 1; G_CFG = cfg; }
    OFactFut { id: G, done: false }
}
fn g_calls() -> u32 { unsafe { G_CALLS } }
fn g_cfg() -> u8 { unsafe { G_CFG } }

/// always ready, whatever the waker, and the closure is not run by a readiness check; call(req) applies the closure
/// exactly once to req and returns its future unpolled       [C11, C12]
fn check_fn_service<S: Service<u8, Response = u8, Error = u8, Future = OFut>>(s: &S) {
    let wk = mk_waker(any_w());
    let mut cx = Context::from_waker(&wk);
    assert!(s.poll_ready(&mut cx) == Poll::Ready(Ok(())));
    assert!(h_calls() == 0);
    let req: u8 = kani::any();
    let f: OFut = s.call(req);
    assert!(h_calls() == 1 && h_req() == req);
    assert!(f.id == H && !f.done && fut_polls(H) == 0);
    assert!(s.poll_ready(&mut cx) == Poll::Ready(Ok(())));
    assert!(h_calls() == 1);
    core::mem::forget(wk);
}

/// fn_service(f) used directly as a Service (Cfg = ())
#[kani::proof]
fn fn_service_as_service() {
    let s = fn_service::<_, _, u8, u8, u8, ()>(|r: u8| handler(r));
    check_fn_service(&s);
}

/// FnService (what the factory builds, and what IntoService gives for a closure)
#[kani::proof]
fn fn_service_into_service() {
    let s: FnService<_, OFut, u8, u8, u8> = (|r: u8| handler(r)).into_service();
    check_fn_service(&s);
    let c = s.clone();
    let f = c.call(7);
    assert!(h_calls() == 2 && h_req() == 7 && f.id == H);
}

/// fn_service(f) as a factory: for any config the init future is immediately Ok (never Pending, never Err), the
/// closure is not run by building; the built service is the FnService over the same closure     [C11, C12]
#[kani::proof]
fn fn_service_as_factory() {
    let fac = fn_service::<_, _, u8, u8, u8, u16>(|r: u8| handler(r));
    let mut fut = fac.new_service(kani::any::<u16>());
    let wk = mk_waker(any_w());
    let mut cx = Context::from_waker(&wk);
    let p = Pin::new(&mut fut).poll(&mut cx);
    assert!(h_calls() == 0);
    match p {
        Poll::Ready(Ok(s)) => check_fn_service(&s),
        _ => kani::assert(false, "fn_service factory must build immediately"),
    }
    let fac2: FnServiceFactory<_, OFut, u8, u8, u8, u16> = IntoServiceFactory::into_factory(|r: u8| handler(r));
    let _ = fac2.clone().new_service(3);
    core::mem::forget(wk);
}

/// fn_factory(f).new_service(cfg): f run exactly once, its future returned unpolled (config ignored)    [C11]
#[kani::proof]
fn fn_factory_new_service() {
    let fac = fn_factory::<_, u16, Leaf, u8, _, u8>(|| make());
    let f: OFactFut = fac.new_service(kani::any::<u16>());
    assert!(g_calls() == 1 && f.id == G && !f.done && fact_polls(G) == 0);
    let g: OFactFut = fac.clone().new_service(kani::any::<u16>());
    assert!(g_calls() == 2 && g.id == G && fact_polls(G) == 0);
    let fac3: FnServiceNoConfig<_, u16, Leaf, u8, OFactFut, u8> = IntoServiceFactory::into_factory(|| make());
    let h: OFactFut = fac3.new_service(1);
    assert!(g_calls() == 3 && h.id == G);
}

/// fn_factory_with_config(f).new_service(cfg): f run exactly once with cfg, its future returned unpolled   [C11]
#[kani::proof]
fn fn_factory_with_config_new_service() {
    let fac = fn_factory_with_config::<_, _, u8, Leaf, u8, u8>(|c: u8| make_cfg(c));
    let cfg: u8 = kani::any();
    let f: OFactFut = fac.new_service(cfg);
    assert!(g_calls() == 1 && g_cfg() == cfg && f.id == G && !f.done && fact_polls(G) == 0);
    let cfg2: u8 = kani::any();
    let g: OFactFut = fac.clone().new_service(cfg2);
    assert!(g_calls() == 2 && g_cfg() == cfg2 && g.id == G);
}

#[kani::proof]
fn reach() {
    let s = fn_service::<_, _, u8, u8, u8, ()>(|r: u8| handler(r));
    let wk = mk_waker(0);
    let mut cx = Context::from_waker(&wk);
    let mut f = s.call(1);
    let o = out_of(&Pin::new(&mut f).poll(&mut cx));
    kani::cover!(o == Out::Pending);
    kani::cover!(o.is_ok());
    kani::cover!(o.is_err());
    kani::cover!(s.poll_ready(&mut cx) == Poll::Ready(Ok(())));
    core::mem::forget(wk);
}
