// Injected as a child module of actix-service/src/transform_err.rs.  Contracts of `TransformExt::map_init_err`
// (ext.rs) and the TransformMapInitErr combinator it builds, against a most-general transform (its future is the
// oracle factory future: every poll outcome is kani::any()) and a most-general counting init-error mapper (u8 -> u16).
use super::*;
include!(concat!(env!("VERIF_KANI_DIR"), "/svc_oracle.rs"));
use crate::TransformExt;

const T: usize = 1;
static mut TR_CALLS: u32 = 0;
static mut TR_SVC: usize = 99;
fn tr_calls() -> u32 { unsafe { TR_CALLS } }
fn tr_svc() -> usize { unsafe { TR_SVC } }

/// most-general transform: logs the service it is applied to; its future is the oracle factory future of leaf T
#[derive(Clone)]
struct OTr;
/// (ext.rs implements TransformExt<T, Req> only for `T: Transform<T, Req>` — a transform applicable to its own type —
/// so the ext method is exercised through this second impl; the service "id" of an OTr is 2)
impl Transform<OTr, u8> for OTr {
    type Response = u8;
    type Error = u8;
    type Transform = Leaf;
    type InitError = u8;
    type Future = OFactFut;
    fn new_transform(&self, _service: OTr) -> OFactFut {
        unsafe { TR_CALLS += 1; TR_SVC = 2; }
        OFactFut { id: T, done: false }
    }
}
impl Transform<Leaf, u8> for OTr {
    type Response = u8;
    type Error = u8;
    type Transform = Leaf;
    type InitError = u8;
    type Future = OFactFut;
    fn new_transform(&self, service: Leaf) -> OFactFut {
        unsafe { TR_CALLS += 1; TR_SVC = service.id; }
        OFactFut { id: T, done: false }
    }
}

static mut M_CALLS: u32 = 0;
static mut M_ARG: u8 = 0;
static mut M_RET: u16 = 0;
fn mapper(e: u8) -> u16 {
    let r: u16 = kani::any();
    unsafe { M_CALLS += 1; M_ARG = e; M_RET = r; }
    r
}
fn m_calls() -> u32 { unsafe { M_CALLS } }
fn m_arg() -> u8 { unsafe { M_ARG } }
fn m_ret() -> u16 { unsafe { M_RET } }

/// new_transform (built through the ext method): the inner transform is applied exactly once to the given service;
/// nothing polled, mapper untouched     [C11]
#[kani::proof]
fn transform_map_init_err_new_transform() {
    let t = TransformExt::<OTr, u8>::map_init_err(OTr, |e: u8| mapper(e));
    let f = t.new_transform(OTr);
    assert!(tr_calls() == 1 && tr_svc() == 2 && fact_polls(T) == 0 && m_calls() == 0);
    assert!(f.fut.id == T && !f.fut.done);
}

/// Clone: a clone is the same combinator over the same parts     [C11]
#[kani::proof]
fn transform_map_init_err_new_transform_on_clone() {
    let orig = TransformMapInitErr::<OTr, Leaf, u8, _, u16>::new(OTr, |e: u8| mapper(e));
    let t = orig.clone();
    let f = t.new_transform(Leaf { id: 2 });
    assert!(tr_calls() == 1 && tr_svc() == 2 && fact_polls(T) == 0 && m_calls() == 0);
    assert!(f.fut.id == T && !f.fut.done);
}

/// TransformMapInitErrFuture, one poll: Pending -> Pending (caller's waker); Ok(svc) -> exactly that service, mapper
/// untouched; Err(e) -> mapper applied exactly once to e, result Err(mapper's value)     [C11, C12]
#[kani::proof]
fn transform_map_init_err_future_poll() {
    let mut f = TransformMapInitErrFuture::<OTr, Leaf, _, u16, u8> { fut: OFactFut { id: T, done: false }, f: |e: u8| mapper(e) };
    let w = any_w();
    let wk = mk_waker(w);
    let mut cx = Context::from_waker(&wk);
    let p = Pin::new(&mut f).poll(&mut cx);
    assert!(fact_polls(T) == 1);
    match fact_out(T) {
        Out::Pending => { assert!(p.is_pending()); assert!(m_calls() == 0); assert!(fact_waker(T) == w); }
        Out::Ok(_) => { assert!(p == Poll::Ready(Ok(Leaf { id: T }))); assert!(m_calls() == 0); }
        Out::Err(e) => { assert!(m_calls() == 1 && m_arg() == e); assert!(p == Poll::Ready(Err(m_ret()))); }
        Out::None => kani::assert(false, "inner transform future must be polled"),
    }
    core::mem::forget(wk);
}

#[kani::proof]
fn reach() {
    let mut f = TransformMapInitErrFuture::<OTr, Leaf, _, u16, u8> { fut: OFactFut { id: T, done: false }, f: |e: u8| mapper(e) };
    let wk = mk_waker(0);
    let mut cx = Context::from_waker(&wk);
    let p = Pin::new(&mut f).poll(&mut cx);
    kani::cover!(p.is_pending());
    kani::cover!(matches!(p, Poll::Ready(Ok(_))));
    kani::cover!(matches!(p, Poll::Ready(Err(_))));
    core::mem::forget(wk);
}
