// Injected as a child module of actix-service/src/map_err.rs.  Per-call / per-poll contracts of the `map_err`
// combinator against the most-general leaves and a most-general counting error mapper (u8 -> u16, result any()).
use super::*;
include!(concat!(env!("VERIF_KANI_DIR"), "/svc_oracle.rs"));

static mut M_CALLS: u32 = 0;
static mut M_ARG: u8 = 0;
static mut M_RET: u16 = 0;
fn mapper(e: u8) -> u16 {
    let r: u16 = kani::any();
    unsafe { M_CALLS += 1; M_ARG = e; M_RET = r; }
    r
}
fn m_calls() -> u32 { unsafe { M_CALLS } }
fn m_arg() -> u8 { unsafe { M_ARG } }
fn m_ret() -> u16 { unsafe { M_RET } }

/// poll_ready: inner polled once with the caller's waker; Pending/Ok pass through untouched; a readiness error is
/// reported MAPPED (mapper applied exactly once to it)         [C11, C12]
#[kani::proof]
fn map_err_poll_ready() {
    let s = MapErr::<_, u8, _, u16>::new(Leaf { id: 0 }, mapper);
    let w = any_w();
    let wk = mk_waker(w);
    let mut cx = Context::from_waker(&wk);
    let p = s.poll_ready(&mut cx);
    assert!(rdy_polls(0) == 1);
    assert!(rdy_waker(0) == w);
    match rdy_out(0) {
        Out::Pending => { assert!(p.is_pending()); assert!(m_calls() == 0); }
        Out::Ok(_) => { assert!(p == Poll::Ready(Ok(()))); assert!(m_calls() == 0); }
        Out::Err(e) => { assert!(m_calls() == 1 && m_arg() == e); assert!(p == Poll::Ready(Err(m_ret()))); }
        Out::None => kani::assert(false, "inner service must be polled"),
    }
    assert!(calls(0) == 0);
    core::mem::forget(wk);
}

/// call: inner called exactly once with the request; mapper untouched; nothing polled   [C11]
#[kani::proof]
fn map_err_call() {
    let s = MapErr::<_, u8, _, u16>::new(Leaf { id: 0 }, mapper);
    let req: u8 = kani::any();
    let f = s.call(req);
    assert!(calls(0) == 1 && call_req(0) == req);
    assert!(m_calls() == 0 && fut_polls(0) == 0 && rdy_polls(0) == 0);
    assert!(f.fut.id == 0 && !f.fut.done);
}

/// MapErrFuture, one poll: Pending -> Pending; Ok(v) -> Ok(v), mapper untouched; Err(e) -> mapper applied exactly
/// once to e, result Err(mapper's value)          [C11, C12]
#[kani::proof]
fn map_err_future_poll() {
    let mut f = MapErrFuture::<Leaf, u8, _, u16>::new(OFut { id: 0, done: false }, mapper);
    let w = any_w();
    let wk = mk_waker(w);
    let mut cx = Context::from_waker(&wk);
    let p = Pin::new(&mut f).poll(&mut cx);
    assert!(fut_polls(0) == 1);
    match fut_out(0) {
        Out::Pending => { assert!(p.is_pending()); assert!(m_calls() == 0); assert!(fut_waker(0) == w); }
        Out::Ok(v) => { assert!(p == Poll::Ready(Ok(v))); assert!(m_calls() == 0); }
        Out::Err(e) => { assert!(m_calls() == 1 && m_arg() == e); assert!(p == Poll::Ready(Err(m_ret()))); }
        Out::None => kani::assert(false, "inner future must be polled"),
    }
    core::mem::forget(wk);
}

/// factory: inner factory asked exactly once with the supplied config, nothing polled     [C11]
#[kani::proof]
fn map_err_factory_new_service() {
    let fac = MapErrServiceFactory::<_, u8, _, u16>::new(LeafFactory { id: 0 }, mapper);
    let cfg: u8 = kani::any();
    let f = fac.new_service(cfg);
    assert!(new_calls(0) == 1 && new_cfg(0) == cfg && fact_polls(0) == 0 && m_calls() == 0);
    assert!(f.fut.id == 0 && !f.fut.done);
}

/// MapErrServiceFuture, one poll: Pending / the init error UNMAPPED (InitError is the inner one) / MapErr around
/// exactly the built inner service with the supplied mapper      [C11, C12]
#[kani::proof]
fn map_err_factory_future_poll() {
    let mut f = MapErrServiceFuture::<LeafFactory, u8, _, u16>::new(OFactFut { id: 0, done: false }, mapper);
    let w = any_w();
    let wk = mk_waker(w);
    let mut cx = Context::from_waker(&wk);
    let p = Pin::new(&mut f).poll(&mut cx);
    assert!(fact_polls(0) == 1);
    assert!(out_of_init(&p) == fact_out(0));
    assert!(m_calls() == 0);
    if p.is_pending() { assert!(fact_waker(0) == w); }
    if let Poll::Ready(Ok(m)) = p {
        assert!(m.service.id == 0);
        let x: u8 = kani::any();
        let y = (m.mapper)(x);
        assert!(m_calls() == 1 && m_arg() == x && m_ret() == y);
    }
    core::mem::forget(wk);
}

/// call() then up to 4 polls: the mapper runs exactly once iff the answer is Err   [C11, C12]
#[kani::proof]
#[kani::unwind(6)]
fn map_err_run_to_completion() {
    let s = MapErr::<_, u8, _, u16>::new(Leaf { id: 0 }, mapper);
    let mut f = s.call(kani::any());
    let wk = mk_waker(0);
    let mut cx = Context::from_waker(&wk);
    let mut i = 0;
    while i < 4 {
        let p = Pin::new(&mut f).poll(&mut cx);
        match p {
            Poll::Pending => { assert!(m_calls() == 0 && fut_out(0) == Out::Pending); }
            Poll::Ready(Ok(v)) => { assert!(m_calls() == 0 && fut_out(0) == Out::Ok(v)); break; }
            Poll::Ready(Err(e)) => { assert!(m_calls() == 1 && e == m_ret() && fut_out(0) == Out::Err(m_arg())); break; }
        }
        i += 1;
    }
    assert!(calls(0) == 1);
    core::mem::forget(wk);
}

#[kani::proof]
#[kani::unwind(6)]
fn map_err_factory_run_to_completion() {
    let fac = MapErrServiceFactory::<_, u8, _, u16>::new(LeafFactory { id: 0 }, mapper);
    let mut f = fac.new_service(kani::any());
    let wk = mk_waker(0);
    let mut cx = Context::from_waker(&wk);
    let mut i = 0;
    while i < 4 {
        let p = Pin::new(&mut f).poll(&mut cx);
        assert!(out_of_init(&p) == fact_out(0));
        if p.is_ready() { break; }
        i += 1;
    }
    assert!(new_calls(0) == 1 && m_calls() == 0);
    core::mem::forget(wk);
}

/// Clone: a clone is the same combinator over the same parts — `map_err_call` holds of it verbatim   [C11]
#[kani::proof]
fn map_err_call_on_clone() {
    let orig = MapErr::<_, u8, _, u16>::new(Leaf { id: 0 }, mapper);
    let s = orig.clone();          // everything below is asked of the CLONE
    let req: u8 = kani::any();
    let f = s.call(req);
    assert!(calls(0) == 1 && call_req(0) == req);
    assert!(m_calls() == 0 && fut_polls(0) == 0 && rdy_polls(0) == 0);
    assert!(f.fut.id == 0 && !f.fut.done);
}

/// Clone: a clone is the same combinator over the same parts — `map_err_factory_new_service` holds of it verbatim   [C11]
#[kani::proof]
fn map_err_factory_new_service_on_clone() {
    let orig = MapErrServiceFactory::<_, u8, _, u16>::new(LeafFactory { id: 0 }, mapper);
    let fac = orig.clone();          // everything below is asked of the CLONE
    let cfg: u8 = kani::any();
    let f = fac.new_service(cfg);
    assert!(new_calls(0) == 1 && new_cfg(0) == cfg && fact_polls(0) == 0 && m_calls() == 0);
    assert!(f.fut.id == 0 && !f.fut.done);
}

#[kani::proof]
fn reach() {
    let mut f = MapErrFuture::<Leaf, u8, _, u16>::new(OFut { id: 0, done: false }, mapper);
    let wk = mk_waker(0);
    let mut cx = Context::from_waker(&wk);
    let p = Pin::new(&mut f).poll(&mut cx);
    kani::cover!(p.is_pending());
    kani::cover!(matches!(p, Poll::Ready(Ok(_))));
    kani::cover!(matches!(p, Poll::Ready(Err(_))) && m_calls() == 1);
    let s = MapErr::<_, u8, _, u16>::new(Leaf { id: 1 }, mapper);
    let q = s.poll_ready(&mut cx);
    kani::cover!(q.is_pending());
    kani::cover!(matches!(q, Poll::Ready(Ok(_))));
    kani::cover!(matches!(q, Poll::Ready(Err(_))));
    let mut g = MapErrServiceFuture::<LeafFactory, u8, _, u16>::new(OFactFut { id: 2, done: false }, mapper);
    let t = Pin::new(&mut g).poll(&mut cx);
    kani::cover!(t.is_pending());
    kani::cover!(matches!(t, Poll::Ready(Ok(_))));
    kani::cover!(matches!(t, Poll::Ready(Err(_))));
    core::mem::forget(wk);
}
