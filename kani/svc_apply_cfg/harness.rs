// Injected as a child module of actix-service/src/apply_cfg.rs.  `apply_cfg` / `apply_cfg_factory` against the
// most-general leaves and a most-general counting config function: it logs (cfg, service) and returns an oracle
// init future with id R (Pending / Ok(Leaf{R}) / Err, all kani::any()).
use super::*;
include!(concat!(env!("VERIF_KANI_DIR"), "/svc_oracle.rs"));

const S: usize = 0;     // the inner service (apply_cfg) / the inner factory and the service it builds (apply_cfg_factory)
const R: usize = 1;     // the future returned by the config function and the service it builds

static mut CF_CALLS: u32 = 0;
static mut CF_CFG: u16 = 0;
static mut CF_SVC: usize = NOW;
fn cfg_fn(cfg: u16, svc: &Leaf) -> OFactFut {
    unsafe { CF_CALLS += 1; CF_CFG = cfg; CF_SVC = svc.id; }
    OFactFut { id: R, done: false }
}
fn cf_calls() -> u32 { unsafe { CF_CALLS } }
fn cf_cfg() -> u16 { unsafe { CF_CFG } }
fn cf_svc() -> usize { unsafe { CF_SVC } }

/// apply_cfg(srv, f).new_service(cfg): f applied exactly once to (cfg, srv); its future is returned unpolled; the
/// service itself is not touched       [C11]
#[kani::proof]
fn apply_cfg_new_service() {
    let fac = apply_cfg::<_, u8, _, u16, _, Leaf, u8>(Leaf { id: S }, cfg_fn);
    let c: u16 = kani::any();
    let f: OFactFut = fac.new_service(c);
    assert!(cf_calls() == 1 && cf_cfg() == c && cf_svc() == S);
    assert!(f.id == R && !f.done && fact_polls(R) == 0 && untouched(S));
    let fac2 = fac.clone();                         // a clone shares service and function
    let d: u16 = kani::any();
    let g: OFactFut = fac2.new_service(d);
    assert!(cf_calls() == 2 && cf_cfg() == d && cf_svc() == S && g.id == R);
}

/// apply_cfg_factory(factory, f).new_service(cfg): inner factory asked exactly once (unit config); f not applied
/// yet, nothing polled; state A holding the config        [C11]
#[kani::proof]
fn apply_cfg_factory_new_service() {
    // (a closure, not the bare fn item: Kani 0.68 ICEs on a fn item that is stored but never called in a harness)
    let fac = ApplyConfigServiceFactory::<_, u8, _, u16, OFactFut, Leaf> { srv: Rc::new((UnitLeafFactory { id: S }, |c: u16, s: &Leaf| cfg_fn(c, s))), _phantom: PhantomData };
    let c: u16 = kani::any();
    let f = fac.new_service(c);
    assert!(new_calls(S) == 1 && fact_polls(S) == 0 && cf_calls() == 0 && untouched(S));
    assert!(f.cfg == Some(c));
    match &f.state {
        State::A { fut } => assert!(fut.id == S && !fut.done),
        _ => kani::assert(false, "new_service must start in state A"),
    }
}

fn mk<F: Fn(u16, &Leaf) -> OFactFut>(f: F, cfg: Option<u16>, state: State<UnitLeafFactory, OFactFut, Leaf, u8>)
    -> ApplyConfigServiceFactoryResponse<UnitLeafFactory, u8, F, u16, OFactFut, Leaf> {
    ApplyConfigServiceFactoryResponse { cfg, store: Rc::new((UnitLeafFactory { id: S }, f)), state }
}

/// reference behaviour from state C on: exactly the config function's future, polled once with the caller's waker
fn spec_from_c<X>(p: &Poll<Result<Leaf, u8>>, w: usize, f: &ApplyConfigServiceFactoryResponse<UnitLeafFactory, u8, X, u16, OFactFut, Leaf>)
where X: Fn(u16, &Leaf) -> OFactFut {
    let r = out_of_init(p);
    assert!(fact_polls(R) == 1);
    assert!(r == fact_out(R));
    if let Poll::Ready(Ok(s)) = p { assert!(s.id == R); }
    if r == Out::Pending { assert!(fact_waker(R) == w); assert!(matches!(f.state, State::C { .. })); }
}

/// reference behaviour from state B on: wait for the built service's readiness (Pending -> Pending with the
/// caller's waker, Err(e) -> Err(e) converted by From), then apply the config function exactly once to
/// (cfg, built service), then as state C
fn spec_from_b<X>(p: &Poll<Result<Leaf, u8>>, w: usize, c: u16, f: &ApplyConfigServiceFactoryResponse<UnitLeafFactory, u8, X, u16, OFactFut, Leaf>)
where X: Fn(u16, &Leaf) -> OFactFut {
    let r = out_of_init(p);
    assert!(rdy_polls(S) == 1);
    assert!(calls(S) == 0);
    match rdy_out(S) {
        Out::Pending => {
            assert!(r == Out::Pending);
            assert!(rdy_waker(S) == w);
            assert!(cf_calls() == 0 && fact_polls(R) == 0);
            assert!(matches!(f.state, State::B { .. }) && f.cfg == Some(c));
        }
        Out::Err(e) => { assert!(r == Out::Err(e)); assert!(cf_calls() == 0 && fact_polls(R) == 0); }
        Out::Ok(_) => {
            assert!(cf_calls() == 1 && cf_cfg() == c && cf_svc() == S);
            spec_from_c(p, w, f);
        }
        Out::None => kani::assert(false, "the built service's readiness must be polled"),
    }
}

/// state A (cfg is Some - set by new_service, taken only on the B -> C step), one poll       [C11, C12]
#[kani::proof]
#[kani::unwind(3)]
fn apply_cfg_factory_poll_from_state_a() {
    let c: u16 = kani::any();
    let mut f = mk(cfg_fn, Some(c), State::A { fut: OFactFut { id: S, done: false } });
    let w = any_w();
    let wk = mk_waker(w);
    let mut cx = Context::from_waker(&wk);
    let p = Pin::new(&mut f).poll(&mut cx);
    let r = out_of_init(&p);
    assert!(fact_polls(S) == 1);
    match fact_out(S) {
        Out::Pending => {
            assert!(r == Out::Pending);
            assert!(fact_waker(S) == w);
            assert!(cf_calls() == 0 && untouched(S) && fact_polls(R) == 0);
            assert!(matches!(f.state, State::A { .. }) && f.cfg == Some(c));
        }
        Out::Err(e) => { assert!(r == Out::Err(e)); assert!(cf_calls() == 0 && untouched(S) && fact_polls(R) == 0); }
        Out::Ok(_) => spec_from_b(&p, w, c, &f),
        Out::None => kani::assert(false, "the inner init future must be polled"),
    }
    assert!(new_calls(S) == 0);
    core::mem::forget(wk);
}

/// state B (service built, cfg still Some), one poll        [C11, C12]
#[kani::proof]
#[kani::unwind(3)]
fn apply_cfg_factory_poll_from_state_b() {
    let c: u16 = kani::any();
    let mut f = mk(cfg_fn, Some(c), State::B { svc: Leaf { id: S } });
    let w = any_w();
    let wk = mk_waker(w);
    let mut cx = Context::from_waker(&wk);
    let p = Pin::new(&mut f).poll(&mut cx);
    spec_from_b(&p, w, c, &f);
    assert!(fact_untouched(S));
    core::mem::forget(wk);
}

/// state C (cfg consumed), one poll: only the config function's future is touched       [C11, C12]
#[kani::proof]
#[kani::unwind(3)]
fn apply_cfg_factory_poll_from_state_c() {
    let mut f = mk(cfg_fn, None, State::C { fut: OFactFut { id: R, done: false } });
    let w = any_w();
    let wk = mk_waker(w);
    let mut cx = Context::from_waker(&wk);
    let p = Pin::new(&mut f).poll(&mut cx);
    spec_from_c(&p, w, &f);
    assert!(fact_untouched(S) && untouched(S) && cf_calls() == 0);
    core::mem::forget(wk);
}

#[kani::proof]
#[kani::unwind(6)]
fn apply_cfg_factory_run_to_completion() {
    let fac = apply_cfg_factory::<_, u8, _, u16, OFactFut, Leaf>(UnitLeafFactory { id: S }, cfg_fn);
    let c: u16 = kani::any();
    let mut f = core::pin::pin!(fac.new_service(c));       // opaque `impl ServiceFactory`: its future is not known to be Unpin
    let wk = mk_waker(0);
    let mut cx = Context::from_waker(&wk);
    let mut i = 0;
    while i < 4 {
        let p = f.as_mut().poll(&mut cx);
        let r = out_of_init(&p);
        assert!(new_calls(S) == 1 && cf_calls() <= 1);
        if r != Out::Pending {
            if cf_calls() == 1 { assert!(r == fact_out(R)); assert!(cf_cfg() == c && cf_svc() == S && rdy_out(S).is_ok() && fact_out(S).is_ok()); }
            else { assert!(r.is_err()); assert!(r == fact_out(S) || r == rdy_out(S)); }
            break;
        }
        i += 1;
    }
    core::mem::forget(wk);
}

#[kani::proof]
#[kani::unwind(3)]
fn reach() {
    let mut f = mk(cfg_fn, Some(5), State::A { fut: OFactFut { id: S, done: false } });
    let wk = mk_waker(0);
    let mut cx = Context::from_waker(&wk);
    let r = out_of_init(&Pin::new(&mut f).poll(&mut cx));
    kani::cover!(r == Out::Pending && matches!(f.state, State::A { .. }));
    kani::cover!(r == Out::Pending && matches!(f.state, State::B { .. }));
    kani::cover!(r == Out::Pending && matches!(f.state, State::C { .. }));
    kani::cover!(r.is_ok());
    kani::cover!(r.is_err() && fact_out(S).is_err());
    kani::cover!(r.is_err() && rdy_out(S).is_err());
    kani::cover!(r.is_err() && fact_out(R).is_err());
    core::mem::forget(wk);
}/// Clone: a clone is the same combinator over the same parts — `apply_cfg_factory_new_service` holds of it verbatim   [C11]
#[kani::proof]
fn apply_cfg_factory_new_service_on_clone() {
    // (a closure, not the bare fn item: Kani 0.68 ICEs on a fn item that is stored but never called in a harness)
    let orig = ApplyConfigServiceFactory::<_, u8, _, u16, OFactFut, Leaf> { srv: Rc::new((UnitLeafFactory { id: S }, |c: u16, s: &Leaf| cfg_fn(c, s))), _phantom: PhantomData };
    let fac = orig.clone();          // everything below is asked of the CLONE
    let c: u16 = kani::any();
    let f = fac.new_service(c);
    assert!(new_calls(S) == 1 && fact_polls(S) == 0 && cf_calls() == 0 && untouched(S));
    assert!(f.cfg == Some(c));
    match &f.state {
        State::A { fut } => assert!(fut.id == S && !fut.done),
        _ => kani::assert(false, "new_service must start in state A"),
    }
}


