// Injected as a child module of actix-service/src/and_then.rs.  Per-poll contracts of the `and_then` combinator
// against the most-general leaves of svc_oracle.rs.  Every future harness starts from one control state of the
// private state machine (built directly) and polls ONCE; the history statements of C11/C12 follow by induction.
use super::*;
include!(concat!(env!("VERIF_KANI_DIR"), "/svc_oracle.rs"));

const A: usize = 0;
const B: usize = 1;

type Resp = AndThenServiceResponse<Leaf, Leaf, u8>;
type FResp = AndThenServiceFactoryResponse<LeafFactory, LeafFactory, u8>;

fn svc() -> AndThenService<Leaf, Leaf, u8> { AndThenService::new(Leaf { id: A }, Leaf { id: B }) }

/// poll_ready: Ready(Ok) iff both leaves answered Ready(Ok); an Err of a leaf surfaces as that Err; when Pending,
/// every leaf that answered Pending was polled in this call with the caller's waker.   [C12]
#[kani::proof]
fn and_then_poll_ready() {
    let s = svc();
    let w = any_w();
    let wk = mk_waker(w);
    let mut cx = Context::from_waker(&wk);
    let r = out_of_rdy(&s.poll_ready(&mut cx));
    let (ra, rb) = (rdy_out(A), rdy_out(B));
    // ready only if every inner service is ready
    assert!((r == Out::Ok(0)) == (ra == Out::Ok(0) && rb == Out::Ok(0)));
    // an inner readiness error is reported instead of ready/pending, and it is the error of a leaf that failed
    assert!(r.is_err() == (ra.is_err() || rb.is_err()));
    if r.is_err() { assert!(r == ra || r == rb); }
    if ra.is_err() { assert!(r == ra); }
    // pending: somebody is pending, and everybody who is pending has the current waker
    if r == Out::Pending {
        assert!(ra == Out::Pending || rb == Out::Pending);
        assert!(ra != Out::None && rb != Out::None);       // nobody whose readiness is unknown was skipped
        if ra == Out::Pending { assert!(rdy_waker(A) == w); }
        if rb == Out::Pending { assert!(rdy_waker(B) == w); }
    }
    assert!(rdy_polls(A) <= 1 && rdy_polls(B) <= 1);
    assert!(calls(A) == 0 && calls(B) == 0);
    core::mem::forget(wk);
}

/// call: the first stage is called exactly once with the request, the second stage not yet, nothing is polled [C11]
#[kani::proof]
fn and_then_call() {
    let s = svc();
    let req: u8 = kani::any();
    let f = s.call(req);
    assert!(calls(A) == 1);
    assert!(call_req(A) == req);
    assert!(calls(B) == 0);
    assert!(fut_polls(A) == 0 && fut_polls(B) == 0 && rdy_polls(A) == 0 && rdy_polls(B) == 0);
    match &f.state {
        State::A { fut, b } => { assert!(fut.id == A && !fut.done); assert!(b.is_some()); }
        State::B { .. } => kani::assert(false, "call must start in state A"),
    }
}

fn state_a() -> Resp {
    // the only constructor of State::A (AndThenService::call) always stores Some(rc) and a fresh first-stage future;
    // the service that made the future may still be alive (Rc shared) or already dropped (future is the only owner)
    let rc = Rc::new((Leaf { id: A }, Leaf { id: B }));
    if kani::any() { core::mem::forget(rc.clone()); }
    AndThenServiceResponse { state: State::A { fut: OFut { id: A, done: false }, b: Some(rc) } }
}
fn state_b() -> Resp {
    AndThenServiceResponse { state: State::B { fut: OFut { id: B, done: false } } }
}

/// state A, one poll   [C11, C12]
#[kani::proof]
#[kani::unwind(2)]
fn and_then_poll_from_state_a() {
    let mut f = state_a();
    let w = any_w();
    let wk = mk_waker(w);
    let mut cx = Context::from_waker(&wk);
    let r = out_of(&unsafe { Pin::new_unchecked(&mut f) }.poll(&mut cx));
    let fa = fut_out(A);
    assert!(fut_polls(A) == 1);
    assert!(calls(A) == 0);
    match fa {
        Out::Pending => {
            assert!(r == Out::Pending);
            assert!(calls(B) == 0 && fut_polls(B) == 0);
            assert!(fut_waker(A) == w);
            // the state invariant is re-established: still in state A WITH the shared pair (state_a() starts every
            // harness from such a state; a poll that gives the pair up while stage one is pending breaks the next poll)
            assert!(matches!(f.state, State::A { b: Some(_), .. }));
            if let State::A { fut, .. } = &f.state { assert!(fut.id == A && !fut.done); }
        }
        Out::Err(e) => {
            assert!(r == Out::Err(e));
            assert!(calls(B) == 0 && fut_polls(B) == 0);     // second stage only if the first succeeds
        }
        Out::Ok(v) => {
            assert!(calls(B) == 1);                          // second stage invoked exactly once ...
            assert!(call_req(B) == v);                       // ... with the first stage's response
            assert!(fut_polls(B) == 1);
            assert!(r == fut_out(B));                        // and the result is what its future answered now
            if r == Out::Pending {
                assert!(fut_waker(B) == w);
                assert!(matches!(f.state, State::B { .. }));
            }
        }
        Out::None => kani::assert(false, "first-stage future must be polled"),
    }
    assert!(rdy_polls(A) == 0 && rdy_polls(B) == 0);
    core::mem::forget(wk);
}

/// state B, one poll: the result is the second stage's answer; stage one is not touched, stage two not called again
#[kani::proof]
#[kani::unwind(2)]
fn and_then_poll_from_state_b() {
    let mut f = state_b();
    let w = any_w();
    let wk = mk_waker(w);
    let mut cx = Context::from_waker(&wk);
    let r = out_of(&unsafe { Pin::new_unchecked(&mut f) }.poll(&mut cx));
    assert!(fut_polls(B) == 1);
    assert!(r == fut_out(B));
    assert!(untouched(A));
    assert!(calls(B) == 0);
    if r == Out::Pending { assert!(fut_waker(B) == w); assert!(matches!(f.state, State::B { .. })); }
    core::mem::forget(wk);
}

/// factory: both inner factories are asked exactly once, both with the supplied config; nothing is polled yet  [C11]
#[kani::proof]
fn and_then_factory_new_service() {
    let fac = AndThenServiceFactory::<_, _, u8>::new(LeafFactory { id: A }, LeafFactory { id: B });
    let cfg: u8 = kani::any();
    let f = fac.new_service(cfg);
    assert!(new_calls(A) == 1 && new_calls(B) == 1);
    assert!(new_cfg(A) == cfg && new_cfg(B) == cfg);
    assert!(fact_polls(A) == 0 && fact_polls(B) == 0);
    assert!(f.a.is_none() && f.b.is_none());
    assert!(f.fut_a.id == A && f.fut_b.id == B && !f.fut_a.done && !f.fut_b.done);
}

/// factory response, one poll from an arbitrary state (a / b already built or not).  State invariant used for the
/// construction: `a` is Some exactly when fut_a has completed (it is only ever set from fut_a's Ready(Ok); after a
/// Ready(Err) the whole future has completed) - likewise b.     [C11, C12]
#[kani::proof]
fn and_then_factory_response_poll_any_state() {
    let a_some: bool = kani::any();
    let b_some: bool = kani::any();
    let mut f: FResp = AndThenServiceFactoryResponse {
        fut_a: OFactFut { id: A, done: a_some },
        fut_b: OFactFut { id: B, done: b_some },
        a: if a_some { Some(Leaf { id: A }) } else { None },
        b: if b_some { Some(Leaf { id: B }) } else { None },
    };
    let w = any_w();
    let wk = mk_waker(w);
    let mut cx = Context::from_waker(&wk);
    let p = unsafe { Pin::new_unchecked(&mut f) }.poll(&mut cx);
    let r = out_of_init(&p);
    let (oa, ob) = (fact_out(A), fact_out(B));
    // completed inner futures are never polled again; the others at most once
    if a_some { assert!(fact_polls(A) == 0); } else { assert!(fact_polls(A) == 1); }
    if b_some { assert!(fact_polls(B) == 0); } else { assert!(fact_polls(B) <= 1); }
    // first init error wins
    assert!(r.is_err() == (oa.is_err() || ob.is_err()));
    if oa.is_err() { assert!(r == oa); assert!(fact_polls(B) == 0); }
    else if ob.is_err() { assert!(r == ob); }
    // built exactly when both halves are available, from the right halves in the right order
    let a_avail = a_some || oa.is_ok();
    let b_avail = b_some || ob.is_ok();
    assert!(r.is_ok() == (a_avail && b_avail));
    if let Poll::Ready(Ok(s)) = &p {
        assert!(s.0 .0.id == A && s.0 .1.id == B);
    }
    if r == Out::Pending {
        assert!(oa == Out::Pending || ob == Out::Pending);
        if !b_some { assert!(fact_polls(B) == 1); }          // every still-pending inner future was polled
        if oa == Out::Pending { assert!(fact_waker(A) == w); }
        if ob == Out::Pending { assert!(fact_waker(B) == w); }
        assert!(f.a.is_some() == a_avail);
        assert!(f.b.is_some() == b_avail);
    }
    assert!(new_calls(A) == 0 && new_calls(B) == 0);
    core::mem::forget(wk);
}

/// from call() up to 4 polls: at most one call of b, no inner future polled after completion (asserted by the
/// leaves), the final answer is b's answer or a's error       [C11, C12]
#[kani::proof]
#[kani::unwind(6)]
fn and_then_run_to_completion() {
    let s = svc();
    let req: u8 = kani::any();
    let mut f = s.call(req);
    let wk = mk_waker(0);
    let mut cx = Context::from_waker(&wk);
    let mut i = 0;
    while i < 4 {
        let r = out_of(&unsafe { Pin::new_unchecked(&mut f) }.poll(&mut cx));
        assert!(calls(A) == 1 && calls(B) <= 1);
        if r != Out::Pending {
            if calls(B) == 1 { assert!(r == fut_out(B)); assert!(fut_out(A).is_ok()); assert!(call_req(B) == (match fut_out(A) { Out::Ok(v) => v, _ => 0 })); }
            else { assert!(r == fut_out(A)); assert!(r.is_err()); }
            break;
        }
        assert!(fut_out(A) == Out::Pending || fut_out(B) == Out::Pending);
        i += 1;
    }
    core::mem::forget(wk);
}

#[kani::proof]
#[kani::unwind(6)]
fn and_then_factory_run_to_completion() {
    let fac = AndThenServiceFactory::<_, _, u8>::new(LeafFactory { id: A }, LeafFactory { id: B });
    let cfg: u8 = kani::any();
    let mut f = fac.new_service(cfg);
    let wk = mk_waker(0);
    let mut cx = Context::from_waker(&wk);
    let mut i = 0;
    while i < 4 {
        let p = unsafe { Pin::new_unchecked(&mut f) }.poll(&mut cx);
        let r = out_of_init(&p);
        assert!(new_calls(A) == 1 && new_calls(B) == 1);
        if r != Out::Pending {
            if r.is_ok() { assert!(fact_out(A).is_ok() && fact_out(B).is_ok()); }
            else { assert!(r == fact_out(A) || r == fact_out(B)); }
            break;
        }
        i += 1;
    }
    core::mem::forget(wk);
}

#[kani::proof]
#[kani::unwind(2)]
fn reach() {
    let mut f = state_a();
    let wk = mk_waker(0);
    let mut cx = Context::from_waker(&wk);
    let r = out_of(&unsafe { Pin::new_unchecked(&mut f) }.poll(&mut cx));
    kani::cover!(r == Out::Pending && fut_out(A) == Out::Pending);
    kani::cover!(r == Out::Pending && fut_out(B) == Out::Pending);
    kani::cover!(r.is_ok());
    kani::cover!(r.is_err() && calls(B) == 0);
    kani::cover!(r.is_err() && calls(B) == 1);
    let s = svc();
    let q = out_of_rdy(&s.poll_ready(&mut cx));
    kani::cover!(q == Out::Pending);
    kani::cover!(q.is_ok());
    kani::cover!(q.is_err());
    core::mem::forget(wk);
}/// Clone: a clone is the same combinator over the same parts — `and_then_call` holds of it verbatim   [C11]
#[kani::proof]
fn and_then_call_on_clone() {
    let orig = svc();
    let s = orig.clone();          // everything below is asked of the CLONE
    let req: u8 = kani::any();
    let f = s.call(req);
    assert!(calls(A) == 1);
    assert!(call_req(A) == req);
    assert!(calls(B) == 0);
    assert!(fut_polls(A) == 0 && fut_polls(B) == 0 && rdy_polls(A) == 0 && rdy_polls(B) == 0);
    match &f.state {
        State::A { fut, b } => { assert!(fut.id == A && !fut.done); assert!(b.is_some()); }
        State::B { .. } => kani::assert(false, "call must start in state A"),
    }
}

/// Clone: a clone is the same combinator over the same parts — `and_then_factory_new_service` holds of it verbatim   [C11]
#[kani::proof]
fn and_then_factory_new_service_on_clone() {
    let orig = AndThenServiceFactory::<_, _, u8>::new(LeafFactory { id: A }, LeafFactory { id: B });
    let fac = orig.clone();          // everything below is asked of the CLONE
    let cfg: u8 = kani::any();
    let f = fac.new_service(cfg);
    assert!(new_calls(A) == 1 && new_calls(B) == 1);
    assert!(new_cfg(A) == cfg && new_cfg(B) == cfg);
    assert!(fact_polls(A) == 0 && fact_polls(B) == 0);
    assert!(f.a.is_none() && f.b.is_none());
    assert!(f.fut_a.id == A && f.fut_b.id == B && !f.fut_a.done && !f.fut_b.done);
}


