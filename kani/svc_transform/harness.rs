// Injected as a child module of actix-service/src/transform.rs.  Transform application (`apply`, ApplyTransform,
// ApplyTransformFuture) against the most-general leaf factory and a most-general transform: `OTr::new_transform`
// logs the service it is given and returns an oracle init future with id T (Pending / Ok(Leaf{T}) / Err, any()).
use super::*;
include!(concat!(env!("VERIF_KANI_DIR"), "/svc_oracle.rs"));

const S: usize = 0;     // the inner service factory and the service it builds
const T: usize = 1;     // the transform's init future and the service it builds

static mut TR_CALLS: u32 = 0;
static mut TR_SVC: usize = NOW;
fn tr_calls() -> u32 { unsafe { TR_CALLS } }
fn tr_svc() -> usize { unsafe { TR_SVC } }

struct OTr;
impl Transform<Leaf, u8> for OTr {
    type Response = u8;
    type Error = u8;
    type Transform = Leaf;
    type InitError = u8;
    type Future = OFactFut;
    fn new_transform(&self, service: Leaf) -> OFactFut {
        unsafe { TR_CALLS += 1; TR_SVC = service.id; }
        OFactFut { id: T, done: false }
    }
}

type TF = ApplyTransformFuture<OTr, LeafFactory, u8>;
fn store() -> Rc<(OTr, LeafFactory)> { Rc::new((OTr, LeafFactory { id: S })) }

/// new_service: inner factory asked exactly once with the supplied config; transform not applied; state A  [C11]
#[kani::proof]
fn apply_transform_new_service() {
    let fac = apply(OTr, LeafFactory { id: S });
    let cfg: u8 = kani::any();
    let f = fac.new_service(cfg);
    assert!(new_calls(S) == 1 && new_cfg(S) == cfg && fact_polls(S) == 0 && tr_calls() == 0);
    match &f.state {
        ApplyTransformFutureState::A { fut } => assert!(fut.id == S && !fut.done),
        ApplyTransformFutureState::B { .. } => kani::assert(false, "new_service must start in state A"),
    }
}

/// state A, one poll: inner init Pending -> Pending, transform not applied; Err(e) -> Err(e), transform not
/// applied; Ok(svc) -> transform applied exactly once to svc and the result is what its future answers in this
/// same poll.  Whoever answered Pending was polled with the caller's waker; nobody polled twice.   [C11, C12]
#[kani::proof]
#[kani::unwind(2)]
fn apply_transform_poll_from_state_a() {
    let mut f: TF = ApplyTransformFuture { store: store(), state: ApplyTransformFutureState::A { fut: OFactFut { id: S, done: false } } };
    let w = any_w();
    let wk = mk_waker(w);
    let mut cx = Context::from_waker(&wk);
    let p = Pin::new(&mut f).poll(&mut cx);
    let r = out_of_init(&p);
    assert!(fact_polls(S) == 1);
    match fact_out(S) {
        Out::Pending => {
            assert!(r == Out::Pending);
            assert!(tr_calls() == 0 && fact_polls(T) == 0);
            assert!(fact_waker(S) == w);
            assert!(matches!(f.state, ApplyTransformFutureState::A { .. }));
        }
        Out::Err(e) => { assert!(r == Out::Err(e)); assert!(tr_calls() == 0 && fact_polls(T) == 0); }
        Out::Ok(_) => {
            assert!(tr_calls() == 1 && tr_svc() == S);
            assert!(fact_polls(T) == 1);
            assert!(r == fact_out(T));
            if let Poll::Ready(Ok(s)) = &p { assert!(s.id == T); }
            if r == Out::Pending {
                assert!(fact_waker(T) == w);
                assert!(matches!(f.state, ApplyTransformFutureState::B { .. }));
            }
        }
        Out::None => kani::assert(false, "inner init future must be polled"),
    }
    assert!(new_calls(S) == 0);
    core::mem::forget(wk);
}

/// state B, one poll: exactly the transform future's answer; inner factory future untouched, transform not
/// applied again         [C11, C12]
#[kani::proof]
#[kani::unwind(2)]
fn apply_transform_poll_from_state_b() {
    let mut f: TF = ApplyTransformFuture { store: store(), state: ApplyTransformFutureState::B { fut: OFactFut { id: T, done: false } } };
    let w = any_w();
    let wk = mk_waker(w);
    let mut cx = Context::from_waker(&wk);
    let p = Pin::new(&mut f).poll(&mut cx);
    let r = out_of_init(&p);
    assert!(fact_polls(T) == 1);
    assert!(r == fact_out(T));
    if let Poll::Ready(Ok(s)) = &p { assert!(s.id == T); }
    assert!(fact_untouched(S) && tr_calls() == 0);
    if r == Out::Pending { assert!(fact_waker(T) == w); assert!(matches!(f.state, ApplyTransformFutureState::B { .. })); }
    core::mem::forget(wk);
}

/// Rc<T> / Arc<T> transforms are transparent     [C11]
#[kani::proof]
fn rc_arc_transform_transparent() {
    let f = Rc::new(OTr).new_transform(Leaf { id: S });
    assert!(tr_calls() == 1 && tr_svc() == S && f.id == T && !f.done && fact_polls(T) == 0);
    let g = Arc::new(OTr).new_transform(Leaf { id: 2 });
    assert!(tr_calls() == 2 && tr_svc() == 2 && g.id == T && !g.done && fact_polls(T) == 0);
}

#[kani::proof]
#[kani::unwind(6)]
fn apply_transform_run_to_completion() {
    let fac = apply(OTr, LeafFactory { id: S });
    let mut f = fac.new_service(kani::any());
    let wk = mk_waker(0);
    let mut cx = Context::from_waker(&wk);
    let mut i = 0;
    while i < 4 {
        let p = Pin::new(&mut f).poll(&mut cx);
        let r = out_of_init(&p);
        assert!(new_calls(S) == 1 && tr_calls() <= 1);
        if r != Out::Pending {
            if tr_calls() == 1 { assert!(r == fact_out(T)); assert!(fact_out(S).is_ok() && tr_svc() == S); }
            else { assert!(r == fact_out(S)); assert!(r.is_err()); }
            break;
        }
        i += 1;
    }
    core::mem::forget(wk);
}

#[kani::proof]
#[kani::unwind(2)]
fn reach() {
    let mut f: TF = ApplyTransformFuture { store: store(), state: ApplyTransformFutureState::A { fut: OFactFut { id: S, done: false } } };
    let wk = mk_waker(0);
    let mut cx = Context::from_waker(&wk);
    let r = out_of_init(&Pin::new(&mut f).poll(&mut cx));
    kani::cover!(r == Out::Pending && tr_calls() == 0);
    kani::cover!(r == Out::Pending && tr_calls() == 1);
    kani::cover!(r.is_ok());
    kani::cover!(r.is_err() && tr_calls() == 0);
    kani::cover!(r.is_err() && tr_calls() == 1);
    core::mem::forget(wk);
}/// Clone: a clone is the same combinator over the same parts — `apply_transform_new_service` holds of it verbatim   [C11]
#[kani::proof]
fn apply_transform_new_service_on_clone() {
    let orig = apply(OTr, LeafFactory { id: S });
    let fac = orig.clone();          // everything below is asked of the CLONE
    let cfg: u8 = kani::any();
    let f = fac.new_service(cfg);
    assert!(new_calls(S) == 1 && new_cfg(S) == cfg && fact_polls(S) == 0 && tr_calls() == 0);
    match &f.state {
        ApplyTransformFutureState::A { fut } => assert!(fut.id == S && !fut.done),
        ApplyTransformFutureState::B { .. } => kani::assert(false, "new_service must start in state A"),
    }
}


