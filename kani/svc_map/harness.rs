// Injected as a child module of actix-service/src/map.rs.  Per-call / per-poll contracts of the `map` combinator
// against the most-general leaves (svc_oracle.rs) and a most-general counting mapper (its result is kani::any()).
use super::*;
include!(concat!(env!("VERIF_KANI_DIR"), "/svc_oracle.rs"));

static mut M_CALLS: u32 = 0;
static mut M_ARG: u8 = 0;
static mut M_RET: u16 = 0;
/// counting mapper u8 -> u16 with an arbitrary result
fn mapper(v: u8) -> u16 {
    let r: u16 = kani::any();
    unsafe { M_CALLS += 1; M_ARG = v; M_RET = r; }
    r
}
fn m_calls() -> u32 { unsafe { M_CALLS } }
fn m_arg() -> u8 { unsafe { M_ARG } }
fn m_ret() -> u16 { unsafe { M_RET } }

/// poll_ready (forward_ready!): exactly the inner service's answer, inner polled once with the caller's waker  [C12]
#[kani::proof]
fn map_poll_ready_transparent() {
    let s = Map::<_, _, u8, u16>::new(Leaf { id: 0 }, mapper);
    let w = any_w();
    let wk = mk_waker(w);
    let mut cx = Context::from_waker(&wk);
    let r = out_of_rdy(&s.poll_ready(&mut cx));
    assert!(r == rdy_out(0));
    assert!(rdy_polls(0) == 1);
    assert!(rdy_waker(0) == w);
    assert!(m_calls() == 0 && calls(0) == 0);
    core::mem::forget(wk);
}

/// call: inner called exactly once with the request; mapper not applied yet; nothing polled   [C11]
#[kani::proof]
fn map_call() {
    let s = Map::<_, _, u8, u16>::new(Leaf { id: 0 }, mapper);
    let req: u8 = kani::any();
    let f = s.call(req);
    assert!(calls(0) == 1 && call_req(0) == req);
    assert!(m_calls() == 0 && fut_polls(0) == 0 && rdy_polls(0) == 0);
    assert!(f.fut.id == 0 && !f.fut.done);
}

/// MapFuture, one poll: Pending -> Pending (waker passed on); Err(e) -> Err(e), mapper untouched;
/// Ok(v) -> mapper applied exactly once to v, result Ok(mapper's value)     [C11, C12]
#[kani::proof]
fn map_future_poll() {
    let mut f = MapFuture::<Leaf, _, u8, u16>::new(OFut { id: 0, done: false }, mapper);
    let w = any_w();
    let wk = mk_waker(w);
    let mut cx = Context::from_waker(&wk);
    let p = Pin::new(&mut f).poll(&mut cx);
    assert!(fut_polls(0) == 1);
    match fut_out(0) {
        Out::Pending => { assert!(p.is_pending()); assert!(m_calls() == 0); assert!(fut_waker(0) == w); }
        Out::Err(e) => { assert!(p == Poll::Ready(Err(e))); assert!(m_calls() == 0); }
        Out::Ok(v) => { assert!(m_calls() == 1 && m_arg() == v); assert!(p == Poll::Ready(Ok(m_ret()))); }
        Out::None => kani::assert(false, "inner future must be polled"),
    }
    assert!(p.is_pending() == (fut_out(0) == Out::Pending));
    core::mem::forget(wk);
}

/// factory: inner factory asked exactly once with the supplied config, nothing polled     [C11]
#[kani::proof]
fn map_factory_new_service() {
    let fac = MapServiceFactory::<_, _, u8, u16>::new(LeafFactory { id: 0 }, mapper);
    let cfg: u8 = kani::any();
    let f = fac.new_service(cfg);
    assert!(new_calls(0) == 1 && new_cfg(0) == cfg && fact_polls(0) == 0 && m_calls() == 0);
    assert!(f.f.is_some() && f.fut.id == 0 && !f.fut.done);
}

/// MapServiceFuture, one poll from its only pre-completion state (`f` is Some until Ready(Ok) is returned):
/// Pending / first init error / Map around exactly the built inner service with the supplied mapper   [C11, C12]
#[kani::proof]
fn map_factory_future_poll() {
    let mut f = MapServiceFuture::<LeafFactory, _, u8, u16>::new(OFactFut { id: 0, done: false }, mapper);
    let w = any_w();
    let wk = mk_waker(w);
    let mut cx = Context::from_waker(&wk);
    let p = Pin::new(&mut f).poll(&mut cx);
    assert!(fact_polls(0) == 1);
    assert!(out_of_init(&p) == fact_out(0));
    assert!(m_calls() == 0);
    if p.is_pending() { assert!(fact_waker(0) == w); assert!(f.f.is_some()); }
    if let Poll::Ready(Ok(mut m)) = p {
        assert!(m.service.id == 0);
        let x: u8 = kani::any();
        let y = (m.f)(x);                                  // it is the supplied mapper
        assert!(m_calls() == 1 && m_arg() == x && m_ret() == y);
    }
    core::mem::forget(wk);
}

/// call() then up to 4 polls: the mapper runs exactly once iff the answer is Ok, never otherwise  [C11, C12]
#[kani::proof]
#[kani::unwind(6)]
fn map_run_to_completion() {
    let s = Map::<_, _, u8, u16>::new(Leaf { id: 0 }, mapper);
    let mut f = s.call(kani::any());
    let wk = mk_waker(0);
    let mut cx = Context::from_waker(&wk);
    let mut i = 0;
    while i < 4 {
        let p = Pin::new(&mut f).poll(&mut cx);
        match p {
            Poll::Pending => { assert!(m_calls() == 0 && fut_out(0) == Out::Pending); }
            Poll::Ready(Ok(v)) => { assert!(m_calls() == 1 && v == m_ret() && fut_out(0) == Out::Ok(m_arg())); break; }
            Poll::Ready(Err(e)) => { assert!(m_calls() == 0 && fut_out(0) == Out::Err(e)); break; }
        }
        i += 1;
    }
    assert!(calls(0) == 1);
    core::mem::forget(wk);
}

#[kani::proof]
#[kani::unwind(6)]
fn map_factory_run_to_completion() {
    let fac = MapServiceFactory::<_, _, u8, u16>::new(LeafFactory { id: 0 }, mapper);
    let mut f = fac.new_service(kani::any());
    let wk = mk_waker(0);
    let mut cx = Context::from_waker(&wk);
    let mut i = 0;
    while i < 4 {
        let p = Pin::new(&mut f).poll(&mut cx);
        assert!(out_of_init(&p) == fact_out(0));
        if p.is_ready() { break; }
        i += 1;
    }
    assert!(new_calls(0) == 1 && m_calls() == 0);
    core::mem::forget(wk);
}

/// Clone: a clone is the same combinator over the same parts — `map_call` holds of it verbatim   [C11]
#[kani::proof]
fn map_call_on_clone() {
    let orig = Map::<_, _, u8, u16>::new(Leaf { id: 0 }, mapper);
    let s = orig.clone();          // everything below is asked of the CLONE
    let req: u8 = kani::any();
    let f = s.call(req);
    assert!(calls(0) == 1 && call_req(0) == req);
    assert!(m_calls() == 0 && fut_polls(0) == 0 && rdy_polls(0) == 0);
    assert!(f.fut.id == 0 && !f.fut.done);
}

/// Clone: a clone is the same combinator over the same parts — `map_factory_new_service` holds of it verbatim   [C11]
#[kani::proof]
fn map_factory_new_service_on_clone() {
    let orig = MapServiceFactory::<_, _, u8, u16>::new(LeafFactory { id: 0 }, mapper);
    let fac = orig.clone();          // everything below is asked of the CLONE
    let cfg: u8 = kani::any();
    let f = fac.new_service(cfg);
    assert!(new_calls(0) == 1 && new_cfg(0) == cfg && fact_polls(0) == 0 && m_calls() == 0);
    assert!(f.f.is_some() && f.fut.id == 0 && !f.fut.done);
}

#[kani::proof]
fn reach() {
    let mut f = MapFuture::<Leaf, _, u8, u16>::new(OFut { id: 0, done: false }, mapper);
    let wk = mk_waker(0);
    let mut cx = Context::from_waker(&wk);
    let p = Pin::new(&mut f).poll(&mut cx);
    kani::cover!(p.is_pending());
    kani::cover!(matches!(p, Poll::Ready(Ok(_))) && m_calls() == 1);
    kani::cover!(matches!(p, Poll::Ready(Err(_))));
    let mut g = MapServiceFuture::<LeafFactory, _, u8, u16>::new(OFactFut { id: 1, done: false }, mapper);
    let q = Pin::new(&mut g).poll(&mut cx);
    kani::cover!(q.is_pending());
    kani::cover!(matches!(q, Poll::Ready(Ok(_))));
    kani::cover!(matches!(q, Poll::Ready(Err(_))));
    core::mem::forget(wk);
}
