// ---- most-general ("oracle") leaf services / futures / factories for the actix-service combinator units ----
// Every observable outcome of a leaf (readiness, response, init result) is kani::any(): a combinator proved against
// these leaves is proved for every inner service.  Each leaf logs, per leaf id, what the combinator did to it
// (how often it was polled / called, with which waker, with which request / config) and what it answered, so that a
// harness can state the reference composition over the log.
//
// Pulled into a harness (which starts with `use super::*;`) with
//     include!(concat!(env!("VERIF_KANI_DIR"), "/svc_oracle.rs"));
// Everything lives in `mod orc` so that its imports cannot clash with the ones of the source file.
pub(crate) mod orc {
    #![allow(static_mut_refs, dead_code, unused_imports)]
    // re-exported: some source files (map_config.rs, fn_service.rs, ext.rs) do not import these themselves
    pub(crate) use core::{
        future::Future,
        pin::Pin,
        task::{Context, Poll},
    };

    pub(crate) use crate::{Service, ServiceFactory};

    include!(concat!(env!("VERIF_KANI_DIR"), "/common_waker.rs"));

    /// number of distinct leaf ids
    pub(crate) const NL: usize = 3;
    /// "no waker seen"
    pub(crate) const NOW: usize = 99;

    /// what a leaf answered (None = it was not asked)
    #[derive(Clone, Copy, PartialEq, Eq, Debug)]
    pub(crate) enum Out {
        None,
        Pending,
        Ok(u8),
        Err(u8),
    }

    impl Out {
        pub(crate) fn is_err(self) -> bool { matches!(self, Out::Err(_)) }
        pub(crate) fn is_ok(self) -> bool { matches!(self, Out::Ok(_)) }
        pub(crate) fn is_ready(self) -> bool { matches!(self, Out::Ok(_) | Out::Err(_)) }
    }

    /// nondeterministic Pending / Ok(any) / Err(any)
    pub(crate) fn any_out() -> Out {
        if kani::any() {
            Out::Pending
        } else if kani::any() {
            Out::Ok(kani::any())
        } else {
            Out::Err(kani::any())
        }
    }

    /// identity of the waker in `cx` (test wakers carry their id as data pointer)
    pub(crate) fn waker_id(cx: &Context<'_>) -> usize {
        cx.waker().data() as usize
    }

    // ---- the log (one slot per leaf id) ----
    pub(crate) static mut RDY_POLLS: [u32; NL] = [0; NL];
    pub(crate) static mut RDY_WAKER: [usize; NL] = [NOW; NL];
    pub(crate) static mut RDY_OUT: [Out; NL] = [Out::None; NL];
    pub(crate) static mut CALLS: [u32; NL] = [0; NL];
    pub(crate) static mut CALL_REQ: [u8; NL] = [0; NL];
    pub(crate) static mut FUT_POLLS: [u32; NL] = [0; NL];
    pub(crate) static mut FUT_WAKER: [usize; NL] = [NOW; NL];
    pub(crate) static mut FUT_OUT: [Out; NL] = [Out::None; NL];
    pub(crate) static mut NEW_CALLS: [u32; NL] = [0; NL];
    pub(crate) static mut NEW_CFG: [u8; NL] = [0; NL];
    pub(crate) static mut FACT_POLLS: [u32; NL] = [0; NL];
    pub(crate) static mut FACT_WAKER: [usize; NL] = [NOW; NL];
    pub(crate) static mut FACT_OUT: [Out; NL] = [Out::None; NL];

    pub(crate) fn rdy_polls(i: usize) -> u32 { unsafe { RDY_POLLS[i] } }
    pub(crate) fn rdy_waker(i: usize) -> usize { unsafe { RDY_WAKER[i] } }
    pub(crate) fn rdy_out(i: usize) -> Out { unsafe { RDY_OUT[i] } }
    pub(crate) fn calls(i: usize) -> u32 { unsafe { CALLS[i] } }
    pub(crate) fn call_req(i: usize) -> u8 { unsafe { CALL_REQ[i] } }
    pub(crate) fn fut_polls(i: usize) -> u32 { unsafe { FUT_POLLS[i] } }
    pub(crate) fn fut_waker(i: usize) -> usize { unsafe { FUT_WAKER[i] } }
    pub(crate) fn fut_out(i: usize) -> Out { unsafe { FUT_OUT[i] } }
    pub(crate) fn new_calls(i: usize) -> u32 { unsafe { NEW_CALLS[i] } }
    pub(crate) fn new_cfg(i: usize) -> u8 { unsafe { NEW_CFG[i] } }
    pub(crate) fn fact_polls(i: usize) -> u32 { unsafe { FACT_POLLS[i] } }
    pub(crate) fn fact_waker(i: usize) -> usize { unsafe { FACT_WAKER[i] } }
    pub(crate) fn fact_out(i: usize) -> Out { unsafe { FACT_OUT[i] } }

    /// leaf `i` was left completely alone (as a service and through its futures)
    pub(crate) fn untouched(i: usize) -> bool {
        rdy_polls(i) == 0 && calls(i) == 0 && fut_polls(i) == 0
    }
    /// leaf factory `i` was left completely alone
    pub(crate) fn fact_untouched(i: usize) -> bool {
        new_calls(i) == 0 && fact_polls(i) == 0
    }

    // ---- leaf service ----
    #[derive(Clone, Copy, PartialEq, Eq, Debug)]
    pub(crate) struct Leaf {
        pub(crate) id: usize,
    }

    impl Service<u8> for Leaf {
        type Response = u8;
        type Error = u8;
        type Future = OFut;

        fn poll_ready(&self, cx: &mut Context<'_>) -> Poll<Result<(), u8>> {
            let o = match any_out() {
                Out::Ok(_) => Out::Ok(0),
                o => o,
            };
            unsafe {
                RDY_POLLS[self.id] += 1;
                RDY_WAKER[self.id] = waker_id(cx);
                RDY_OUT[self.id] = o;
            }
            match o {
                Out::Ok(_) => Poll::Ready(Ok(())),
                Out::Err(e) => Poll::Ready(Err(e)),
                _ => Poll::Pending,
            }
        }

        fn call(&self, req: u8) -> OFut {
            unsafe {
                CALLS[self.id] += 1;
                CALL_REQ[self.id] = req;
            }
            OFut { id: self.id, done: false }
        }
    }

    /// response future of `Leaf { id }`
    pub(crate) struct OFut {
        pub(crate) id: usize,
        pub(crate) done: bool,
    }

    impl Future for OFut {
        type Output = Result<u8, u8>;

        fn poll(mut self: Pin<&mut Self>, cx: &mut Context<'_>) -> Poll<Result<u8, u8>> {
            kani::assert(!self.done, "inner future polled after completion");
            let o = any_out();
            unsafe {
                FUT_POLLS[self.id] += 1;
                FUT_WAKER[self.id] = waker_id(cx);
                FUT_OUT[self.id] = o;
            }
            match o {
                Out::Ok(v) => { self.done = true; Poll::Ready(Ok(v)) }
                Out::Err(e) => { self.done = true; Poll::Ready(Err(e)) }
                _ => Poll::Pending,
            }
        }
    }

    // ---- leaf factories ----
    /// factory with Config = u8
    #[derive(Clone, Copy, PartialEq, Eq, Debug)]
    pub(crate) struct LeafFactory {
        pub(crate) id: usize,
    }

    impl ServiceFactory<u8> for LeafFactory {
        type Response = u8;
        type Error = u8;
        type Config = u8;
        type Service = Leaf;
        type InitError = u8;
        type Future = OFactFut;

        fn new_service(&self, cfg: u8) -> OFactFut {
            unsafe {
                NEW_CALLS[self.id] += 1;
                NEW_CFG[self.id] = cfg;
            }
            OFactFut { id: self.id, done: false }
        }
    }

    /// factory with Config = () (same log; the config slot is left alone)
    #[derive(Clone, Copy, PartialEq, Eq, Debug)]
    pub(crate) struct UnitLeafFactory {
        pub(crate) id: usize,
    }

    impl ServiceFactory<u8> for UnitLeafFactory {
        type Response = u8;
        type Error = u8;
        type Config = ();
        type Service = Leaf;
        type InitError = u8;
        type Future = OFactFut;

        fn new_service(&self, _: ()) -> OFactFut {
            unsafe {
                NEW_CALLS[self.id] += 1;
            }
            OFactFut { id: self.id, done: false }
        }
    }

    /// init future of leaf factory `id`: Pending / Ok(Leaf { id }) / Err(init error)
    pub(crate) struct OFactFut {
        pub(crate) id: usize,
        pub(crate) done: bool,
    }

    impl Future for OFactFut {
        type Output = Result<Leaf, u8>;

        fn poll(mut self: Pin<&mut Self>, cx: &mut Context<'_>) -> Poll<Result<Leaf, u8>> {
            kani::assert(!self.done, "inner factory future polled after completion");
            let o = match any_out() {
                Out::Ok(_) => Out::Ok(0),
                o => o,
            };
            unsafe {
                FACT_POLLS[self.id] += 1;
                FACT_WAKER[self.id] = waker_id(cx);
                FACT_OUT[self.id] = o;
            }
            match o {
                Out::Ok(_) => { self.done = true; Poll::Ready(Ok(Leaf { id: self.id })) }
                Out::Err(e) => { self.done = true; Poll::Ready(Err(e)) }
                _ => Poll::Pending,
            }
        }
    }

    // ---- result -> Out ----
    pub(crate) fn out_of(p: &Poll<Result<u8, u8>>) -> Out {
        match p {
            Poll::Pending => Out::Pending,
            Poll::Ready(Ok(v)) => Out::Ok(*v),
            Poll::Ready(Err(e)) => Out::Err(*e),
        }
    }
    /// readiness result -> Out (Ok carries 0)
    pub(crate) fn out_of_rdy(p: &Poll<Result<(), u8>>) -> Out {
        match p {
            Poll::Pending => Out::Pending,
            Poll::Ready(Ok(())) => Out::Ok(0),
            Poll::Ready(Err(e)) => Out::Err(*e),
        }
    }
    /// init result -> Out (Ok carries 0; the built service is inspected separately)
    pub(crate) fn out_of_init<S>(p: &Poll<Result<S, u8>>) -> Out {
        match p {
            Poll::Pending => Out::Pending,
            Poll::Ready(Ok(_)) => Out::Ok(0),
            Poll::Ready(Err(e)) => Out::Err(*e),
        }
    }

    /// a symbolic waker id
    pub(crate) fn any_w() -> usize { any_id() }
}
use self::orc::*;
