// Injected as a child module of actix-service/src/boxed.rs.  The trait-object wrappers are transparent: readiness,
// call, response future and (for factories) config, init outcome and the built service are exactly the inner ones.
use super::*;
include!(concat!(env!("VERIF_KANI_DIR"), "/svc_oracle.rs"));

/// the wrapper's readiness is the inner answer, inner polled once with the caller's waker; call hands the request
/// to the inner service exactly once; one poll of the boxed future is one poll of the inner future with the same
/// waker and the same answer         [C11, C12]
fn check_service_transparent<S>(s: &S, id: usize)
where
    S: Service<u8, Response = u8, Error = u8, Future = BoxFuture<Result<u8, u8>>> + ?Sized,
{
    let w = any_w();
    let wk = mk_waker(w);
    let mut cx = Context::from_waker(&wk);
    let r = out_of_rdy(&s.poll_ready(&mut cx));
    assert!(r == rdy_out(id));
    assert!(rdy_polls(id) == 1 && rdy_waker(id) == w && calls(id) == 0);
    let req: u8 = kani::any();
    let mut f = s.call(req);
    assert!(calls(id) == 1 && call_req(id) == req && fut_polls(id) == 0 && rdy_polls(id) == 1);
    let w2 = any_w();
    let wk2 = mk_waker(w2);
    let mut cx2 = Context::from_waker(&wk2);
    let o = out_of(&f.as_mut().poll(&mut cx2));
    assert!(o == fut_out(id));
    assert!(fut_polls(id) == 1 && fut_waker(id) == w2 && calls(id) == 1);
    core::mem::forget(wk);
    core::mem::forget(wk2);
}

#[kani::proof]
fn service_wrapper_transparent() {
    let s = ServiceWrapper::new(Leaf { id: 0 });
    check_service_transparent(&s, 0);
}

#[kani::proof]
fn box_service_transparent() {
    let s: BoxService<u8, u8, u8> = service(Leaf { id: 1 });
    check_service_transparent(&s, 1);
    assert!(untouched(0));
}

#[kani::proof]
fn rc_service_transparent() {
    let s: RcService<u8, u8, u8> = rc_service(Leaf { id: 2 });
    check_service_transparent(&s, 2);
    assert!(untouched(0));
}

/// one poll of a boxed init future right after new_service: inner factory asked once with the supplied config;
/// Pending (caller's waker) / the init error / a boxed service that is transparent over exactly the built service
fn check_factory_first_poll<SF>(fac: &SF, id: usize)
where
    SF: ServiceFactory<u8, Config = u8, Service = BoxService<u8, u8, u8>, InitError = u8, Future = BoxFuture<Result<BoxService<u8, u8, u8>, u8>>>,
{
    let cfg: u8 = kani::any();
    let mut f = fac.new_service(cfg);
    assert!(new_calls(id) == 1 && new_cfg(id) == cfg && fact_polls(id) == 0);
    let w = any_w();
    let wk = mk_waker(w);
    let mut cx = Context::from_waker(&wk);
    let p = f.as_mut().poll(&mut cx);
    assert!(fact_polls(id) == 1);
    assert!(out_of_init(&p) == fact_out(id));
    if p.is_pending() { assert!(fact_waker(id) == w); }
    if let Poll::Ready(Ok(s)) = p {
        assert!(rdy_polls(id) == 0 && calls(id) == 0);
        check_service_transparent(&s, id);
    }
    assert!(new_calls(id) == 1);
    core::mem::forget(wk);
}

#[kani::proof]
fn factory_wrapper_first_poll() {
    check_factory_first_poll(&FactoryWrapper(LeafFactory { id: 0 }), 0);
}

#[kani::proof]
fn box_service_factory_first_poll() {
    check_factory_first_poll(&factory(LeafFactory { id: 1 }), 1);
    assert!(fact_untouched(0));
}

/// the suspended state of FactoryWrapper's async block (the inner future answered Pending before): the next poll is
/// again exactly one poll of the inner init future with the new waker, same answer.  The async block holds nothing
/// but the inner future, so "suspended after one Pending" is its only suspended control state.    [C11, C12]
#[kani::proof]
fn factory_wrapper_poll_after_pending() {
    let fac = FactoryWrapper(LeafFactory { id: 0 });
    let mut f = fac.new_service(kani::any());
    let wk = mk_waker(0);
    let mut cx = Context::from_waker(&wk);
    let p1 = f.as_mut().poll(&mut cx);
    if p1.is_pending() {
        assert!(fact_out(0) == Out::Pending);
        let w = any_w();
        let wk2 = mk_waker(w);
        let mut cx2 = Context::from_waker(&wk2);
        let p2 = f.as_mut().poll(&mut cx2);
        assert!(fact_polls(0) == 2);
        assert!(out_of_init(&p2) == fact_out(0));
        assert!(fact_waker(0) == w);
        if let Poll::Ready(Ok(s)) = p2 { check_service_transparent(&s, 0); }
        core::mem::forget(wk2);
    }
    assert!(new_calls(0) == 1);
    core::mem::forget(wk);
}

#[kani::proof]
#[kani::unwind(6)]
fn box_factory_run_to_completion() {
    let fac = factory(LeafFactory { id: 0 });
    let mut f = fac.new_service(kani::any());
    let wk = mk_waker(0);
    let mut cx = Context::from_waker(&wk);
    let mut i = 0;
    while i < 4 {
        let p = f.as_mut().poll(&mut cx);
        assert!(out_of_init(&p) == fact_out(0));
        if p.is_ready() { break; }
        i += 1;
    }
    assert!(new_calls(0) == 1);
    core::mem::forget(wk);
}

#[kani::proof]
#[kani::unwind(6)]
fn box_service_run_to_completion() {
    let s = service(Leaf { id: 0 });
    let mut f = s.call(kani::any());
    let wk = mk_waker(0);
    let mut cx = Context::from_waker(&wk);
    let mut i = 0;
    while i < 4 {
        let o = out_of(&f.as_mut().poll(&mut cx));
        assert!(o == fut_out(0));
        if o != Out::Pending { break; }
        i += 1;
    }
    assert!(calls(0) == 1);
    core::mem::forget(wk);
}

#[kani::proof]
fn reach() {
    let s = service(Leaf { id: 0 });
    let wk = mk_waker(0);
    let mut cx = Context::from_waker(&wk);
    let mut f = s.call(3);
    let o = out_of(&f.as_mut().poll(&mut cx));
    kani::cover!(o == Out::Pending);
    kani::cover!(o.is_ok());
    kani::cover!(o.is_err());
    let fac = factory(LeafFactory { id: 1 });
    let mut g = fac.new_service(4);
    let q = out_of_init(&g.as_mut().poll(&mut cx));
    kani::cover!(q == Out::Pending);
    kani::cover!(q.is_ok());
    kani::cover!(q.is_err());
    core::mem::forget(wk);
}
