// Injected as a child module of bytestring/src/lib.rs — Route K, BOUNDED stand-in (never counted as proved):
// agreement with the real std `str` functions for every byte string up to the stated length.
use super::*;

fn any_bytes<const N: usize>() -> [u8; N] { kani::any() }

#[kani::proof]
#[kani::should_panic]
#[kani::unwind(6)]
fn split_at_panics_off_boundary() {
    // "é" = C3 A9: index 1 is not a char boundary
    let b = ByteString::try_from(&[0xC3u8, 0xA9][..]).unwrap();
    let _ = b.split_at(1);
}

/// comparison with str agrees with str's own comparison (length <= 2)
#[kani::proof]
#[kani::unwind(5)]
fn eq_agrees_with_str_len2() {
    let a: [u8; 2] = any_bytes();
    let c: [u8; 2] = any_bytes();
    if let (Ok(sa), Ok(sc)) = (core::str::from_utf8(&a), core::str::from_utf8(&c)) {
        let b = ByteString::try_from(&a[..]).unwrap();
        assert_eq!(b == *sc, sa == sc);
    }
}
