// Injected as a child module of actix-service/src/lib.rs.  The blanket wrapper impls (&S, &mut S, Box<S>, Rc<S>,
// RefCell<S> for Service; Rc<S>, Arc<S> for ServiceFactory; IntoService / IntoServiceFactory identities) are
// transparent: exactly one inner poll_ready / call / new_service with the same waker / request / config, same answer.
use super::*;
include!(concat!(env!("VERIF_KANI_DIR"), "/svc_oracle.rs"));

fn check_service_transparent<S>(s: &S, id: usize)
where
    S: Service<u8, Response = u8, Error = u8, Future = OFut> + ?Sized,
{
    let w = any_w();
    let wk = mk_waker(w);
    let mut cx = Context::from_waker(&wk);
    let r = out_of_rdy(&s.poll_ready(&mut cx));
    assert!(r == rdy_out(id));
    assert!(rdy_polls(id) == 1 && rdy_waker(id) == w && calls(id) == 0);
    let req: u8 = kani::any();
    let f: OFut = s.call(req);
    assert!(calls(id) == 1 && call_req(id) == req && fut_polls(id) == 0 && rdy_polls(id) == 1);
    assert!(f.id == id && !f.done);                 // the inner future itself, unpolled
    core::mem::forget(wk);
}

fn check_factory_transparent<F>(fac: &F, id: usize)
where
    F: ServiceFactory<u8, Config = u8, Future = OFactFut>,
{
    let cfg: u8 = kani::any();
    let f: OFactFut = fac.new_service(cfg);
    assert!(new_calls(id) == 1 && new_cfg(id) == cfg && fact_polls(id) == 0);
    assert!(f.id == id && !f.done);
}

#[kani::proof]
fn ref_service_transparent() {
    let l = Leaf { id: 0 };
    check_service_transparent(&&l, 0);
}

#[kani::proof]
fn mut_ref_service_transparent() {
    let mut l = Leaf { id: 1 };
    let m = &mut l;
    check_service_transparent(&m, 1);
}

#[kani::proof]
fn box_service_transparent() {
    let b = Box::new(Leaf { id: 2 });
    check_service_transparent(&b, 2);
}

#[kani::proof]
fn rc_service_transparent() {
    let r = Rc::new(Leaf { id: 0 });
    check_service_transparent(&r, 0);
    let r2 = r.clone();                                 // a clone shares the one inner service
    let f = r2.call(9);
    assert!(calls(0) == 2 && call_req(0) == 9 && f.id == 0);
}

/// RefCell<S>: transparent, and the borrow is released again (a second use does not panic, borrow_mut succeeds)
#[kani::proof]
fn refcell_service_transparent() {
    let c = RefCell::new(Leaf { id: 1 });
    check_service_transparent(&c, 1);
    assert!(c.try_borrow_mut().is_ok());
}

/// RefCell<S> needs only SHARED access to the cell, like every other `&self` wrapper: with a shared borrow outstanding
/// (a re-entrant inner service, or a combinator that also holds the cell) the wrapper is still transparent — it does
/// not add a BorrowMutError panic that `&S` / `Rc<S>` would not have.     [C11]
#[kani::proof]
fn refcell_service_transparent_under_shared_borrow() {
    let c = RefCell::new(Leaf { id: 2 });
    let held = c.borrow();                              // what a re-entrant call from inside S::call would hold
    check_service_transparent(&c, 2);
    assert!(held.id == 2);
    drop(held);
    assert!(c.try_borrow_mut().is_ok());
}

#[kani::proof]
fn rc_arc_factory_transparent() {
    check_factory_transparent(&Rc::new(LeafFactory { id: 0 }), 0);
    check_factory_transparent(&Arc::new(LeafFactory { id: 1 }), 1);
    assert!(new_calls(0) == 1);
}

/// IntoService / IntoServiceFactory for the type itself and into_service(): identity, nothing is touched
#[kani::proof]
fn into_service_identity() {
    let s: Leaf = into_service::<_, Leaf, u8>(Leaf { id: 2 });
    assert!(s.id == 2 && untouched(2));
    let t: Leaf = IntoService::<Leaf, u8>::into_service(Leaf { id: 1 });
    assert!(t.id == 1 && untouched(1));
    let f: LeafFactory = IntoServiceFactory::<LeafFactory, u8>::into_factory(LeafFactory { id: 0 });
    assert!(f.id == 0 && fact_untouched(0));
}

#[kani::proof]
fn reach() {
    let r = Rc::new(RefCell::new(Box::new(Leaf { id: 0 })));       // wrappers compose
    let wk = mk_waker(0);
    let mut cx = Context::from_waker(&wk);
    let q = out_of_rdy(&r.poll_ready(&mut cx));
    kani::cover!(q == Out::Pending && rdy_out(0) == Out::Pending);
    kani::cover!(q.is_ok() && rdy_out(0).is_ok());
    kani::cover!(q.is_err() && rdy_out(0).is_err());
    core::mem::forget(wk);
}
