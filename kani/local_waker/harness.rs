// Injected as a child module of local-waker/src/lib.rs — Route K, complete: the abstract state of a LocalWaker is
// Option<waker identity>; every harness starts from an arbitrary such state (empty, or holding waker `a`).
use super::*;
include!(concat!(env!("VERIF_KANI_DIR"), "/common_waker.rs"));

fn any_local_waker() -> (LocalWaker, Option<usize>) {
    let lw = LocalWaker::new();
    if kani::any() {
        let a = any_id();
        let w = mk_waker(a);
        lw.register(&w);
        core::mem::forget(w);
        (lw, Some(a))
    } else {
        (lw, None)
    }
}

/// register: reports whether a waker was registered before, and from now on the argument is the one that is woken [C17]
#[kani::proof]
fn register_replaces_and_reports() {
    let (lw, st) = any_local_waker();
    let b = any_id();
    let wb = mk_waker(b);
    let was = lw.register(&wb);
    assert_eq!(was, st.is_some());
    let before = [woken(0), woken(1), woken(2)];
    lw.wake();
    // the most recently registered waker is woken exactly once, nobody else
    assert_eq!(woken(b), before[b] + 1);
    let o1 = (b + 1) % 3; let o2 = (b + 2) % 3;
    assert_eq!(woken(o1), before[o1]);
    assert_eq!(woken(o2), before[o2]);
    core::mem::forget(wb);
}

/// wake: wakes the registered waker once and empties the cell (a second wake is a no-op)   [C17]
#[kani::proof]
fn wake_once_then_empty() {
    let (lw, st) = any_local_waker();
    let before = [woken(0), woken(1), woken(2)];
    lw.wake();
    match st {
        Some(a) => assert_eq!(woken(a), before[a] + 1),
        None => {}
    }
    let mid = [woken(0), woken(1), woken(2)];
    assert_eq!(mid[0] + mid[1] + mid[2], before[0] + before[1] + before[2] + if st.is_some() { 1 } else { 0 });
    lw.wake();
    assert!(woken(0) == mid[0] && woken(1) == mid[1] && woken(2) == mid[2]);
    // and `register` now reports "nothing was registered"
    let w = mk_waker(0);
    assert!(!lw.register(&w));
    core::mem::forget(w);
}

/// take: hands out the registered waker without waking it, and empties the cell   [C17]
#[kani::proof]
fn take_returns_registered() {
    let (lw, st) = any_local_waker();
    let before = [woken(0), woken(1), woken(2)];
    let t = lw.take();
    assert_eq!(t.is_some(), st.is_some());
    assert!(woken(0) == before[0] && woken(1) == before[1] && woken(2) == before[2]);
    if let Some(w) = t {
        w.wake();
        let a = st.unwrap();
        assert_eq!(woken(a), before[a] + 1);
    }
    assert!(lw.take().is_none());
}

/// A sink that fails once its room is used up (a fixed line buffer, a log sink that went away).
struct SmallSink { room: usize }
impl core::fmt::Write for SmallSink {
    fn write_str(&mut self, s: &str) -> core::fmt::Result {
        if s.len() > self.room { Err(core::fmt::Error) } else { self.room -= s.len(); Ok(()) }
    }
}

/// Debug-formatting a LocalWaker — into a sink that may fail at any point — leaves the registration alone: the
/// registered task is still the one woken, exactly once   [C17]
#[kani::proof]
#[kani::unwind(6)]
fn debug_formatting_keeps_the_registration() {
    use core::fmt::Write as _;
    let (lw, st) = any_local_waker();
    let room: usize = kani::any();
    kani::assume(room <= 24);
    let mut sink = SmallSink { room };
    let _ = write!(sink, "{:?}", lw);
    let before = [woken(0), woken(1), woken(2)];
    lw.wake();
    match st {
        Some(a) => assert_eq!(woken(a), before[a] + 1),
        None => assert!(woken(0) == before[0] && woken(1) == before[1] && woken(2) == before[2]),
    }
}

#[kani::proof]
fn reach() {
    let (lw, st) = any_local_waker();
    kani::cover!(st.is_some());
    kani::cover!(st.is_none());
    let w = mk_waker(1);
    let was = lw.register(&w);
    kani::cover!(was);
    kani::cover!(!was);
    core::mem::forget(w);
}
