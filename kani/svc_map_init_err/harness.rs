// Injected as a child module of actix-service/src/map_init_err.rs.  Contracts of the `map_init_err` factory
// combinator against the most-general leaf factory and a most-general counting init-error mapper (u8 -> u16).
use super::*;
include!(concat!(env!("VERIF_KANI_DIR"), "/svc_oracle.rs"));

static mut M_CALLS: u32 = 0;
static mut M_ARG: u8 = 0;
static mut M_RET: u16 = 0;
fn mapper(e: u8) -> u16 {
    let r: u16 = kani::any();
    unsafe { M_CALLS += 1; M_ARG = e; M_RET = r; }
    r
}
fn m_calls() -> u32 { unsafe { M_CALLS } }
fn m_arg() -> u8 { unsafe { M_ARG } }
fn m_ret() -> u16 { unsafe { M_RET } }

/// new_service: inner factory asked exactly once with the supplied config; nothing polled, mapper untouched  [C11]
#[kani::proof]
fn map_init_err_new_service() {
    let fac = MapInitErr::<_, _, u8, u16>::new(LeafFactory { id: 0 }, mapper);
    let cfg: u8 = kani::any();
    let f = fac.new_service(cfg);
    assert!(new_calls(0) == 1 && new_cfg(0) == cfg && fact_polls(0) == 0 && m_calls() == 0);
    assert!(f.fut.id == 0 && !f.fut.done);
}

/// MapInitErrFuture, one poll: Pending -> Pending (caller's waker); Ok(svc) -> exactly that service, mapper
/// untouched; Err(e) -> mapper applied exactly once to e, result Err(mapper's value)     [C11, C12]
#[kani::proof]
fn map_init_err_future_poll() {
    let mut f = MapInitErrFuture::<LeafFactory, _, u8, u16>::new(OFactFut { id: 0, done: false }, mapper);
    let w = any_w();
    let wk = mk_waker(w);
    let mut cx = Context::from_waker(&wk);
    let p = Pin::new(&mut f).poll(&mut cx);
    assert!(fact_polls(0) == 1);
    match fact_out(0) {
        Out::Pending => { assert!(p.is_pending()); assert!(m_calls() == 0); assert!(fact_waker(0) == w); }
        Out::Ok(_) => { assert!(p == Poll::Ready(Ok(Leaf { id: 0 }))); assert!(m_calls() == 0); }
        Out::Err(e) => { assert!(m_calls() == 1 && m_arg() == e); assert!(p == Poll::Ready(Err(m_ret()))); }
        Out::None => kani::assert(false, "inner factory future must be polled"),
    }
    core::mem::forget(wk);
}

#[kani::proof]
#[kani::unwind(6)]
fn map_init_err_run_to_completion() {
    let fac = MapInitErr::<_, _, u8, u16>::new(LeafFactory { id: 0 }, mapper);
    let mut f = fac.new_service(kani::any());
    let wk = mk_waker(0);
    let mut cx = Context::from_waker(&wk);
    let mut i = 0;
    while i < 4 {
        let p = Pin::new(&mut f).poll(&mut cx);
        match p {
            Poll::Pending => assert!(m_calls() == 0 && fact_out(0) == Out::Pending),
            Poll::Ready(Ok(s)) => { assert!(m_calls() == 0 && s.id == 0 && fact_out(0).is_ok()); break; }
            Poll::Ready(Err(e)) => { assert!(m_calls() == 1 && e == m_ret() && fact_out(0) == Out::Err(m_arg())); break; }
        }
        i += 1;
    }
    assert!(new_calls(0) == 1);
    core::mem::forget(wk);
}

/// Clone: a clone is the same combinator over the same parts — `map_init_err_new_service` holds of it verbatim   [C11]
#[kani::proof]
fn map_init_err_new_service_on_clone() {
    let orig = MapInitErr::<_, _, u8, u16>::new(LeafFactory { id: 0 }, mapper);
    let fac = orig.clone();          // everything below is asked of the CLONE
    let cfg: u8 = kani::any();
    let f = fac.new_service(cfg);
    assert!(new_calls(0) == 1 && new_cfg(0) == cfg && fact_polls(0) == 0 && m_calls() == 0);
    assert!(f.fut.id == 0 && !f.fut.done);
}

#[kani::proof]
fn reach() {
    let mut f = MapInitErrFuture::<LeafFactory, _, u8, u16>::new(OFactFut { id: 0, done: false }, mapper);
    let wk = mk_waker(0);
    let mut cx = Context::from_waker(&wk);
    let p = Pin::new(&mut f).poll(&mut cx);
    kani::cover!(p.is_pending());
    kani::cover!(matches!(p, Poll::Ready(Ok(_))));
    kani::cover!(matches!(p, Poll::Ready(Err(_))) && m_calls() == 1);
    core::mem::forget(wk);
}
