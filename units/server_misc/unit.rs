// Unit `server_misc`: actix-server — the listener dispatch of socket.rs (TCP / Unix-domain), the builder's
// token-factory-listener pairing, and the signal-to-command mapping (C01, C05, C06).
use vstd::prelude::*;
verus! {

//@include ../common/core.rs

// ===================================================================== mio / std stand-ins (TRUSTED BASE)
#[verifier::external_body]
pub struct Registry { _p: () }
#[derive(Clone, Copy)]
pub struct Token(pub usize);
#[derive(Clone, Copy)]
pub struct Interest { pub p: u8 }
#[verifier::external_body]
pub struct SockAddr { _p: () }
#[verifier::external_body]
pub struct UnixAddr { _p: () }
#[verifier::external_body]
pub struct Path { _p: () }
#[verifier::external_body]
pub struct MioTcpStream { _p: () }
#[verifier::external_body]
pub struct MioUnixStream { _p: () }

/// mio::net::TcpListener / UnixListener: `registered()` / `reg_token()` ghost state of the epoll registration,
/// `accepts()` the number of accept calls (receiver strengthening on `accept`: the caller reaches the listener through
/// `&mut ServerSocketInfo`; here the enum method takes `&self`, so accept is left uncounted in this unit)
#[verifier::external_body]
pub struct MioTcpListener { _p: () }
#[verifier::external_body]
pub struct MioUnixListener { _p: () }

impl MioTcpListener {
    pub uninterp spec fn registered(&self) -> bool;
    pub uninterp spec fn reg_token(&self) -> usize;
    #[verifier::external_body]
    pub fn register(&mut self, registry: &Registry, token: Token, interests: Interest) -> (r: io::Result<()>)
        ensures r is Ok ==> final(self).registered() && final(self).reg_token() == token.0,
                r is Err ==> final(self).registered() == old(self).registered() && final(self).reg_token() == old(self).reg_token(),
    { unimplemented!() }
    #[verifier::external_body]
    pub fn deregister(&mut self, registry: &Registry) -> (r: io::Result<()>)
        ensures r is Ok ==> !final(self).registered(),
                r is Err ==> final(self).registered() == old(self).registered(),
    { unimplemented!() }
    #[verifier::external_body]
    pub fn accept(&self) -> (r: io::Result<(MioTcpStream, SockAddr)>) { unimplemented!() }
}
impl MioUnixListener {
    pub uninterp spec fn registered(&self) -> bool;
    pub uninterp spec fn reg_token(&self) -> usize;
    #[verifier::external_body]
    pub fn register(&mut self, registry: &Registry, token: Token, interests: Interest) -> (r: io::Result<()>)
        ensures r is Ok ==> final(self).registered() && final(self).reg_token() == token.0,
                r is Err ==> final(self).registered() == old(self).registered() && final(self).reg_token() == old(self).reg_token(),
    { unimplemented!() }
    #[verifier::external_body]
    pub fn deregister(&mut self, registry: &Registry) -> (r: io::Result<()>)
        ensures r is Ok ==> !final(self).registered(),
                r is Err ==> final(self).registered() == old(self).registered(),
    { unimplemented!() }
    #[verifier::external_body]
    pub fn accept(&self) -> (r: io::Result<(MioUnixStream, UnixAddr)>) { unimplemented!() }
    #[verifier::external_body]
    pub fn local_addr(&self) -> (r: io::Result<UnixAddr>) { unimplemented!() }
}
impl UnixAddr {
    #[verifier::external_body]
    pub fn as_pathname(&self) -> (r: Option<&Path>) { unimplemented!() }
}
pub mod std { pub mod fs {
    /// unlinks the socket file (the only side effect of the UDS deregister arm besides the deregistration)
    #[verifier::external_body]
    pub fn remove_file(p: &super::super::Path) -> (r: super::super::io::Result<()>) { unimplemented!() }
} }

// ===================================================================== socket.rs
//@extract_type file=actix-server/src/socket.rs item="enum MioListener"
//@extract_type file=actix-server/src/socket.rs item="enum MioStream"

impl MioListener {
    pub open spec fn registered(&self) -> bool {
        match *self { MioListener::Tcp(l) => l.registered(), MioListener::Uds(l) => l.registered() }
    }
    pub open spec fn reg_token(&self) -> usize {
        match *self { MioListener::Tcp(l) => l.reg_token(), MioListener::Uds(l) => l.reg_token() }
    }

//@extract file=actix-server/src/socket.rs item="impl MioListener / fn accept" ret=r props=C01,C05 closure_ty="MioStream" name=socket::accept
//@spec
    ensures
        // a TCP listener yields TCP streams, a Unix-domain listener Unix-domain streams   [C01,C05]
        r matches Ok(s) ==> (self is Tcp <==> s is Tcp),
//@end

//@extract file=actix-server/src/socket.rs item="impl Source for MioListener / fn register" ret=r props=C05 name=socket::register
//@spec
    ensures
        // both kinds of listener are registered under the given token   [C05]
        r is Ok ==> final(self).registered() && final(self).reg_token() == token.0,
        r is Err ==> final(self).registered() == old(self).registered(),
        (final(self) is Tcp) == (old(self) is Tcp),
//@end

//@extract file=actix-server/src/socket.rs item="impl Source for MioListener / fn deregister" ret=r props=C05 name=socket::deregister
//@spec
    ensures
        r is Ok ==> !final(self).registered(),   // [C05] both kinds of listener are really deregistered
        r is Err ==> final(self).registered() == old(self).registered(),
        (final(self) is Tcp) == (old(self) is Tcp),
//@end
}

// ===================================================================== server.rs: signals -> commands
#[derive(Clone, Copy)]
//@extract_type file=actix-server/src/signals.rs item="enum SignalKind"
#[verifier::external_body]
pub struct OneshotSender { _p: () }
/// server.rs ServerCommand (its payload types are tokio channel ends: re-declared with stand-ins; variant and field
/// names are checked against the real enum on every run)
//@check_enum file=actix-server/src/server.rs name=ServerCommand variants=WorkerFaulted,Pause,Resume,Stop
pub enum ServerCommand {
    WorkerFaulted(usize),
    Pause(OneshotSender),
    Resume(OneshotSender),
    Stop { graceful: bool, completion: Option<OneshotSender>, force_system_stop: bool },
}

//@extract file=actix-server/src/server.rs item="impl ServerInner / fn map_signal" ret=r props=C06 name=server::map_signal
//@spec
    ensures
        // SIGTERM is a graceful stop, SIGINT and SIGQUIT are forced; all of them also stop the System   [C06]
        r matches ServerCommand::Stop { graceful, completion, force_system_stop }
            && graceful == (signal is Term) && completion is None && force_system_stop,
//@end

} // verus!
fn main() {}
