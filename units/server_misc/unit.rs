// Unit `server_misc`: actix-server — the listener dispatch of socket.rs (TCP / Unix-domain), the builder's
// token-factory-listener pairing, and the signal-to-command mapping (C01, C05, C06).
use vstd::prelude::*;
use core::task::Poll;
verus! {

//@include ../common/core.rs
//@include ../common/poll.rs

// ===================================================================== mio / std stand-ins (TRUSTED BASE)
#[verifier::external_body]
pub struct Registry { _p: () }
#[derive(Clone, Copy)]
pub struct Token(pub usize);
#[derive(Clone, Copy)]
pub struct Interest { pub p: u8 }
#[verifier::external_body]
pub struct SockAddr { _p: () }
#[verifier::external_body]
pub struct UnixAddr { _p: () }
#[verifier::external_body]
pub struct Path { _p: () }
#[verifier::external_body]
pub struct MioTcpStream { _p: () }
#[verifier::external_body]
pub struct MioUnixStream { _p: () }

/// mio::net::TcpListener / UnixListener: `registered()` / `reg_token()` ghost state of the epoll registration,
/// `accepts()` the number of accept calls (receiver strengthening on `accept`: the caller reaches the listener through
/// `&mut ServerSocketInfo`; here the enum method takes `&self`, so accept is left uncounted in this unit)
#[verifier::external_body]
pub struct MioTcpListener { _p: () }
#[verifier::external_body]
pub struct MioUnixListener { _p: () }

impl MioTcpListener {
    pub uninterp spec fn registered(&self) -> bool;
    pub uninterp spec fn reg_token(&self) -> usize;
    #[verifier::external_body]
    pub fn register(&mut self, registry: &Registry, token: Token, interests: Interest) -> (r: io::Result<()>)
        ensures r is Ok ==> final(self).registered() && final(self).reg_token() == token.0,
                r is Err ==> final(self).registered() == old(self).registered() && final(self).reg_token() == old(self).reg_token(),
    { unimplemented!() }
    #[verifier::external_body]
    pub fn reregister(&mut self, registry: &Registry, token: Token, interests: Interest) -> (r: io::Result<()>)
        ensures r is Ok ==> final(self).registered() && final(self).reg_token() == token.0,
                r is Err ==> final(self).registered() == old(self).registered() && final(self).reg_token() == old(self).reg_token(),
    { unimplemented!() }
    #[verifier::external_body]
    pub fn deregister(&mut self, registry: &Registry) -> (r: io::Result<()>)
        ensures r is Ok ==> !final(self).registered(),
                r is Err ==> final(self).registered() == old(self).registered(),
    { unimplemented!() }
    #[verifier::external_body]
    pub fn accept(&self) -> (r: io::Result<(MioTcpStream, SockAddr)>) { unimplemented!() }
}
impl MioUnixListener {
    pub uninterp spec fn registered(&self) -> bool;
    pub uninterp spec fn reg_token(&self) -> usize;
    #[verifier::external_body]
    pub fn register(&mut self, registry: &Registry, token: Token, interests: Interest) -> (r: io::Result<()>)
        ensures r is Ok ==> final(self).registered() && final(self).reg_token() == token.0,
                r is Err ==> final(self).registered() == old(self).registered() && final(self).reg_token() == old(self).reg_token(),
    { unimplemented!() }
    #[verifier::external_body]
    pub fn reregister(&mut self, registry: &Registry, token: Token, interests: Interest) -> (r: io::Result<()>)
        ensures r is Ok ==> final(self).registered() && final(self).reg_token() == token.0,
                r is Err ==> final(self).registered() == old(self).registered() && final(self).reg_token() == old(self).reg_token(),
    { unimplemented!() }
    #[verifier::external_body]
    pub fn deregister(&mut self, registry: &Registry) -> (r: io::Result<()>)
        ensures r is Ok ==> !final(self).registered(),
                r is Err ==> final(self).registered() == old(self).registered(),
    { unimplemented!() }
    #[verifier::external_body]
    pub fn accept(&self) -> (r: io::Result<(MioUnixStream, UnixAddr)>) { unimplemented!() }
    #[verifier::external_body]
    pub fn local_addr(&self) -> (r: io::Result<UnixAddr>) { unimplemented!() }
}
impl UnixAddr {
    #[verifier::external_body]
    pub fn as_pathname(&self) -> (r: Option<&Path>) { unimplemented!() }
}
#[verifier::external_body]
pub struct NonZeroUsize { _p: () }
impl NonZeroUsize { #[verifier::external_body] pub fn get(self) -> (r: usize) ensures r >= 1 { unimplemented!() } }
pub assume_specification<T, E, U, F: FnOnce(T) -> U>[ Result::<T, E>::map_or ](x: Result<T, E>, default: U, f: F) -> (r: U)
    requires x matches Ok(t) ==> f.requires((t,)),
    ensures x is Err ==> r == default, x matches Ok(t) ==> f.ensures((t,), r);
pub mod std { pub mod thread {
    use vstd::prelude::*;
    #[verifier::external_body]
    pub fn available_parallelism() -> (r: Result<crate::NonZeroUsize, crate::IoError>) { unimplemented!() }
}
pub mod net {
    #[verifier::external_body] pub struct Ipv4Addr { _p: () }
    impl Ipv4Addr { #[verifier::external_body] pub fn new(a: u8, b: u8, c: u8, d: u8) -> (r: Ipv4Addr) { unimplemented!() } }
    pub enum IpAddr { V4(Ipv4Addr) }
}
pub mod fs {
    /// unlinks the socket file (the only side effect of the UDS deregister arm besides the deregistration)
    #[verifier::external_body]
    pub fn remove_file(p: &super::super::Path) -> (r: super::super::io::Result<()>) { unimplemented!() }
} }

pub mod mio { pub mod net { pub use super::super::MioTcpStream as TcpStream; pub use super::super::MioUnixStream as UnixStream; } }

// ===================================================================== socket.rs
//@extract_type file=actix-server/src/socket.rs item="enum MioListener"
//@extract_type file=actix-server/src/socket.rs item="enum MioStream"

impl MioListener {
    pub open spec fn registered(&self) -> bool {
        match *self { MioListener::Tcp(l) => l.registered(), MioListener::Uds(l) => l.registered() }
    }
    pub open spec fn reg_token(&self) -> usize {
        match *self { MioListener::Tcp(l) => l.reg_token(), MioListener::Uds(l) => l.reg_token() }
    }

//@extract file=actix-server/src/socket.rs item="impl MioListener / fn accept" ret=r props=C01,C05 closure_ty="MioStream" name=socket::accept
//@spec
    ensures
        // a TCP listener yields TCP streams, a Unix-domain listener Unix-domain streams   [C01,C05]
        r matches Ok(s) ==> (self is Tcp <==> s is Tcp),
//@end

//@extract file=actix-server/src/socket.rs item="impl Source for MioListener / fn register" ret=r props=C05 name=socket::register
//@spec
    ensures
        // both kinds of listener are registered under the given token   [C05]
        r is Ok ==> final(self).registered() && final(self).reg_token() == token.0,
        r is Err ==> final(self).registered() == old(self).registered(),
        (*final(self) is Tcp) == (*old(self) is Tcp),
//@end

//@extract file=actix-server/src/socket.rs item="impl Source for MioListener / fn reregister" ret=r props=C05 name=socket::reregister
//@spec
    ensures
        r is Ok ==> final(self).registered() && final(self).reg_token() == token.0,   // [C05]
        r is Err ==> final(self).registered() == old(self).registered(),
        (*final(self) is Tcp) == (*old(self) is Tcp),
//@end

//@extract file=actix-server/src/socket.rs item="impl Source for MioListener / fn deregister" ret=r props=C05 name=socket::deregister
//@spec
    ensures
        r is Ok ==> !final(self).registered(),   // [C05] both kinds of listener are really deregistered
        r is Err ==> final(self).registered() == old(self).registered(),
        (*final(self) is Tcp) == (*old(self) is Tcp),
//@end
}

// ===================================================================== socket.rs: mio stream -> tokio stream (C01)
/// the OS file descriptor behind a stream (ghost identity); the in-place conversions keep it
impl MioTcpStream { pub uninterp spec fn fd(&self) -> int; }
impl MioUnixStream { pub uninterp spec fn fd(&self) -> int; }
pub struct RawFd { pub fd: Ghost<int> }
pub struct IntoRawFd { }
impl IntoRawFd {
    #[verifier::external_body] pub fn into_raw_fd<S: HasFd>(s: S) -> (r: RawFd) ensures r.fd@ == s.spec_fd() { unimplemented!() }
}
pub trait HasFd { spec fn spec_fd(&self) -> int; }
impl HasFd for MioTcpStream { open spec fn spec_fd(&self) -> int { self.fd() } }
impl HasFd for MioUnixStream { open spec fn spec_fd(&self) -> int { self.fd() } }
#[verifier::external_body]
pub struct StdStream { _p: () }
impl StdStream { pub uninterp spec fn fd(&self) -> int; }
pub struct FromRawFd { }
impl FromRawFd {
    /// unsafe in std (the fd must be open and owned): the fd just taken out of the mio stream is
    #[verifier::external_body] pub fn from_raw_fd(r: RawFd) -> (s: StdStream) ensures s.fd() == r.fd@ { unimplemented!() }
}
#[verifier::external_body]
pub struct TcpStream { _p: () }
#[verifier::external_body]
pub struct UnixStream { _p: () }
impl TcpStream {
    pub uninterp spec fn fd(&self) -> int;
    #[verifier::external_body] pub fn from_std(s: StdStream) -> (r: io::Result<TcpStream>) ensures r matches Ok(t) ==> t.fd() == s.fd() { unimplemented!() }
}
impl UnixStream {
    pub uninterp spec fn fd(&self) -> int;
    #[verifier::external_body] pub fn from_std(s: StdStream) -> (r: io::Result<UnixStream>) ensures r matches Ok(t) ==> t.fd() == s.fd() { unimplemented!() }
}
impl TcpStream {
//@extract file=actix-server/src/socket.rs item="mod unix_impl / impl FromStream for TcpStream / fn from_mio" ret=r props=C01 name=socket::from_mio_tcp intended_panics
//@spec
    requires sock is Tcp,     // a Unix-domain stream here is "a bug in server impl" (the code panics): the builder pairs TCP listeners with TcpStream factories
    ensures r matches Ok(t) ==> (sock matches MioStream::Tcp(m) && t.fd() == m.fd()),   // [C01] the service gets THE accepted connection (in-place conversion)
//@end
}
impl UnixStream {
//@extract file=actix-server/src/socket.rs item="mod unix_impl / impl FromStream for UnixStream / fn from_mio" ret=r props=C01 name=socket::from_mio_uds intended_panics
//@spec
    requires sock is Uds,
    ensures r matches Ok(t) ==> (sock matches MioStream::Uds(m) && t.fd() == m.fd()),   // [C01]
//@end
}

// ===================================================================== server.rs: signals -> commands
#[derive(Clone, Copy, PartialEq, Eq, Structural)]
//@extract_type file=actix-server/src/signals.rs item="enum SignalKind"
/// actix_rt::signal::unix::Signal (tokio): a stream of deliveries of one OS signal.  PROPHECY name `ready_now()`: whether
/// a delivery is pending at the (one) poll made during the verified call.
#[verifier::external_body]
pub struct UnixSignal { _p: () }
impl UnixSignal {
    pub uninterp spec fn ready_now(&self) -> bool;
    #[verifier::external_body]
    pub fn poll_recv(&mut self, cx: &mut Context<'_>) -> (r: Poll<Option<()>>)
        ensures (r is Ready) == old(self).ready_now(), final(self).ready_now() == old(self).ready_now(),
    { unimplemented!() }
}
pub assume_specification<T>[ Poll::<T>::is_ready ](p: &Poll<T>) -> (r: bool)
    ensures r == (p is Ready);
pub assume_specification<T>[ Poll::<T>::is_pending ](p: &Poll<T>) -> (r: bool)
    ensures r == (p is Pending);
/// signals.rs Signals (Linux form: one stream per handled signal kind)
pub struct Signals { pub signals: Vec<(SignalKind, UnixSignal)> }
impl Signals {
//@extract file=actix-server/src/signals.rs item="impl Future for Signals / fn poll" ret=r props=C06 name=signals::poll
//@spec
    ensures
        // the future resolves with the KIND paired with the first stream that has a delivery pending, and stays
        // Pending when none has   [C06]
        r is Pending <==> forall|k: int| 0 <= k < old(self).signals@.len() ==> !(#[trigger] old(self).signals@[k]).1.ready_now(),
        r matches Poll::Ready(kind) ==> exists|k: int| 0 <= k < old(self).signals@.len() && (#[trigger] old(self).signals@[k]).1.ready_now()
            && old(self).signals@[k].0 == kind && forall|j: int| 0 <= j < k ==> !(#[trigger] old(self).signals@[j]).1.ready_now(),
//@loop 1
        invariant
            r9_n <= self.signals@.len(), self.signals@.len() == old(self).signals@.len(),
            forall|k: int| 0 <= k < self.signals@.len() ==> (#[trigger] self.signals@[k]).0 == old(self).signals@[k].0
                && self.signals@[k].1.ready_now() == old(self).signals@[k].1.ready_now(),
            forall|j: int| 0 <= j < r9_n ==> !(#[trigger] old(self).signals@[j]).1.ready_now(),
        decreases self.signals@.len() - r9_n,
//@end
}
#[verifier::external_body]
pub struct OneshotSender { _p: () }
/// server.rs ServerCommand (its payload types are tokio channel ends: re-declared with stand-ins; variant and field
/// names are checked against the real enum on every run)
//@check_enum file=actix-server/src/server.rs name=ServerCommand variants=WorkerFaulted,Pause,Resume,Stop
pub enum ServerCommand {
    WorkerFaulted(usize),
    Pause(OneshotSender),
    Resume(OneshotSender),
    Stop { graceful: bool, completion: Option<OneshotSender>, force_system_stop: bool },
}

//@extract file=actix-server/src/server.rs item="impl ServerInner / fn map_signal" ret=r props=C06 name=server::map_signal
//@spec
    ensures
        // SIGTERM is a graceful stop, SIGINT and SIGQUIT are forced; all of them also stop the System   [C06]
        r matches ServerCommand::Stop { graceful, completion, force_system_stop }
            && graceful == (signal is Term) && completion is None && force_system_stop,
//@end


// ===================================================================== builder.rs: token <-> factory <-> listener pairing (C01)
#[verifier::external_body]
pub struct String { _p: () }
#[verifier::external_body]
pub struct Str { _p: () }
impl Str { #[verifier::external_body] pub fn to_string(&self) -> (r: String) { unimplemented!() } }
/// `N: AsRef<str>` argument
#[verifier::external_body]
pub struct NameLike { _p: () }
impl NameLike { #[verifier::external_body] pub fn as_ref(&self) -> (r: &Str) { unimplemented!() } }
/// `F: ServerServiceFactory<..>` argument (Clone)
#[verifier::external_body]
pub struct UserFactory { _p: () }
impl UserFactory { #[verifier::external_body] pub fn clone(&self) -> (r: UserFactory) { unimplemented!() } }
#[verifier::external_body]
pub struct StdSocketAddr { _p: () }
#[verifier::external_body]
pub struct AddrsLike { _p: () }
//@extract_type file=actix-server/src/builder.rs item="enum MpTcp"
#[verifier::external_body]
pub struct StdTcpListener { _p: () }
/// `nonblocking()`: the mode the OS socket is in once the builder is done with it (a PROPHECY name: `set_nonblocking`
/// acts through `&self`).  The accept loop drains a listener until WouldBlock — a blocking listener would block the
/// accept thread, and with it every other listener and every wake-up.
pub open spec fn listener_nonblocking(l: &MioListener) -> bool {
    match *l { MioListener::Tcp(x) => x.nonblocking(), MioListener::Uds(x) => x.nonblocking() }
}
impl MioTcpListener {
    pub uninterp spec fn nonblocking(&self) -> bool;
    /// mio::net::TcpListener::from_std: wraps the OS socket as it is (its blocking mode included)
    #[verifier::external_body]
    pub fn from_std(l: StdTcpListener) -> (r: MioTcpListener)
        ensures r.nonblocking() == l.nonblocking(), r.bound_to() == l.bound_to(), r.backlog() == l.backlog(), r.listening_stream() == l.listening_stream(),
    { unimplemented!() }
}
impl MioUnixListener {
    pub uninterp spec fn nonblocking(&self) -> bool;
    #[verifier::external_body]
    pub fn from_std(l: StdUnixListener) -> (r: MioUnixListener) ensures r.nonblocking() == l.nonblocking() { unimplemented!() }
}
impl StdTcpListener {
    pub uninterp spec fn nonblocking(&self) -> bool;
    #[verifier::external_body] pub fn set_nonblocking(&self, b: bool) -> (r: io::Result<()>) ensures r is Ok ==> self.nonblocking() == b { unimplemented!() }
    #[verifier::external_body] pub fn local_addr(&self) -> (r: io::Result<StdSocketAddr>) { unimplemented!() }
}
impl MioTcpListener {
    #[verifier::external_body] pub fn local_addr(&self) -> (r: io::Result<StdSocketAddr>) { unimplemented!() }
}
impl vstd::std_specs::convert::FromSpecImpl<StdTcpListener> for MioListener {
    open spec fn obeys_from_spec() -> bool { false }
    uninterp spec fn from_spec(l: StdTcpListener) -> MioListener;
}
impl From<StdTcpListener> for MioListener {
//@extract file=actix-server/src/socket.rs item="impl From<StdTcpListener> for MioListener / fn from" ret=r props=C01,C05 name=socket::from_std_tcp
//@spec
    ensures r is Tcp, listener_nonblocking(&r) == lst.nonblocking(),
//@end
}
#[verifier::external_body]
pub struct StdUnixListener { _p: () }
/// `impl AsRef<Path>` argument of bind_uds
#[verifier::external_body]
pub struct PathLike { _p: () }
impl PathLike { #[verifier::external_body] pub fn as_ref(&self) -> (r: &Path) { unimplemented!() } }
impl StdUnixListener {
    #[verifier::external_body] pub fn bind(p: PathLike) -> (r: io::Result<StdUnixListener>) { unimplemented!() }
    pub uninterp spec fn nonblocking(&self) -> bool;
    #[verifier::external_body] pub fn set_nonblocking(&self, b: bool) -> (r: io::Result<()>) ensures r is Ok ==> self.nonblocking() == b { unimplemented!() }
}
impl StdSocketAddr { #[verifier::external_body] pub fn new(ip: std::net::IpAddr, port: u16) -> (r: StdSocketAddr) { unimplemented!() } }
pub mod socket { pub use super::StdSocketAddr; pub use super::StdUnixListener; }
impl vstd::std_specs::convert::FromSpecImpl<StdUnixListener> for MioListener {
    open spec fn obeys_from_spec() -> bool { false }
    uninterp spec fn from_spec(l: StdUnixListener) -> MioListener;
}
impl From<StdUnixListener> for MioListener {
//@extract file=actix-server/src/socket.rs item="impl From<StdUnixListener> for MioListener / fn from" ret=r props=C01,C05 name=socket::from_std_uds
//@spec
    ensures r is Uds, listener_nonblocking(&r) == lst.nonblocking(),
//@end
}
/// std::net::ToSocketAddrs as far as bind_addr uses it: the resolved addresses (a small number: A-INT)
impl AddrsLike {
    pub uninterp spec fn resolved(&self) -> Seq<StdSocketAddr>;
    #[verifier::external_body]
    pub fn to_socket_addrs(&self) -> (r: io::Result<Vec<StdSocketAddr>>)
        ensures r matches Ok(v) ==> v@ == self.resolved() && v@.len() <= 65536,
    { unimplemented!() }
}
impl Clone for StdSocketAddr { #[verifier::external_body] fn clone(&self) -> (r: StdSocketAddr) ensures r == *self { unimplemented!() } }
impl Copy for StdSocketAddr {}
impl MioTcpListener {
    /// the address / backlog the OS socket was created with (socket.rs create_mio_tcp_listener: OS-level, NOT verified)
    pub uninterp spec fn bound_to(&self) -> StdSocketAddr;
    pub uninterp spec fn backlog(&self) -> i32;
}
/// socket2 as far as create_mio_tcp_listener uses it (ASSUMED: the OS calls do what their names say).  `&self`
/// methods act on the OS socket, so what they establish is named by PROPHECY functions of the socket value.
pub mod socket2 {
    use super::*;
    pub enum Domain { V4, V6 }
    pub enum Type { STREAM, DGRAM }
    pub enum Protocol { TCP, MPTCP, UDP }
    #[verifier::external_body]
    pub struct SockAddr { _p: () }
    impl SockAddr { pub uninterp spec fn std(&self) -> StdSocketAddr; }
    impl Domain {
        #[verifier::external_body]
        pub fn for_address(a: StdSocketAddr) -> (r: Domain) { unimplemented!() }
    }
    #[verifier::external_body]
    pub struct Socket { _p: () }
    impl Socket {
        pub uninterp spec fn ty(&self) -> Type;
        pub uninterp spec fn proto(&self) -> Protocol;
        pub uninterp spec fn bound_to(&self) -> StdSocketAddr;
        pub uninterp spec fn bound(&self) -> bool;
        pub uninterp spec fn backlog(&self) -> i32;
        pub uninterp spec fn listening(&self) -> bool;
        pub uninterp spec fn nonblocking(&self) -> bool;
        #[verifier::external_body]
        pub fn new(d: Domain, t: Type, p: Option<Protocol>) -> (r: io::Result<Socket>)
            ensures r matches Ok(s) ==> s.ty() == t && (p matches Some(pp) ==> s.proto() == pp),
        { unimplemented!() }
        #[verifier::external_body]
        pub fn set_reuse_address(&self, b: bool) -> (r: io::Result<()>) { unimplemented!() }
        #[verifier::external_body]
        pub fn set_nonblocking(&self, b: bool) -> (r: io::Result<()>) ensures r is Ok ==> self.nonblocking() == b { unimplemented!() }
        #[verifier::external_body]
        pub fn bind(&self, a: &SockAddr) -> (r: io::Result<()>) ensures r is Ok ==> self.bound() && self.bound_to() == a.std() { unimplemented!() }
        #[verifier::external_body]
        pub fn listen(&self, n: i32) -> (r: io::Result<()>) ensures r is Ok ==> self.listening() && self.backlog() == n { unimplemented!() }
    }
}
impl StdSocketAddr {
    /// `addr.into()` : StdSocketAddr -> socket2::SockAddr
    #[verifier::external_body]
    pub fn into(self) -> (r: socket2::SockAddr) ensures r.std() == self { unimplemented!() }
}
impl MioTcpListener {
    /// whether the OS socket is a bound, listening stream socket
    pub uninterp spec fn listening_stream(&self) -> bool;
}
impl StdTcpListener {
    pub uninterp spec fn bound_to(&self) -> StdSocketAddr;
    pub uninterp spec fn backlog(&self) -> i32;
    pub uninterp spec fn listening_stream(&self) -> bool;
    /// `StdTcpListener::from(socket)`: an in-place conversion of the OS socket
    #[verifier::external_body]
    pub fn from(s: socket2::Socket) -> (r: StdTcpListener)
        ensures r.nonblocking() == s.nonblocking(), r.bound_to() == s.bound_to(), r.backlog() == s.backlog(),
            r.listening_stream() == (s.bound() && s.listening() && s.ty() is STREAM),
    { unimplemented!() }
}
//@extract file=actix-server/src/socket.rs item="fn create_mio_tcp_listener" ret=r props=C01,C05 name=socket::create_mio_tcp_listener
//@spec
    ensures
        // Ok means a bound, listening, NON-BLOCKING stream socket on exactly the requested address with the requested
        // backlog (the accept loop drains a listener until WouldBlock)   [C01,C05]
        r matches Ok(l) ==> l.bound_to() == addr && (backlog <= i32::MAX ==> l.backlog() == backlog as i32) && l.nonblocking() && l.listening_stream(),
//@end
impl IoError {
    #[verifier::external_body]
    pub fn new<E>(kind: ErrorKind, e: E) -> (r: IoError) ensures r.spec_kind() == kind { unimplemented!() }
}

//@extract file=actix-server/src/builder.rs item="fn bind_addr" ret=r props=C01 name=builder::bind_addr sig_replace="pub fn bind_addr<S: ToSocketAddrs>(=>pub fn bind_addr(;;addr: S=>addr: AddrsLike"
//@replace pattern="let mut sockets = Vec::new();" rule=R15
let mut sockets: Vec<MioTcpListener> = Vec::new();
//@spec
    ensures
        // Ok means at least one listener; every listener is bound to one of the resolved addresses with the requested
        // backlog, at most one per address   [C01]
        r matches Ok(v) ==> 1 <= v@.len() <= addr.resolved().len() && v@.len() <= 65536
            && forall|k: int| 0 <= k < v@.len() ==> (backlog <= i32::MAX ==> (#[trigger] v@[k]).backlog() == backlog as i32) && addr.resolved().contains(v@[k].bound_to())
                && v@[k].nonblocking() && v@[k].listening_stream(),   // [C01,C05] what create_mio_tcp_listener establishes, for every listener returned
//@loop head="while r9_q.len() > 0"
        invariant
            r9_q@.len() + sockets@.len() <= addr.resolved().len(), addr.resolved().len() <= 65536,
            success == (sockets@.len() > 0),
            forall|j: int| 0 <= j < r9_q@.len() ==> addr.resolved().contains(#[trigger] r9_q@[j]),
            forall|k: int| 0 <= k < sockets@.len() ==> (backlog <= i32::MAX ==> (#[trigger] sockets@[k]).backlog() == backlog as i32) && addr.resolved().contains(sockets@[k].bound_to())
                && sockets@[k].nonblocking() && sockets@[k].listening_stream(),
        decreases r9_q@.len(),
//@end

/// rule R9j: consuming `for x in vec` takes the elements from the front
#[verifier::external_body]
pub fn vec_take_first<T>(v: &mut Vec<T>) -> (r: T)
    requires old(v)@.len() > 0,
    ensures r == old(v)@[0], final(v)@ == old(v)@.subrange(1, old(v)@.len() as int),
{ unimplemented!() }

/// Box<dyn InternalServiceFactory>: `token()` is the listener token its services are created for (service.rs)
#[verifier::external_body]
pub struct BoxedFactory { _p: () }
impl BoxedFactory { pub uninterp spec fn token(&self) -> usize; }
pub struct StreamNewService { }
impl StreamNewService {
    /// service.rs StreamNewService::create stores the token it is given (a plain struct constructor)
    #[verifier::external_body]
    pub fn create(name: String, token: usize, inner: UserFactory, addr: StdSocketAddr) -> (r: BoxedFactory)
        ensures r.token() == token,
    { unimplemented!() }
}

/// ServerBuilder re-declared with the fields the pairing code touches (the channel ends / worker config are opaque);
/// field names and order are checked against the real struct on every run
//@check_struct file=actix-server/src/builder.rs name=ServerBuilder fields=threads,token,backlog,factories,sockets,mptcp,exit,listen_os_signals,cmd_tx,cmd_rx,worker_config
#[verifier::external_body]
pub struct Opaque { _p: () }
/// worker.rs ServerWorkerConfig and its three setters: the contracts unit worker_handles proves of the real text
pub struct ServerWorkerConfig { pub shutdown_timeout: Duration, pub max_blocking_threads: usize, pub max_concurrent_connections: usize }
impl ServerWorkerConfig {
    #[verifier::external_body]
    pub fn max_blocking_threads(&mut self, num: usize)
        ensures final(self).max_blocking_threads == num, final(self).max_concurrent_connections == old(self).max_concurrent_connections, final(self).shutdown_timeout == old(self).shutdown_timeout,
    { unimplemented!() }
    #[verifier::external_body]
    pub fn max_concurrent_connections(&mut self, num: usize)
        ensures final(self).max_concurrent_connections == num, final(self).max_blocking_threads == old(self).max_blocking_threads, final(self).shutdown_timeout == old(self).shutdown_timeout,
    { unimplemented!() }
    #[verifier::external_body]
    pub fn shutdown_timeout(&mut self, dur: Duration)
        ensures final(self).shutdown_timeout == dur, final(self).max_blocking_threads == old(self).max_blocking_threads, final(self).max_concurrent_connections == old(self).max_concurrent_connections,
    { unimplemented!() }
}
impl ServerWorkerConfig {
    /// `impl Default for ServerWorkerConfig`: the contract unit worker_handles proves of the real text
    #[verifier::external_body]
    pub fn default() -> (r: ServerWorkerConfig)
        ensures 1 <= r.max_blocking_threads <= 512,
    { unimplemented!() }
}
/// tokio::sync::mpsc::unbounded_channel (the command channel: opaque here, unit server_cmd models it)
#[verifier::external_body]
pub fn unbounded_channel() -> (r: (Opaque, Opaque)) { unimplemented!() }
pub struct ServerBuilder {
    pub threads: usize,
    pub token: usize,
    pub backlog: u32,
    pub factories: Vec<BoxedFactory>,
    pub sockets: Vec<(usize, String, MioListener)>,
    pub mptcp: MpTcp,
    pub exit: bool,
    pub listen_os_signals: bool,
    pub cmd_tx: Opaque,
    pub cmd_rx: Opaque,
    pub worker_config: ServerWorkerConfig,
}

impl ServerBuilder {
    /// [C01] listener k carries token k and factory k creates services for token k — the table both the accept
    /// thread (`sockets_wf`) and every worker (`table_wf`, via wrap_worker_services' `assert_eq!(token, len)`) rely on
    pub open spec fn wf(&self) -> bool {
        &&& self.factories@.len() == self.token && self.sockets@.len() == self.token
        &&& forall|k: int| 0 <= k < self.token ==> (#[trigger] self.factories@[k]).token() == k
        &&& forall|k: int| 0 <= k < self.token ==> (#[trigger] self.sockets@[k]).0 == k
    }

    /// everything a configuration setter must leave alone
    pub open spec fn same_table(&self, o: &ServerBuilder) -> bool {
        self.token == o.token && self.factories == o.factories && self.sockets == o.sockets
    }

//@extract file=actix-server/src/builder.rs item="impl ServerBuilder / fn new" ret=r props=C01,C06 name=builder::new
//@spec
    ensures
        // a fresh builder has an empty, well-formed listener table and at least one worker   [C01]
        r.wf(), r.token == 0, r.threads >= 1,
        r.listen_os_signals,        // [C06] SIGINT/SIGTERM/SIGQUIT are handled unless `disable_signals` is called
        // (the VALUES of the documented defaults — backlog 2048, 25600 connections, 30 s — are not part of any property)
//@end

//@extract file=actix-server/src/builder.rs item="impl ServerBuilder / fn mptcp" ret=r props=C01 name=builder::mptcp mut_self
//@spec
    ensures r.mptcp == mptcp_enabled, r.same_table(&self), r.threads == self.threads, r.backlog == self.backlog, r.exit == self.exit,
            r.listen_os_signals == self.listen_os_signals, r.worker_config == self.worker_config,
//@end

//@extract file=actix-server/src/builder.rs item="impl ServerBuilder / fn run" ret=r props=C01,C06 name=builder::run intended_panics
//@spec
    ensures
        // the server is built from exactly this builder, and only when at least one listener is bound   [C01]
        self.sockets@.len() > 0, r.built_from() == self,
//@end

//@extract file=actix-server/src/builder.rs item="impl ServerBuilder / fn workers" ret=r props=C01 name=builder::workers mut_self intended_panics runtime_asserts
//@spec
    ensures
        num != 0,      // `assert_ne!(num, 0)`: the documented panic — the call returns only for a positive worker count   [C01]
        r.threads == num, r.same_table(&self), r.worker_config == self.worker_config,
//@end
//@extract file=actix-server/src/builder.rs item="impl ServerBuilder / fn max_concurrent_connections" ret=r props=C02 name=builder::max_concurrent_connections mut_self
//@spec
    ensures
        // the limit the user configures is the limit every worker's counter is created with   [C02]
        r.worker_config.max_concurrent_connections == num, r.worker_config.shutdown_timeout == self.worker_config.shutdown_timeout,
        r.same_table(&self), r.threads == self.threads,
//@end
//@extract file=actix-server/src/builder.rs item="impl ServerBuilder / fn maxconn" ret=r props=C02 name=builder::maxconn
//@spec
    ensures r.worker_config.max_concurrent_connections == num, r.same_table(&self),   // [C02] the deprecated alias does the same
//@end
//@extract file=actix-server/src/builder.rs item="impl ServerBuilder / fn shutdown_timeout" ret=r props=C06 name=builder::shutdown_timeout mut_self
//@spec
    ensures
        r.worker_config.shutdown_timeout.ns() == sec as nat * 1_000_000_000,   // [C06] seconds, as documented
        r.worker_config.max_concurrent_connections == self.worker_config.max_concurrent_connections, r.same_table(&self),
//@end
//@extract file=actix-server/src/builder.rs item="impl ServerBuilder / fn worker_max_blocking_threads" ret=r props=C02 name=builder::worker_max_blocking_threads mut_self
//@spec
    ensures r.worker_config.max_blocking_threads == num,
            r.worker_config.max_concurrent_connections == self.worker_config.max_concurrent_connections,   // [C02] the connection limit is left alone
            r.worker_config.shutdown_timeout == self.worker_config.shutdown_timeout, r.same_table(&self),
//@end
//@extract file=actix-server/src/builder.rs item="impl ServerBuilder / fn backlog" ret=r props=C01 name=builder::backlog mut_self
//@spec
    ensures r.backlog == num, r.same_table(&self), r.worker_config == self.worker_config,
//@end
//@extract file=actix-server/src/builder.rs item="impl ServerBuilder / fn system_exit" ret=r props=C06 name=builder::system_exit mut_self
//@spec
    ensures r.exit, r.same_table(&self), r.worker_config == self.worker_config, r.listen_os_signals == self.listen_os_signals,
//@end
//@extract file=actix-server/src/builder.rs item="impl ServerBuilder / fn disable_signals" ret=r props=C06 name=builder::disable_signals mut_self
//@spec
    ensures !r.listen_os_signals, r.same_table(&self), r.worker_config == self.worker_config, r.exit == self.exit,
//@end

//@extract file=actix-server/src/builder.rs item="impl ServerBuilder / fn next_token" ret=r props=C01 name=builder::next_token
//@spec
    requires old(self).token < usize::MAX,
    ensures r == old(self).token, final(self).token == old(self).token + 1,   // [C01] tokens are handed out once each, in order
            final(self).factories == old(self).factories && final(self).sockets == old(self).sockets,
//@end

//@extract file=actix-server/src/builder.rs item="impl ServerBuilder / fn listen" ret=r props=C01 name=builder::listen mut_self sig_replace="pub fn listen<F, N: AsRef<str>>(=>pub fn listen(;;name: N=>name: NameLike;;factory: F=>factory: UserFactory;;where F: ServerServiceFactory<TcpStream>,=> "
//@spec
    requires self.wf(), self.token < usize::MAX,
    ensures r matches Ok(b) ==> b.wf() && b.token == self.token + 1 && b.sockets@[self.token as int].2 is Tcp,   // [C01]
            r matches Ok(b) ==> listener_nonblocking(&b.sockets@[self.token as int].2),   // [C01,C05,C06] the accept loop never blocks in accept() (a blocked accept thread never sees Pause, Resume or Stop)
//@end

//@extract file=actix-server/src/builder.rs item="impl ServerBuilder / fn listen_uds" ret=r props=C01 name=builder::listen_uds mut_self sig_replace="pub fn listen_uds<F, N: AsRef<str>>(=>pub fn listen_uds(;;name: N=>name: NameLike;;factory: F=>factory: UserFactory;;where F: ServerServiceFactory<actix_rt::net::UnixStream>,=> "
//@spec
    requires self.wf(), self.token < usize::MAX,
    ensures r matches Ok(b) ==> b.wf() && b.token == self.token + 1 && b.sockets@[self.token as int].2 is Uds,   // [C01] Unix-domain listeners get their own token and factory too
            r matches Ok(b) ==> listener_nonblocking(&b.sockets@[self.token as int].2),   // [C01,C05,C06]
//@replace pattern="use std::net::{IpAddr, Ipv4Addr};" rule=R15
use crate::std::net::{IpAddr, Ipv4Addr};
//@end

//@extract file=actix-server/src/builder.rs item="impl ServerBuilder / fn bind_uds" ret=r props=C01 name=builder::bind_uds sig_replace="pub fn bind_uds<F, U, N>(=>pub fn bind_uds(;;name: N=>name: NameLike;;addr: U=>addr: PathLike;;factory: F=>factory: UserFactory;;where F: ServerServiceFactory<actix_rt::net::UnixStream>, N: AsRef<str>, U: AsRef<std::path::Path>,=> "
//@replace pattern="std::io::ErrorKind::NotFound" rule=R15
io::ErrorKind::NotFound
//@replace pattern="crate::socket::StdUnixListener::bind(addr)" rule=R15
StdUnixListener::bind(addr)
//@spec
    requires self.wf(), self.token < usize::MAX,
    ensures
        // a Unix-domain listener bound through the builder is paired with its own token and factory, exactly like one
        // handed in through listen_uds   [C01]
        r matches Ok(b) ==> b.wf() && b.token == self.token + 1 && b.sockets@[self.token as int].2 is Uds
            && listener_nonblocking(&b.sockets@[self.token as int].2),
//@end

//@extract file=actix-server/src/builder.rs item="impl ServerBuilder / fn bind" ret=r props=C01 name=builder::bind mut_self sig_replace="pub fn bind<F, U, N>(=>pub fn bind(;;name: N=>name: NameLike;;addrs: U=>addrs: AddrsLike;;factory: F=>factory: UserFactory;;where F: ServerServiceFactory<TcpStream>, U: ToSocketAddrs, N: AsRef<str>,=> "
//@spec
    requires self.wf(), self.token < usize::MAX - 65536,
    ensures r matches Ok(b) ==> b.wf() && b.token >= self.token,   // [C01] one fresh token, one factory and one listener per resolved address
        // every listener `bind` adds is a non-blocking TCP listener (the accept loop drains it until WouldBlock; a
        // blocked accept thread never sees Pause, Resume or Stop); the earlier entries are untouched   [C01,C05,C06]
        r matches Ok(b) ==> forall|i: int| self.token <= i < b.token ==> listener_nonblocking(&(#[trigger] b.sockets@[i]).2) && b.sockets@[i].2 is Tcp,
        r matches Ok(b) ==> forall|i: int| 0 <= i < self.token ==> (#[trigger] b.sockets@[i]) == self.sockets@[i],
//@loop head="while r9_q.len() > 0"
        invariant
            r4_self.wf(),
            r4_self.token >= self.token,
            forall|j: int| 0 <= j < r9_q@.len() ==> (#[trigger] r9_q@[j]).nonblocking(),
            forall|i: int| self.token <= i < r4_self.token ==> listener_nonblocking(&(#[trigger] r4_self.sockets@[i]).2) && r4_self.sockets@[i].2 is Tcp,
            forall|i: int| 0 <= i < self.token ==> (#[trigger] r4_self.sockets@[i]) == self.sockets@[i],
            r4_self.token + r9_q@.len() < usize::MAX,
        decreases r9_q@.len(),
//@end
}


// ===================================================================== join_all.rs (C06)
/// futures_core BoxFuture<'static, T>: a most-general future (any outcome), with the Future contract as precondition:
/// it must not be polled again after it has completed
#[verifier::external_body]
#[verifier::reject_recursive_types(T)]
pub struct BoxFuture<'a, T> { _p: core::marker::PhantomData<(fn(&'a ()), T)> }
impl<'a, T> BoxFuture<'a, T> {
    pub uninterp spec fn done(&self) -> bool;
    pub uninterp spec fn polls(&self) -> nat;
    /// the most recent poll returned Pending (the future holds the task's waker)
    pub uninterp spec fn parked(&self) -> bool;
    #[verifier::external_body]
    pub fn as_mut(&mut self) -> (r: &mut Self) ensures *r == *old(self), *final(r) == *final(self) { unimplemented!() }
    #[verifier::external_body]
    pub fn poll(&mut self, cx: &mut Context<'_>) -> (r: Poll<T>)
        requires !old(self).done(),
        ensures final(self).done() == (r is Ready), final(self).polls() == old(self).polls() + 1, final(self).parked() == (r is Pending),
    { unimplemented!() }
}

#[verifier::reject_recursive_types(T)]
//@extract_type file=actix-server/src/join_all.rs item="enum JoinFuture<T>"
#[verifier::reject_recursive_types(T)]
//@extract_type file=actix-server/src/join_all.rs item="struct JoinAll<T>"

impl<T> JoinAll<T> {
    pub fn get_mut(&mut self) -> (r: &mut Self) ensures *r == *old(self), *final(r) == *final(self) { self }

    /// a slot still holding a future has not completed; a completed slot still holds its result
    pub open spec fn wf(&self) -> bool {
        forall|i: int| 0 <= i < self.fut@.len() ==> match #[trigger] self.fut@[i] {
            JoinFuture::Future(f) => !f.done(),
            JoinFuture::Result(o) => o is Some,
        }
    }

}
/// a future handed to join_all (`impl Future<Output = T> + Send + 'static`), and `Box::pin` of it
#[verifier::external_body]
#[verifier::reject_recursive_types(T)]
pub struct UserFuture<T> { _p: core::marker::PhantomData<T> }
pub struct Box { }
impl Box {
    #[verifier::external_body]
    pub fn pin<T>(f: UserFuture<T>) -> (r: BoxFuture<'static, T>) ensures !r.done() { unimplemented!() }
}
//@extract file=actix-server/src/join_all.rs item="fn join_all" ret=r props=C06 name=join_all::join_all sig_replace="Vec<impl Future<Output = T> + Send + 'static>=>Vec<UserFuture<T>>"
//@replace pattern="let mut r9_out = Vec::new();" rule=R9q
let mut r9_out: Vec<JoinFuture<T>> = Vec::new();
//@spec
    ensures r.wf(), r.fut@.len() == fut@.len(),   // [C06] one pending slot per future: nothing is considered done before it is
        forall|i: int| 0 <= i < r.fut@.len() ==> (#[trigger] r.fut@[i]) is Future,
//@loop head="while r9_q.len() > 0"
        invariant r9_out@.len() + r9_q@.len() == fut@.len(),
            forall|i: int| 0 <= i < r9_out@.len() ==> (#[trigger] r9_out@[i] matches JoinFuture::Future(f) && !f.done()),
        decreases r9_q@.len(),
//@end
impl<T> JoinAll<T> {

#[verifier::loop_isolation(false)]
//@extract file=actix-server/src/join_all.rs item="impl<T> Future for JoinAll<T> / fn poll" ret=r props=C06 name=join_all::poll alias_this
//@spec
    requires old(self).wf(),
    ensures
        final(self).fut@.len() == old(self).fut@.len(),
        // it resolves exactly when every future has completed, with one result per future, in input order   [C06]
        r matches Poll::Ready(v) ==> v@.len() == old(self).fut@.len(),
        r matches Poll::Ready(v) ==> forall|i: int| 0 <= i < old(self).fut@.len() ==> (old(self).fut@[i] matches JoinFuture::Result(Some(x)) ==> #[trigger] v@[i] == x),
        r is Pending ==> final(self).wf() && exists|i: int| 0 <= i < final(self).fut@.len() && (#[trigger] final(self).fut@[i]) is Future,
        // Pending only with a wake-up arranged: some unfinished future was polled in this call and answered Pending   [C06]
        r is Pending ==> exists|i: int| 0 <= i < final(self).fut@.len() && ((#[trigger] final(self).fut@[i]) matches JoinFuture::Future(f) && f.parked()),   // [C06]
        // a future that has completed is never polled again (the stub's precondition), and already-stored results stay
        forall|i: int| 0 <= i < old(self).fut@.len() ==> (old(self).fut@[i] is Result && r is Pending ==> #[trigger] final(self).fut@[i] == old(self).fut@[i]),
//@insert loop_start=1
            let ghost r9_prev = self.fut@; let ghost was_ready = ready; let ghost k0 = r9_n as int;
//@insert loop_end=1
            proof {
                // only slot k0 can have changed in this iteration; a pending future seen earlier is still pending
                assert(forall|w: int| 0 <= w < k0 ==> self.fut@[w] == r9_prev[w]);
                if !ready {
                    if !was_ready {
                        let w0 = choose|w: int| 0 <= w < k0 && ((#[trigger] r9_prev[w]) matches JoinFuture::Future(f) && f.parked());
                        assert(self.fut@[w0] matches JoinFuture::Future(f) && f.parked());
                    } else {
                        assert(self.fut@[k0] matches JoinFuture::Future(f) && f.parked());
                    }
                }
            }
//@loop 1
        invariant
            r9_n <= self.fut@.len(),
            self.fut@.len() == old(self).fut@.len(),
            forall|i: int| r9_n <= i < self.fut@.len() ==> (#[trigger] self.fut@[i]) == old(self).fut@[i],
            forall|i: int| 0 <= i < r9_n ==> match #[trigger] self.fut@[i] { JoinFuture::Future(f) => !f.done(), JoinFuture::Result(o) => o is Some },
            forall|i: int| 0 <= i < r9_n ==> (old(self).fut@[i] is Result ==> #[trigger] self.fut@[i] == old(self).fut@[i]),
            ready ==> forall|i: int| 0 <= i < r9_n ==> (#[trigger] self.fut@[i]) is Result,
            !ready ==> exists|w: int| 0 <= w < r9_n && ((#[trigger] self.fut@[w]) matches JoinFuture::Future(f) && f.parked()),
        decreases self.fut@.len() - r9_n,
//@loop 2
        invariant
            r9_n <= self.fut@.len(),
            self.fut@.len() == old(self).fut@.len(),
            res@.len() == r9_n,
            forall|i: int| r9_n <= i < self.fut@.len() ==> (#[trigger] self.fut@[i]) matches JoinFuture::Result(Some(_)),
            forall|i: int| r9_n <= i < self.fut@.len() ==> (old(self).fut@[i] is Result ==> #[trigger] self.fut@[i] == old(self).fut@[i]),
            forall|i: int| 0 <= i < r9_n ==> (old(self).fut@[i] matches JoinFuture::Result(Some(x)) ==> #[trigger] res@[i] == x),
        decreases self.fut@.len() - r9_n,
//@end
}


/// server.rs `Server`: only what it was built from (unit server_cmd verifies Server::new itself)
#[verifier::external_body]
pub struct Server { _p: () }
impl Server {
    pub uninterp spec fn built_from(&self) -> ServerBuilder;
    #[verifier::external_body]
    pub fn new(builder: ServerBuilder) -> (r: Server) ensures r.built_from() == builder { unimplemented!() }
//@extract file=actix-server/src/server.rs item="impl Server / fn build" ret=r props=C01 name=server::Server::build
//@spec
    ensures r.wf(), r.token == 0, r.listen_os_signals,
//@end
}
impl Default for ServerBuilder {
//@extract file=actix-server/src/builder.rs item="impl Default for ServerBuilder / fn default" ret=r props=C01 name=builder::default
//@spec
    ensures r.wf(), r.token == 0, r.listen_os_signals,
//@end
}

} // verus!
fn main() {}
