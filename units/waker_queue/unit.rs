// Unit `waker_queue`: actix-server/src/waker_queue.rs — the queue between workers/server and the accept thread (C03:
// an interest is queued BEFORE the accept poll is woken, so a wake-up never finds the queue empty of its cause).
use vstd::prelude::*;
verus! {
//@include ../common/core.rs

// ===================================================================== std / mio stand-ins (TRUSTED BASE)
#[verifier::external_body]
pub struct WorkerHandleAccept { _p: () }
//@extract_type file=actix-server/src/waker_queue.rs item="enum WakerInterest"
#[verifier::external_body]
pub struct Waker { _p: () }
#[verifier::external_body]
pub struct Registry { _p: () }
pub struct MioToken(pub usize);
//@extract_const file=actix-server/src/waker_queue.rs name=WAKER_TOKEN
impl Waker {
    /// the poll instance this waker wakes, and the token its wake-ups carry
    pub uninterp spec fn wakes(&self) -> (int, usize);
    #[verifier::external_body]
    pub fn new(registry: &Registry, token: MioToken) -> (r: io::Result<Waker>)
        ensures r matches Ok(w) ==> w.wakes() == (registry.id(), token.0),
    { unimplemented!() }
    /// mio::Waker::wake: makes the accept thread's poll return with the waker token (A-SCHED)
    #[verifier::external_body]
    pub fn wake(&self) -> (r: io::Result<()>) { unimplemented!() }
}
/// std::collections::VecDeque as seen through a MutexGuard
#[verifier::external_body]
#[verifier::reject_recursive_types(T)]
pub struct VecDeque<T> { _p: core::marker::PhantomData<T> }
impl<T> VecDeque<T> {
    pub uninterp spec fn view(&self) -> Seq<T>;
    pub uninterp spec fn cap(&self) -> nat;
    #[verifier::external_body]
    pub fn with_capacity(n: usize) -> (r: VecDeque<T>) ensures r@.len() == 0, r.cap() >= n { unimplemented!() }
}
/// std::sync::Mutex<VecDeque<T>>.  `content()` is the queue as it is when this call locks it (fixed during one verified
/// call: only this thread's effect is modelled, A-SC); a guard is a `&mut` view of it.
#[verifier::external_body]
#[derive(Debug)]
pub struct PoisonError { _p: () }
#[verifier::external_body]
#[verifier::reject_recursive_types(T)]
pub struct MutexGuard<'a, T> { _p: core::marker::PhantomData<&'a T> }
impl<'a, T> MutexGuard<'a, VecDeque<T>> {
    pub uninterp spec fn view(&self) -> Seq<T>;
    #[verifier::external_body]
    pub fn push_back(&mut self, t: T) ensures final(self)@ == old(self)@.push(t) { unimplemented!() }
    #[verifier::external_body]
    pub fn push_front(&mut self, t: T) ensures final(self)@ == seq![t] + old(self)@ { unimplemented!() }
    #[verifier::external_body]
    pub fn pop_back(&mut self) -> (r: Option<T>)
        ensures old(self)@.len() == 0 ==> r.is_none() && final(self)@ == old(self)@,
            old(self)@.len() > 0 ==> r == Some(old(self)@.last()) && final(self)@ == old(self)@.drop_last(),
    { unimplemented!() }
    #[verifier::external_body]
    pub fn pop_front(&mut self) -> (r: Option<T>)
        ensures old(self)@.len() == 0 ==> r.is_none() && final(self)@ == old(self)@,
            old(self)@.len() > 0 ==> r == Some(old(self)@.first()) && final(self)@ == old(self)@.subrange(1, old(self)@.len() as int),
    { unimplemented!() }
    #[verifier::external_body]
    pub fn back(&self) -> (r: Option<&T>)
        ensures self@.len() == 0 ==> r.is_none(), self@.len() > 0 ==> r.is_some() && *r.unwrap() == self@.last(),
    { unimplemented!() }
    #[verifier::external_body]
    pub fn front(&self) -> (r: Option<&T>)
        ensures self@.len() == 0 ==> r.is_none(), self@.len() > 0 ==> r.is_some() && *r.unwrap() == self@[0],
    { unimplemented!() }
    #[verifier::external_body]
    pub fn len(&self) -> (r: usize) ensures r == self@.len() { unimplemented!() }
    #[verifier::external_body]
    pub fn is_empty(&self) -> (r: bool) ensures r == (self@.len() == 0) { unimplemented!() }
}
#[verifier::external_body]
#[verifier::reject_recursive_types(T)]
pub struct Mutex<T> { _p: core::marker::PhantomData<T> }
impl<T> Mutex<VecDeque<T>> {
    pub uninterp spec fn content(&self) -> Seq<T>;
    #[verifier::external_body]
    pub fn new(q: VecDeque<T>) -> (r: Mutex<VecDeque<T>>) ensures r.content() == q@ { unimplemented!() }
    /// a poisoned lock makes the code `.expect()`-panic: intended, outside the property
    #[verifier::external_body]
    pub fn lock(&self) -> (r: Result<MutexGuard<'_, VecDeque<T>>, PoisonError>)
        ensures r matches Ok(g) && g@ == self.content(),
    { unimplemented!() }
}
#[verifier::external_body]
#[verifier::reject_recursive_types(T)]
pub struct Arc<T> { _p: core::marker::PhantomData<T> }
impl Registry { pub uninterp spec fn id(&self) -> int; }
impl<T> Arc<T> {
    pub uninterp spec fn view(&self) -> T;
    #[verifier::external_body]
    pub fn new(t: T) -> (r: Arc<T>) ensures r@ == t { unimplemented!() }
    /// Arc::clone: another handle to the SAME allocation
    #[verifier::external_body]
    pub fn clone(&self) -> (r: Arc<T>) ensures r@ == self@ { unimplemented!() }
    #[verifier::external_body]
    pub fn deref(&self) -> (r: &T) ensures *r == self@ { unimplemented!() }
}
pub mod std { pub mod mem {
    use vstd::prelude::*;
    #[verifier::external_body]
    pub fn swap<T>(a: &mut T, b: &mut T) ensures *final(a) == *old(b), *final(b) == *old(a) { unimplemented!() }
} }

/// waker_queue.rs `pub(crate) struct WakerQueue(Arc<(Waker, Mutex<VecDeque<WakerInterest>>)>);` (tuple struct: re-declared)
pub struct WakerQueue(pub Arc<(Waker, Mutex<VecDeque<WakerInterest>>)>);

impl WakerQueue {
//@extract file=actix-server/src/waker_queue.rs item="impl Clone for WakerQueue / fn clone" ret=r props=C03,C05,C06,C08 name=waker_queue::clone
//@spec
    ensures r.0@ == self.0@,     // [C03] every clone (one per worker, one for the server) feeds the SAME queue and waker
//@end
//@extract file=actix-server/src/waker_queue.rs item="impl WakerQueue / fn new" ret=r props=C03,C05,C06,C08 name=waker_queue::new sig_replace="std::io::Result<Self>=>io::Result<Self>"
//@spec
    ensures
        // the queue starts empty and its waker wakes THIS poll instance with the token the accept loop looks for   [C03]
        r matches Ok(q) ==> q.0@.1.content().len() == 0 && q.0@.0.wakes() == (registry.id(), WAKER_TOKEN.0),
//@end
//@extract file=actix-server/src/waker_queue.rs item="impl Deref for WakerQueue / fn deref" ret=r props=C03,C05,C06,C08 name=waker_queue::deref
//@spec
    ensures *r == self.0@,
//@end

//@extract file=actix-server/src/waker_queue.rs item="impl WakerQueue / fn wake" props=C03,C04,C05,C06,C08 name=waker_queue::wake intended_panics trace_calls=push_back,wake closures=1
//@spec
    requires true,
//@insert fn_exit=1
        // on EVERY exit: exactly one interest is queued and the accept poll is woken exactly once, AFTER the interest is in the queue   [C03]
        assert(r24_trace == seq![0int, 1int]);   // [C03,C04,C05,C06,C08]
//@end

//@extract file=actix-server/src/waker_queue.rs item="impl WakerQueue / fn guard" ret=r props=C03,C05,C06,C08 name=waker_queue::guard
//@spec
    ensures r@ == self.0@.1.content(),   // [C03,C05,C06,C08] the guard is the accept thread's view of THIS queue
//@end

//@extract file=actix-server/src/waker_queue.rs item="impl WakerQueue / fn reset" props=C03,C05,C06,C08 name=waker_queue::reset
//@spec
    ensures final(queue)@.len() == 0,   // [C03,C05,C06,C08] the queue is emptied (and shrunk) — called only after every interest was handled
//@end
}
} // verus!
fn main() {}
