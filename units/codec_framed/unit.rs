// Unit `codec_framed`: actix-codec/src/framed.rs — Framed::{write, flush, close, next_item, is_write_ready} and the
// Sink / Stream forwarding impls, for an arbitrary transport and an arbitrary codec (C13, C14).
use vstd::prelude::*;
use core::task::Poll;

macro_rules! ready {
    ($e:expr $(,)?) => {
        match $e {
            core::task::Poll::Ready(t) => t,
            core::task::Poll::Pending => return core::task::Poll::Pending,
        }
    };
}

verus! {

//@include ../common/core.rs
//@include ../common/poll.rs
//@include ../common/bytes.rs

// ===================================================================== transport and codec traits (TRUSTED BASE)
/// rule R4d turns `this.io` (a `Pin<&mut T>`) into `(&mut self.io)`; `as_mut()` re-borrows it
pub trait VPin: Sized {
    fn as_mut(&mut self) -> (r: &mut Self)
        ensures *r == *old(self), *final(r) == *final(self);
}
impl<T> VPin for T {
    fn as_mut(&mut self) -> (r: &mut Self) { self }
}

/// tokio AsyncWrite.  Ghost state: `written()` everything the transport has accepted so far, `flushed()` /
/// `is_shutdown()`, `zero_writes()` the number of times it accepted 0 bytes of a non-empty buffer.  A write accepts a
/// nondeterministic prefix of the buffer, or is Pending, or fails; Pending and errors change nothing.
pub trait AsyncWrite: Sized {
    spec fn written(&self) -> Seq<u8>;
    spec fn flushed(&self) -> bool;
    spec fn is_shutdown(&self) -> bool;
    spec fn zero_writes(&self) -> nat;
    /// the most recent write-side poll returned Pending (the transport holds the task's waker)
    spec fn w_parked(&self) -> bool;

    fn poll_write<B: ByteView + ?Sized>(&mut self, cx: &mut Context<'_>, buf: &B) -> (r: Poll<io::Result<usize>>)
        ensures
            r matches Poll::Ready(Ok(n)) ==> n <= buf.bv().len() && final(self).written() == old(self).written() + buf.bv().subrange(0, n as int)
                && final(self).zero_writes() == old(self).zero_writes() + (if n == 0 && buf.bv().len() > 0 { 1nat } else { 0nat }),
            !(r matches Poll::Ready(Ok(_))) ==> final(self).written() == old(self).written() && final(self).zero_writes() == old(self).zero_writes(),
            final(self).is_shutdown() == old(self).is_shutdown(),
            final(self).w_parked() == (r is Pending);

    fn poll_flush(&mut self, cx: &mut Context<'_>) -> (r: Poll<io::Result<()>>)
        ensures
            final(self).written() == old(self).written(), final(self).zero_writes() == old(self).zero_writes(),
            final(self).is_shutdown() == old(self).is_shutdown(),
            r matches Poll::Ready(Ok(_)) ==> final(self).flushed(),
            final(self).w_parked() == (r is Pending);

    fn poll_shutdown(&mut self, cx: &mut Context<'_>) -> (r: Poll<io::Result<()>>)
        ensures
            final(self).written() == old(self).written(), final(self).zero_writes() == old(self).zero_writes(),
            r matches Poll::Ready(Ok(_)) ==> final(self).is_shutdown(),
            final(self).w_parked() == (r is Pending);
}

/// tokio AsyncRead seen through tokio_util::io::poll_read_buf.  `remaining()` is the (ghost) rest of the byte stream
/// the peer will ever send; a read moves a nondeterministic non-empty prefix of it to the end of the buffer, reports 0
/// exactly at end of stream (the caller guarantees spare capacity), or is Pending / fails without touching anything.
pub trait AsyncRead: Sized {
    spec fn remaining(&self) -> Seq<u8>;
    /// the most recent read returned Pending (the transport holds the task's waker)
    spec fn r_parked(&self) -> bool;
}

#[verifier::external_body]
pub fn poll_read_buf<T: AsyncRead>(io: &mut T, cx: &mut Context<'_>, buf: &mut BytesMut) -> (r: Poll<io::Result<usize>>)
    requires old(buf).cap() > old(buf)@.len(),
    ensures
        r matches Poll::Ready(Ok(n)) ==> {
            &&& n <= old(io).remaining().len()
            &&& (n == 0 <==> old(io).remaining().len() == 0)
            &&& final(buf)@ == old(buf)@ + old(io).remaining().subrange(0, n as int)
            &&& final(io).remaining() == old(io).remaining().subrange(n as int, old(io).remaining().len() as int)
        },
        !(r matches Poll::Ready(Ok(_))) ==> final(buf)@ == old(buf)@ && final(io).remaining() == old(io).remaining(),
        final(io).r_parked() == (r is Pending),
{ unimplemented!() }

pub mod tokio_util { pub mod io { pub use super::super::poll_read_buf; } }

//@include ../common/codec_traits.rs

// ===================================================================== real constants, flags, struct
//@extract_const file=actix-codec/src/framed.rs name=LW
//@extract_const file=actix-codec/src/framed.rs name=HW

/// the real `bitflags!` set of framed.rs, generated (rule R20)
//@bitflags file=actix-codec/src/framed.rs name=Flags

//@check_struct file=actix-codec/src/framed.rs name=Framed fields=io,codec,flags,read_buf,write_buf
pub struct Framed<T, U> {
    pub io: T,
    pub codec: U,
    pub flags: Flags,
    pub read_buf: BytesMut,
    pub write_buf: BytesMut,
}

// ===================================================================== write side (C14)
impl<T, U> Framed<T, U> {

//@extract file=actix-codec/src/framed.rs item="impl<T, U> Framed<T, U> / fn is_write_ready" ret=r props=C14,C13
//@spec
    ensures
        r == (self.write_buf@.len() < HW),   // [C14] back-pressure from the high-water mark on
//@end

//@extract file=actix-codec/src/framed.rs item="impl<T, U> Framed<T, U> / fn write" ret=r props=C14,C13 unproject
//@spec
    ensures
        // an accepted item appends exactly its encoding; nothing reaches the transport yet   [C14]
        r is Ok ==> final(self).write_buf@ == old(self).write_buf@ + U::enc(item),
        // whatever happens to THIS item, the bytes of the items accepted before it stay buffered, in place   [C14]
        old(self).write_buf@.is_prefix_of(final(self).write_buf@),
        final(self).io == old(self).io,
        final(self).read_buf == old(self).read_buf && final(self).flags == old(self).flags,
//@end

//@extract file=actix-codec/src/framed.rs item="impl<T, U> Framed<T, U> / fn flush" ret=r props=C14,C13 unproject
//@spec
    ensures
        // lossless and ordered under any pattern of partial writes / Pending / errors:
        // bytes on the wire ++ bytes still buffered never changes   [C14]
        final(self).io.written() + final(self).write_buf@ == old(self).io.written() + old(self).write_buf@,
        // success only when nothing remains buffered and the transport has been flushed   [C14]
        r matches Poll::Ready(Ok(_)) ==> final(self).write_buf@.len() == 0 && final(self).io.flushed(),
        // a zero-length write is reported as an error   [C14]
        final(self).io.zero_writes() > old(self).io.zero_writes() ==> r matches Poll::Ready(Err(_)),
        final(self).io.is_shutdown() == old(self).io.is_shutdown(),
        final(self).read_buf == old(self).read_buf && final(self).flags == old(self).flags && final(self).codec == old(self).codec,
        r is Pending ==> final(self).io.w_parked(),   // [C14] Pending only when the transport said Pending (and holds the waker)
//@loop 1
        invariant
            self.io.written() + self.write_buf@ == old(self).io.written() + old(self).write_buf@,
            self.io.zero_writes() == old(self).io.zero_writes(),
            self.io.is_shutdown() == old(self).io.is_shutdown(),
            self.read_buf == old(self).read_buf && self.flags == old(self).flags && self.codec == old(self).codec,
        decreases self.write_buf@.len(),
//@insert loop_start=1
            let ghost b0 = self.write_buf@;
//@insert loop_end=1
            proof {
                // what the transport accepted (a prefix of the buffer) is exactly what has been removed from the buffer
                let k = b0.len() - self.write_buf@.len();      // bytes taken off the front in this iteration
                assert(b0.subrange(0, k) + b0.subrange(k, b0.len() as int) =~= b0);
                assert(self.io.written() + self.write_buf@ =~= old(self).io.written() + old(self).write_buf@);
            }
//@end

//@extract file=actix-codec/src/framed.rs item="impl<T, U> Framed<T, U> / fn close" ret=r props=C14,C13 unproject
//@spec
    ensures
        final(self).io.written() + final(self).write_buf@ == old(self).io.written() + old(self).write_buf@,   // [C14]
        // close reports success only when everything buffered has been written out and the transport is shut down [C14]
        r matches Poll::Ready(Ok(_)) ==> final(self).write_buf@.len() == 0 && final(self).io.is_shutdown(),
        final(self).read_buf == old(self).read_buf && final(self).flags == old(self).flags && final(self).codec == old(self).codec,
        r is Pending ==> final(self).io.w_parked(),   // [C14]
//@end

}


// ===================================================================== read side (C13)
impl<T: AsyncRead, U: Decoder> Framed<T, U> {
    /// EOF is flagged only after the transport reported end of stream, and then the decoder stays "readable"
    pub open spec fn rd_wf(&self) -> bool {
        self.flags.eof ==> self.flags.readable && self.io.remaining().len() == 0
    }

    /// the buffer after `m` more bytes of the stream have arrived
    pub open spec fn buf_after(&self, m: int) -> Seq<u8> {
        self.read_buf@ + self.io.remaining().subrange(0, m)
    }
}

/// [C13] the relation between the state before a poll of the stream, the state after it and the poll's result
pub open spec fn rd_post<T: AsyncRead, U: Decoder>(o: Framed<T, U>, n: Framed<T, U>, r: Poll<Option<Result<U::Item, U::Error>>>) -> bool {
    &&& n.rd_wf()
    &&& n.write_buf == o.write_buf
    &&& // for the number m of stream bytes taken from the transport during this call (whatever the chunking was):
        ({ let m = o.io.remaining().len() - n.io.remaining().len(); 0 <= m <= o.io.remaining().len() && {
            // bytes are moved from the stream to the buffer in order, none skipped, none duplicated   [C13]
            &&& n.io.remaining() == o.io.remaining().subrange(m, o.io.remaining().len() as int)
            // Pending: every byte received so far is still buffered, the codec is untouched   [C13]
            &&& (r is Pending ==> n.read_buf@ == o.buf_after(m) && n.codec == o.codec)
            // a frame: exactly what the codec decodes from (old buffer ++ the m new bytes); the buffer keeps the rest [C13]
            &&& (r matches Poll::Ready(Some(Ok(f))) ==> (Dec::Frame(f), n.read_buf@, n.codec)
                    == (if n.flags.eof { U::dec_eof(o.codec, o.buf_after(m)) } else { U::dec(o.codec, o.buf_after(m)) }))
            // end of stream: only once the transport is exhausted and decode_eof has nothing more   [C13]
            &&& (r matches Poll::Ready(None) ==> n.flags.eof && m == o.io.remaining().len()
                    && U::dec_eof(o.codec, o.buf_after(m)).0 is NeedMore)
            // an error item is either a decode error on exactly those bytes or an I/O error (nothing lost)   [C13]
            &&& (r matches Poll::Ready(Some(Err(_))) ==>
                    (if n.flags.eof { U::dec_eof(o.codec, o.buf_after(m)).0 } else { U::dec(o.codec, o.buf_after(m)).0 }) is Error
                    || (n.read_buf@ == o.buf_after(m) && n.codec == o.codec))
        } })
}

impl<T, U> Framed<T, U> {

//@extract file=actix-codec/src/framed.rs item="impl<T, U> Framed<T, U> / fn next_item" ret=r props=C13,C14 unproject
//@spec
    requires
        old(self).rd_wf(),
        need_more_is_noop::<U>(),
    ensures
        rd_post(*old(self), *final(self), r),   // [C13]
        r is Pending ==> final(self).io.r_parked(),   // [C13] Pending only when the transport said Pending (and holds the waker)
//@insert before="loop {"
        let ghost mut m: int = 0;
        let ghost r0 = self.io.remaining();
        let ghost b0 = self.read_buf@;
        proof { assert(b0 + r0.subrange(0, 0) =~= b0); assert(r0.subrange(0, r0.len() as int) =~= r0); }
//@insert loop_end=1
            // (hint phrased over the state, not over the name of the local that holds the byte count: `c` bytes were read)
            proof {
                let c = (r0.len() - m) - self.io.remaining().len();
                assert(r0.subrange(0, m) + r0.subrange(m, r0.len() as int).subrange(0, c) =~= r0.subrange(0, m + c));
                assert(r0.subrange(m, r0.len() as int).subrange(c, r0.len() - m) =~= r0.subrange(m + c, r0.len() as int));
                assert(b0 + r0.subrange(0, m) + r0.subrange(m, r0.len() as int).subrange(0, c) =~= b0 + r0.subrange(0, m + c));
                m = m + c;
            }
//@loop 1
        invariant
            r0 == old(self).io.remaining() && b0 == old(self).read_buf@,
            need_more_is_noop::<U>(),
            0 <= m <= r0.len(),
            self.io.remaining() == r0.subrange(m, r0.len() as int),
            self.read_buf@ == b0 + r0.subrange(0, m),
            self.codec == old(self).codec,
            self.write_buf == old(self).write_buf,
            self.rd_wf(),
        decreases r0.len() - m, (if self.flags.eof { 0int } else { 2int }) + (if self.flags.readable { 1int } else { 0int }),
//@end
}

/// the bytes of the stream that no frame has consumed yet: what is buffered followed by what is still to arrive
pub open spec fn unconsumed<T: AsyncRead, U: Decoder>(x: Framed<T, U>) -> Seq<u8> { x.read_buf@ + x.io.remaining() }

//@lemma lemma_poll_is_chunking_independent props=C13
/// C13: for a codec whose decisions are prefix-stable, the outcome of a poll is a function of the codec state and of
/// the WHOLE unconsumed stream only — not of how many bytes happened to have arrived (m), i.e. not of the chunking or
/// of where Pending was interleaved: a frame is the first frame of the whole unconsumed stream and what stays
/// unconsumed is exactly what the codec leaves of it; Pending changes nothing; the stream ends only when decode_eof
/// has nothing more.  By induction over polls the frame sequence equals that of decoding the whole stream at once.
pub proof fn lemma_poll_is_chunking_independent<T: AsyncRead, U: Decoder>(o: Framed<T, U>, n: Framed<T, U>,
        r: Poll<Option<Result<U::Item, U::Error>>>)
    requires o.rd_wf(), rd_post(o, n, r), need_more_is_noop::<U>(), frame_is_prefix_stable::<U>(),
    ensures
        r is Pending ==> unconsumed(n) == unconsumed(o) && n.codec == o.codec,
        r matches Poll::Ready(Some(Ok(f))) ==> (!n.flags.eof ==> U::dec(o.codec, unconsumed(o)) == (Dec::Frame(f), unconsumed(n), n.codec)),
        r matches Poll::Ready(Some(Ok(f))) ==> (n.flags.eof ==> U::dec_eof(o.codec, unconsumed(o)) == (Dec::Frame(f), unconsumed(n), n.codec)),
        r matches Poll::Ready(None) ==> U::dec_eof(o.codec, unconsumed(o)).0 is NeedMore && n.io.remaining().len() == 0,
{
    let rem = o.io.remaining();
    let m = rem.len() - n.io.remaining().len();
    let b = o.buf_after(m);
    let t = rem.subrange(m, rem.len() as int);
    assert(b + t =~= unconsumed(o)) by { assert(rem.subrange(0, m) + t =~= rem); }
    if n.flags.eof {
        assert(n.io.remaining().len() == 0);
        assert(t =~= Seq::<u8>::empty());
        assert(b =~= unconsumed(o));
        assert(unconsumed(n) =~= n.read_buf@);
    } else {
        match r {
            Poll::Ready(Some(Ok(f))) => {
                assert(U::dec(o.codec, b).0 is Frame);
                assert(U::dec(o.codec, b + t) == (U::dec(o.codec, b).0, U::dec(o.codec, b).1 + t, U::dec(o.codec, b).2));
            }
            _ => {}
        }
    }
}
//@end

/// futures_core::Stream (signature only)
pub trait Stream: Sized {
    type Item;
    spec fn stream_wf(&self) -> bool;
    fn poll_next(&mut self, cx: &mut Context<'_>) -> Poll<Option<Self::Item>>
        requires old(self).stream_wf();
}

impl<T, U> Stream for Framed<T, U>
where
    T: AsyncRead,
    U: Decoder,
{
    type Item = Result<U::Item, U::Error>;
    open spec fn stream_wf(&self) -> bool { self.rd_wf() && need_more_is_noop::<U>() }

//@extract file=actix-codec/src/framed.rs item="impl<T, U> Stream for Framed<T, U> / fn poll_next" ret=r props=C13,C14
//@spec
    ensures
        rd_post(*old(self), *final(self), r),   // [C13]
        r is Pending ==> final(self).io.r_parked(),   // [C13] Pending only when the transport said Pending (and holds the waker)
//@end
}

/// futures_sink::Sink (signatures only; the contracts are on the impl below)
pub trait Sink<I>: Sized {
    type Error;
    fn poll_ready(&mut self, cx: &mut Context<'_>) -> Poll<Result<(), Self::Error>>;
    fn start_send(&mut self, item: I) -> Result<(), Self::Error>;
    fn poll_flush(&mut self, cx: &mut Context<'_>) -> Poll<Result<(), Self::Error>>;
    fn poll_close(&mut self, cx: &mut Context<'_>) -> Poll<Result<(), Self::Error>>;
}

impl<T, U, I> Sink<I> for Framed<T, U>
where
    T: AsyncWrite,
    U: Encoder<I>,
{
    type Error = U::Error;

//@extract file=actix-codec/src/framed.rs item="impl<T, U, I> Sink<I> for Framed<T, U> / fn poll_ready" ret=r props=C14,C13
//@spec
    ensures
        // below the high-water mark: ready at once, without touching the transport   [C14]
        old(self).write_buf@.len() < HW ==> (r matches Poll::Ready(Ok(_))) && *final(self) == *old(self),
        // at or above it: ready only through a complete flush (back-pressure)   [C14]
        old(self).write_buf@.len() >= HW && (r matches Poll::Ready(Ok(_))) ==> final(self).write_buf@.len() == 0,
        r is Pending ==> final(self).io.w_parked(),   // [C14]
        final(self).io.written() + final(self).write_buf@ == old(self).io.written() + old(self).write_buf@,
//@end

//@extract file=actix-codec/src/framed.rs item="impl<T, U, I> Sink<I> for Framed<T, U> / fn start_send" ret=r props=C14,C13
//@spec
    ensures
        r is Ok ==> final(self).write_buf@ == old(self).write_buf@ + U::enc(item),   // [C14]
        old(self).write_buf@.is_prefix_of(final(self).write_buf@),   // [C14] a rejected item never costs an accepted one
        final(self).io == old(self).io,
        final(self).read_buf == old(self).read_buf && final(self).flags == old(self).flags,
//@end

//@extract file=actix-codec/src/framed.rs item="impl<T, U, I> Sink<I> for Framed<T, U> / fn poll_flush" ret=r props=C14,C13
//@spec
    ensures
        final(self).io.written() + final(self).write_buf@ == old(self).io.written() + old(self).write_buf@,   // [C14]
        r matches Poll::Ready(Ok(_)) ==> final(self).write_buf@.len() == 0 && final(self).io.flushed(),   // [C14]
        final(self).io.zero_writes() > old(self).io.zero_writes() ==> r matches Poll::Ready(Err(_)),   // [C14]
        r is Pending ==> final(self).io.w_parked(),   // [C14] Pending only when the transport said Pending (and holds the waker)
//@end

//@extract file=actix-codec/src/framed.rs item="impl<T, U, I> Sink<I> for Framed<T, U> / fn poll_close" ret=r props=C14,C13
//@spec
    ensures
        final(self).io.written() + final(self).write_buf@ == old(self).io.written() + old(self).write_buf@,   // [C14]
        r matches Poll::Ready(Ok(_)) ==> final(self).write_buf@.len() == 0 && final(self).io.is_shutdown(),   // [C14]
        r is Pending ==> final(self).io.w_parked(),   // [C14]
//@end
}


// ===================================================================== construction and conversion: no byte appears or disappears (C13, C14)
//@check_struct file=actix-codec/src/framed.rs name=FramedParts fields=io,codec,read_buf,write_buf,flags
pub struct FramedParts<T, U> { pub io: T, pub codec: U, pub read_buf: BytesMut, pub write_buf: BytesMut, pub flags: Flags }
impl<T, U> Framed<T, U> {
    /// a fresh transport: nothing buffered, decoder neither readable nor at EOF
    pub open spec fn fresh(&self) -> bool {
        self.read_buf@.len() == 0 && self.write_buf@.len() == 0 && self.flags.no_flags()
    }
    /// the same buffered bytes and decoder flags
    pub open spec fn same_buffers<T2, U2>(&self, o: &Framed<T2, U2>) -> bool {
        self.read_buf@ == o.read_buf@ && self.write_buf@ == o.write_buf@ && self.flags == o.flags
    }
//@extract file=actix-codec/src/framed.rs item="impl<T, U> Framed<T, U> / fn new" ret=r props=C13,C14 name=framed::new sig_replace="pub fn new(io: T, codec: U)=>pub fn new_(io: T, codec: U)"
//@spec
    ensures r.fresh(), r.io == io, r.codec == codec,   // [C13,C14]
//@end
//@extract file=actix-codec/src/framed.rs item="impl<T, U> Framed<T, U> / fn codec_ref" ret=r props=C13,C14 name=framed::codec_ref
//@spec
    ensures *r == self.codec,
//@end
//@extract file=actix-codec/src/framed.rs item="impl<T, U> Framed<T, U> / fn codec_mut" ret=r props=C13,C14 name=framed::codec_mut
//@spec
    // the borrow reaches the codec only: the transport, both buffers and the flags are out of its reach   [C13,C14]
    ensures *r == old(self).codec, final(self).codec == *final(r), final(self).io == old(self).io, final(self).same_buffers(&old(self)),
//@end
//@extract file=actix-codec/src/framed.rs item="impl<T, U> Framed<T, U> / fn io_ref" ret=r props=C13,C14 name=framed::io_ref
//@spec
    ensures *r == self.io,
//@end
//@extract file=actix-codec/src/framed.rs item="impl<T, U> Framed<T, U> / fn io_mut" ret=r props=C13,C14 name=framed::io_mut
//@spec
    // the borrow reaches the transport only   [C13,C14]
    ensures *r == old(self).io, final(self).io == *final(r), final(self).codec == old(self).codec, final(self).same_buffers(&old(self)),
//@end
//@extract file=actix-codec/src/framed.rs item="impl<T, U> Framed<T, U> / fn io_pin" ret=r props=C13,C14 name=framed::io_pin sig_replace="Pin<&mut T>=>&mut T"
//@replace pattern="self.project().io" rule=R4d
&mut self.io
//@spec
    ensures *r == old(self).io, final(self).io == *final(r), final(self).codec == old(self).codec, final(self).same_buffers(&old(self)),
//@end
//@extract file=actix-codec/src/framed.rs item="impl<T, U> Framed<T, U> / fn is_read_buf_empty" ret=r props=C13,C14 name=framed::is_read_buf_empty
//@spec
    ensures r == (self.read_buf@.len() == 0),
//@end
//@extract file=actix-codec/src/framed.rs item="impl<T, U> Framed<T, U> / fn is_write_buf_empty" ret=r props=C14,C13 name=framed::is_write_buf_empty
//@spec
    ensures r == (self.write_buf@.len() == 0),
//@end
//@extract file=actix-codec/src/framed.rs item="impl<T, U> Framed<T, U> / fn is_write_buf_full" ret=r props=C14,C13 name=framed::is_write_buf_full
//@spec
    ensures r == (self.write_buf@.len() >= HW),
//@end
//@extract file=actix-codec/src/framed.rs item="impl<T, U> Framed<T, U> / fn replace_codec" ret=r props=C13,C14 name=framed::replace_codec
//@spec
    ensures r.same_buffers(&self), r.io == self.io, r.codec == codec,   // [C13,C14] buffered bytes survive a codec change
//@end
//@extract file=actix-codec/src/framed.rs item="impl<T, U> Framed<T, U> / fn into_map_io" ret=r props=C13,C14 name=framed::into_map_io
//@spec
    requires call_requires(f, (self.io,)),
    ensures r.same_buffers(&self), r.codec == self.codec, call_ensures(f, (self.io,), r.io),   // [C13,C14]
//@end
//@extract file=actix-codec/src/framed.rs item="impl<T, U> Framed<T, U> / fn into_map_codec" ret=r props=C13,C14 name=framed::into_map_codec
//@spec
    requires call_requires(f, (self.codec,)),
    ensures r.same_buffers(&self), r.io == self.io, call_ensures(f, (self.codec,), r.codec),   // [C13,C14]
//@end
//@extract file=actix-codec/src/framed.rs item="impl<T, U> Framed<T, U> / fn from_parts" ret=r props=C13,C14 name=framed::from_parts
//@spec
    ensures r.read_buf@ == parts.read_buf@, r.write_buf@ == parts.write_buf@, r.flags == parts.flags, r.io == parts.io, r.codec == parts.codec,   // [C13,C14]
//@end
//@extract file=actix-codec/src/framed.rs item="impl<T, U> Framed<T, U> / fn into_parts" ret=r props=C13,C14 name=framed::into_parts
//@spec
    ensures r.read_buf@ == self.read_buf@, r.write_buf@ == self.write_buf@, r.flags == self.flags, r.io == self.io, r.codec == self.codec,   // [C13,C14]
//@end
}
impl<T, U> FramedParts<T, U> {
//@extract file=actix-codec/src/framed.rs item="impl<T, U> FramedParts<T, U> / fn new" ret=r props=C13,C14 name=framed::parts_new
//@spec
    ensures r.read_buf@.len() == 0, r.write_buf@.len() == 0, r.flags.no_flags(), r.io == io, r.codec == codec,
//@end
//@extract file=actix-codec/src/framed.rs item="impl<T, U> FramedParts<T, U> / fn with_read_buf" ret=r props=C13,C14 name=framed::parts_with_read_buf
//@spec
    ensures r.read_buf@ == read_buf@, r.write_buf@.len() == 0, r.flags.no_flags(), r.io == io, r.codec == codec,   // [C13] prefilled bytes are decoded first
//@end
}

} // verus!
fn main() {}
