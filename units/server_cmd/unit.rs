// unit server_cmd: the server's command loop (actix-server/src/server.rs) — ASYNC fns, extracted as they are
// (Verus verifies `async fn` bodies and `.await`, vstd::future).  Properties: C06 (stop protocol), C08 (replacement
// of a faulted worker), C05 (pause/resume reach the accept thread).
use vstd::prelude::*;
use vstd::future::*;
use core::task::Poll;
use core::future::Future;
verus! {
//@include ../common/core.rs
//@include ../common/poll.rs
//@include ../common/sync.rs

// ===================================================================== stand-ins (TRUSTED BASE)
/// what a function has waited for (R21 trace)
pub enum AwaitTag { WorkerAcks, Sleep, Other }
pub uninterp spec fn vawait_tag<T>(f: &T) -> AwaitTag;

/// tokio oneshot channel ends.  `chan()` identifies the channel; a Sender is linear (not Clone), so a channel carries
/// at most one message.
pub mod oneshot {
    use super::*;
    #[verifier::external_body]
    #[verifier::reject_recursive_types(T)]
    pub struct Sender<T> { _p: core::marker::PhantomData<T> }
    #[verifier::external_body]
    #[verifier::reject_recursive_types(T)]
    pub struct Receiver<T> { _p: core::marker::PhantomData<T> }
    impl<T> Sender<T> {
        pub uninterp spec fn chan(&self) -> int;
        #[verifier::external_body]
        pub fn send(self, v: T) -> (r: Result<(), T>) { unimplemented!() }
    }
    impl<T> Receiver<T> { pub uninterp spec fn chan(&self) -> int; }
    #[verifier::external_body]
    pub fn channel<T>() -> (r: (Sender<T>, Receiver<T>))
        ensures r.0.chan() == r.1.chan(),
    { unimplemented!() }
}

/// worker.rs `Stop`
//@extract_type file=actix-server/src/worker.rs item="struct Stop"

//@once send, start
/// PROPHECY names for the effect of sending a `Stop` message through `&self`: the mode requested in the message that
/// carries the reply sender of channel `chan`, and the worker queue it was put on.  Each reply channel is used for one
/// message (Sender is linear), so each name is assigned at most once.
pub uninterp spec fn stop_mode_of(chan: int) -> bool;
pub uninterp spec fn stop_queue_of(chan: int) -> int;

#[verifier::external_body]
#[verifier::reject_recursive_types(T)]
pub struct UnboundedSender<T> { _p: core::marker::PhantomData<T> }
impl<T> UnboundedSender<T> { pub uninterp spec fn id(&self) -> int; }
impl UnboundedSender<Stop> {
    #[verifier::external_body]
    pub fn send(&self, s: Stop) -> (r: Result<(), Stop>)
        ensures stop_mode_of(s.tx.chan()) == s.graceful, stop_queue_of(s.tx.chan()) == self.id(),
    { unimplemented!() }
}
impl<T> UnboundedSender<T> {
    /// `sent_in_call()`: the message this sender transmits during the verified call — a prophecy-style name for an
    /// effect made through `&self`; meaningful for AT MOST ONE send per sender per verified function (a second send
    /// would make the function's contract vacuous: caught by its must-fail reachability copy)
    pub uninterp spec fn sent_in_call(&self) -> Option<T>;
}
#[verifier::external_body]
pub struct Conn { _p: () }
#[verifier::external_body]
pub struct Counter { _p: () }

//@extract_type file=actix-server/src/worker.rs item="struct WorkerHandleServer"
//@extract_type file=actix-server/src/worker.rs item="struct WorkerHandleAccept"

//@extract file=actix-server/src/worker.rs item="fn handle_pair" ret=r props=C08 name=worker::handle_pair
//@spec
    ensures
        // both ends of a worker's handle pair carry the worker's index   [C08]
        r.0.idx == idx && r.1.idx == idx, r.1.stop_tx == stop_tx, r.0.conn_tx == conn_tx,
//@end

impl WorkerHandleServer {
//@extract file=actix-server/src/worker.rs item="impl WorkerHandleServer / fn stop" ret=r props=C06 name=worker::WorkerHandleServer::stop
//@spec
    ensures
        // the worker is sent a Stop carrying the requested mode; the returned receiver is the reply end of that message   [C06]
        stop_mode_of(r.chan()) == graceful, stop_queue_of(r.chan()) == self.stop_tx.id(),
//@end
}

/// waker_queue.rs
//@extract_type file=actix-server/src/waker_queue.rs item="enum WakerInterest"
/// WakerQueue: an MPSC queue to the accept thread.  RECEIVER STRENGTHENING: `wake` takes `&self` in the real code; every
/// call site in this unit has a `&mut` path (`self.waker_queue`), so the stub records the interests sent through this handle.
#[verifier::external_body]
pub struct WakerQueue { _p: () }
impl WakerQueue {
    pub uninterp spec fn sent(&self) -> Seq<WakerInterest>;
    #[verifier::external_body]
    pub fn wake(&mut self, interest: WakerInterest)
        ensures final(self).sent() == old(self).sent().push(interest),
    { unimplemented!() }
}
impl Clone for WakerQueue {
    #[verifier::external_body]
    fn clone(&self) -> (r: WakerQueue) { unimplemented!() }
}

#[verifier::external_body]
#[derive(Clone, Copy)]
pub struct ServerWorkerConfig { _p: () }
impl ServerWorkerConfig {
    /// `impl Default for ServerWorkerConfig` (unit worker_handles): SOME configuration — not the builder's
    #[verifier::external_body]
    pub fn default() -> (r: ServerWorkerConfig) { unimplemented!() }
}
#[verifier::external_body]
pub struct BoxedFactory { _p: () }
impl BoxedFactory {
    #[verifier::external_body]
    pub fn clone_factory(&self) -> (r: BoxedFactory) { unimplemented!() }
}
pub struct ServerWorker { _p: () }
impl ServerWorker {
    /// ServerWorker::start (worker.rs; spawns the worker thread — not under contract): ASSUMED to return
    /// `handle_pair(idx, ..)` (proved above to carry `idx` on both ends)
    #[verifier::external_body]
    pub fn start(idx: usize, factories: Vec<BoxedFactory>, waker_queue: WakerQueue, config: ServerWorkerConfig)
        -> (r: Result<(WorkerHandleAccept, WorkerHandleServer), IoError>)
        ensures r matches Ok(p) ==> p.0.idx == idx && p.1.idx == idx && p.1.stop_tx.id() == started_stop_queue(idx), (r is Ok) == start_succeeds(idx),
            start_config(idx) == config, start_nfactories(idx) == factories@.len(),
    { unimplemented!() }
}
/// PROPHECY name: the stop queue of the worker that the (one) ServerWorker::start of `idx` made during the call starts
pub uninterp spec fn started_stop_queue(idx: usize) -> int;
/// PROPHECY names: the configuration / the number of service factories the (one) ServerWorker::start of worker `idx`
/// made during the verified call is given
pub uninterp spec fn start_config(idx: usize) -> ServerWorkerConfig;
pub uninterp spec fn start_nfactories(idx: usize) -> nat;
/// PROPHECY name: whether the (one) ServerWorker::start of worker `idx` made during the verified call succeeds
pub uninterp spec fn start_succeeds(idx: usize) -> bool;

/// std::thread::JoinHandle<()> of the accept thread.  `exited(id)`: the thread has terminated — only `join` establishes it.
pub uninterp spec fn exited(id: int) -> bool;
#[verifier::external_body]
#[derive(Debug)]
pub struct AnyBox { _p: () }
pub mod thread {
    use super::*;
    #[verifier::external_body]
    #[verifier::reject_recursive_types(T)]
    pub struct JoinHandle<T> { _p: core::marker::PhantomData<T> }
    impl<T> JoinHandle<T> {
        pub uninterp spec fn id(&self) -> int;
        /// ASSUMPTION A-ACCEPT-NOPANIC: the accept thread does not panic (unit `accept` proves its loop free of
        /// unintended panics, C08), so `join` returns Ok
        #[verifier::external_body]
        pub fn join(self) -> (r: Result<T, AnyBox>)
            ensures exited(self.id()), r is Ok,
        { unimplemented!() }
    }
}

/// join_all.rs `join_all` (its future, JoinAll::poll, is under contract in unit server_misc): resolves when every
/// reply has arrived.  Its PRECONDITION is the property: only the replies to a GRACEFUL stop may be waited for   [C06]
#[verifier::external_body]
pub struct JoinAll { _p: () }
#[verifier::external]
impl Future for JoinAll {
    type Output = Vec<Result<bool, ()>>;
    fn poll(self: core::pin::Pin<&mut Self>, cx: &mut core::task::Context<'_>) -> Poll<Self::Output> { unimplemented!() }
}
#[verifier::external_body]
pub fn join_all(fut: Vec<oneshot::Receiver<bool>>) -> (r: JoinAll)
    requires forall|i: int| 0 <= i < fut@.len() ==> stop_mode_of((#[trigger] fut@[i]).chan()),   // [C06]
    ensures vawait_tag(&r) == AwaitTag::WorkerAcks,
{ unimplemented!() }

#[verifier::external_body]
pub struct Sleep { _p: () }
#[verifier::external]
impl Future for Sleep {
    type Output = ();
    fn poll(self: core::pin::Pin<&mut Self>, cx: &mut core::task::Context<'_>) -> Poll<()> { unimplemented!() }
}
#[verifier::external_body]
pub fn sleep(d: Duration) -> (r: Sleep)
    ensures vawait_tag(&r) == AwaitTag::Sleep,
{ unimplemented!() }

#[verifier::external_body]
pub struct System { _p: () }
impl System {
    #[verifier::external_body]
    pub fn try_current() -> (r: Option<System>) { unimplemented!() }
    #[verifier::external_body]
    pub fn stop(&self) { unimplemented!() }
}

//@check_enum file=actix-server/src/server.rs name=ServerCommand variants=WorkerFaulted,Pause,Resume,Stop
pub enum ServerCommand {
    WorkerFaulted(usize),
    Pause(oneshot::Sender<()>),
    Resume(oneshot::Sender<()>),
    Stop { graceful: bool, completion: Option<oneshot::Sender<()>>, force_system_stop: bool },
}

impl UnboundedSender<ServerCommand> {
    #[verifier::external_body]
    pub fn send(&self, c: ServerCommand) -> (r: Result<(), ServerCommand>)
        ensures self.sent_in_call() == Some(c),
    { unimplemented!() }
}
/// R11b: the `async { let _ = rx.await; }` block a handle method returns (not verified: it only waits for the reply)
#[verifier::external_body]
pub struct AsyncBlock { _p: () }
#[verifier::external]
impl Future for AsyncBlock {
    type Output = ();
    fn poll(self: core::pin::Pin<&mut Self>, cx: &mut core::task::Context<'_>) -> Poll<()> { unimplemented!() }
}
#[verifier::external_body]
pub fn vasync_block() -> (r: AsyncBlock) { unimplemented!() }

// ===================================================================== handle.rs: commands are sent EAGERLY
//@extract_type file=actix-server/src/handle.rs item="struct ServerHandle"
impl ServerHandle {
//@extract file=actix-server/src/handle.rs item="impl ServerHandle / fn new" ret=r props=C06 name=handle::new
//@spec
    ensures r.cmd_tx == cmd_tx,
//@end
//@extract file=actix-server/src/handle.rs item="impl ServerHandle / fn worker_faulted" props=C08 name=handle::worker_faulted
//@spec
    requires true,
    ensures self.cmd_tx.sent_in_call() == Some(ServerCommand::WorkerFaulted(idx)),   // [C08] the server is told which index died
//@end
//@extract file=actix-server/src/handle.rs item="impl ServerHandle / fn pause" ret=r props=C05 name=handle::pause
//@spec
    requires true,
    // the command is on its way when `pause()` returns, whether or not the returned future is ever polled   [C05]
    ensures self.cmd_tx.sent_in_call() is Some && self.cmd_tx.sent_in_call()->Some_0 is Pause,
//@end
//@extract file=actix-server/src/handle.rs item="impl ServerHandle / fn resume" ret=r props=C05 name=handle::resume
//@spec
    requires true,
    ensures self.cmd_tx.sent_in_call() is Some && self.cmd_tx.sent_in_call()->Some_0 is Resume,   // [C05]
//@end
//@extract file=actix-server/src/handle.rs item="impl ServerHandle / fn stop" ret=r props=C06 name=handle::stop
//@spec
    requires true,
    ensures
        // the Stop command carries the requested mode and a completion channel, does not force a System stop, and is
        // sent when `stop()` is called: dropping the returned future unpolled does not cancel the stop   [C06]
        self.cmd_tx.sent_in_call() matches Some(ServerCommand::Stop { graceful: g, completion, force_system_stop })
            && g == graceful && completion is Some && !force_system_stop,
//@end
}

/// server.rs ServerInner: re-declared with the stand-in field types; field names are checked against the real struct
//@check_struct file=actix-server/src/server.rs name=ServerInner fields=worker_handles,accept_handle,worker_config,services,waker_queue,system_stop,stopping
pub struct ServerInner {
    pub worker_handles: Vec<WorkerHandleServer>,
    pub accept_handle: Option<thread::JoinHandle<()>>,
    pub worker_config: ServerWorkerConfig,
    pub services: Vec<BoxedFactory>,
    pub waker_queue: WakerQueue,
    pub system_stop: bool,
    pub stopping: bool,
}

/// signals.rs
#[derive(Clone, Copy, PartialEq, Eq, Structural)]
//@extract_type file=actix-server/src/signals.rs item="enum SignalKind"
/// signals.rs Signals (a future over the OS signal streams; not under contract).  PROPHECY name `next_poll`: what the
/// next poll of this future returns
#[verifier::external_body]
pub struct Signals { _p: () }
impl Signals {
    pub uninterp spec fn next_poll(&self) -> Poll<SignalKind>;
    #[verifier::external_body]
    pub fn poll(&mut self, cx: &mut Context<'_>) -> (r: Poll<SignalKind>)
        ensures r == old(self).next_poll(),
    { unimplemented!() }
}
/// tokio mpsc UnboundedReceiver: `next_recv` is what the next poll_recv returns (prophecy name)
#[verifier::external_body]
#[verifier::reject_recursive_types(T)]
pub struct UnboundedReceiver<T> { _p: core::marker::PhantomData<T> }
impl<T> UnboundedReceiver<T> {
    pub uninterp spec fn next_recv(&self) -> Poll<Option<T>>;
    #[verifier::external_body]
    pub fn poll_recv(&mut self, cx: &mut Context<'_>) -> (r: Poll<Option<T>>)
        ensures r == old(self).next_recv(),
    { unimplemented!() }
    /// tokio UnboundedReceiver::close: no further sends are accepted; what is already queued can still be received
    /// (nothing is said about what the next receive returns)
    #[verifier::external_body]
    pub fn close(&mut self) { unimplemented!() }
}
pub struct Pin { }
impl Pin {
    /// Pin::new(&mut x) for an Unpin future: the identity
    pub fn new<T>(t: T) -> (r: T) ensures r == t { t }
}

pub open spec fn ready_val(p: Poll<SignalKind>) -> SignalKind { match p { Poll::Ready(k) => k, Poll::Pending => SignalKind::Int } }
//@check_struct file=actix-server/src/server.rs name=ServerEventMultiplexer fields=cmd_rx,signal_fut
pub struct ServerEventMultiplexer {
    pub cmd_rx: UnboundedReceiver<ServerCommand>,
    pub signal_fut: Option<Signals>,
}
impl ServerEventMultiplexer {
//@extract file=actix-server/src/server.rs item="impl Stream for ServerEventMultiplexer / fn poll_next" ret=r props=C06 name=server::mux_poll_next alias_this
//@spec
    ensures
        // a signal that has fired becomes the stop command of its kind (map_signal), and the signal future is dropped:
        // it is never polled again   [C06]
        (old(self).signal_fut matches Some(s) && s.next_poll() is Ready) ==> (
            final(self).signal_fut is None && final(self).cmd_rx == old(self).cmd_rx
            && (r matches Poll::Ready(Some(ServerCommand::Stop { graceful, completion, force_system_stop }))
                && graceful == (ready_val(old(self).signal_fut->Some_0.next_poll()) is Term) && completion is None && force_system_stop)),
        // otherwise the next queued command (or Pending / end of stream) is passed through unchanged
        !(old(self).signal_fut matches Some(s) && s.next_poll() is Ready) ==> r == old(self).cmd_rx.next_recv()
            && (final(self).signal_fut is Some <==> old(self).signal_fut is Some),
//@end

    /// futures_util StreamExt::next (polls poll_next until it is Ready; not under contract).
    /// ASSUMPTION A-FAULT-IDX: a WorkerFaulted(idx) command names a worker the server has started
    #[verifier::external_body]
    pub async fn next(&mut self) -> (r: Option<ServerCommand>)
        ensures r matches Some(ServerCommand::WorkerFaulted(i)) ==> known_idx(i),
    { unimplemented!() }
}
/// socket.rs MioListener: `id()` = the token it was bound under
#[verifier::external_body]
pub struct MioListener { _p: () }
impl MioListener { pub uninterp spec fn id(&self) -> int; }
pub uninterp spec fn n_listeners() -> nat;
#[verifier::external_body]
pub struct String { _p: () }
/// builder.rs ServerBuilder: the fields run_sync reads (all field names are checked in unit server_misc)
pub struct ServerBuilder {
    pub threads: usize,
    pub factories: Vec<BoxedFactory>,
    pub sockets: Vec<(usize, String, MioListener)>,
    pub exit: bool,
    pub listen_os_signals: bool,
    pub cmd_tx: UnboundedSender<ServerCommand>,
    pub cmd_rx: UnboundedReceiver<ServerCommand>,
    pub worker_config: ServerWorkerConfig,
}
impl<T> Clone for UnboundedSender<T> { #[verifier::external_body] fn clone(&self) -> (r: Self) ensures r.id() == self.id() { unimplemented!() } }
//@assumes unit=server_misc fns=builder::new,builder::bind,builder::listen,builder::listen_uds,builder::bind_uds,builder::next_token,builder::workers,builder::run,builder::default
impl ServerBuilder {
    /// what the ServerBuilder guarantees when the server is run (unit server_misc: `wf`): listener k carries token k and
    /// was bound under it; at most 512 workers (more make `Availability` panic: documented)
    pub open spec fn ready(&self) -> bool {
        &&& self.sockets@.len() == n_listeners()
        &&& forall|k: int| 0 <= k < self.sockets@.len() ==> (#[trigger] self.sockets@[k]).0 == k && self.sockets@[k].2.id() == k
        &&& self.threads <= 512 && self.threads == worker_count()
    }
}
pub struct Accept { }
impl Accept {
    /// accept.rs Accept::start (contract proved in unit accept)
    #[verifier::external_body]
    pub fn start(sockets: Vec<(usize, MioListener)>, builder: &ServerBuilder)
        -> (r: io::Result<(WakerQueue, Vec<WorkerHandleServer>, thread::JoinHandle<()>)>)
        requires sockets@.len() == n_listeners(),
            forall|k: int| 0 <= k < sockets@.len() ==> (#[trigger] sockets@[k]).0 == k && sockets@[k].1.id() == k,
            builder.threads <= 512,
        ensures r matches Ok(p) ==> p.1@.len() == builder.threads && forall|i: int| 0 <= i < p.1@.len() ==> (#[trigger] p.1@[i]).idx == i,
    { unimplemented!() }
}
impl Signals { #[verifier::external_body] pub fn new() -> (r: Signals) { unimplemented!() } }
pub mod actix_rt2 { }
pub struct TokioHandle { }
pub mod tokio { pub mod runtime {
    use vstd::prelude::*;
    pub struct Handle { }
    #[verifier::external_body] pub struct TryCurrentError { _p: () }
    impl Handle { #[verifier::external_body] pub fn try_current() -> (r: Result<Handle, TryCurrentError>) { unimplemented!() } }
} }
pub mod mem {
    use vstd::prelude::*;
    #[verifier::external_body]
    pub fn take<T>(v: &mut Vec<T>) -> (r: Vec<T>) ensures r@ == old(v)@, final(v)@.len() == 0 { unimplemented!() }
}
#[verifier::external_body]
pub fn vec_take_first<T>(v: &mut Vec<T>) -> (r: T)
    requires old(v)@.len() > 0,
    ensures r == old(v)@[0], final(v)@ == old(v)@.subrange(1, old(v)@.len() as int),
{ unimplemented!() }

/// ASSUMPTION A-FAULT-IDX: a WorkerFaulted(idx) command names a worker the server has started (the accept thread sends
/// the `idx` of a handle it holds, unit accept: `srv.faulted()`); `known_idx` is that set
/// `worker_count()`: the number of workers the server was started with (a ghost constant of the server)
pub uninterp spec fn worker_count() -> usize;
pub open spec fn known_idx(i: usize) -> bool { i < worker_count() }

impl ServerInner {
    /// until the stop command has been handled the accept thread's join handle is there
    pub open spec fn wf(&self) -> bool {
        &&& !self.stopping ==> self.accept_handle is Some
        &&& forall|i: usize| known_idx(i) ==> self.idxs().contains(i)
    }
    pub open spec fn idxs(&self) -> Seq<usize> { self.worker_handles@.map_values(|h: WorkerHandleServer| h.idx) }

//@extract file=actix-server/src/server.rs item="impl ServerInner / fn map_signal" ret=r props=C06 name=server::map_signal
//@spec
    ensures
        // SIGTERM is a graceful stop, SIGINT and SIGQUIT are forced; all of them also stop the System   [C06]
        r matches ServerCommand::Stop { graceful, completion, force_system_stop }
            && graceful == (signal is Term) && completion is None && force_system_stop,
//@end

//@extract file=actix-server/src/server.rs item="impl ServerInner / fn run_sync" ret=r props=C01,C06,C08 name=server::run_sync intended_panics closure_ty="(usize, MioListener)"
//@replace pattern="for (_, name, lst) in &builder.sockets { }" rule=R1
//@replace pattern="actix_rt::System::try_current()" rule=R15
System::try_current()
//@replace pattern="let mut r9_out = Vec::new();" rule=R9q
let mut r9_out: Vec<(usize, MioListener)> = Vec::new();
//@spec
    requires builder.ready(),
    ensures
        // the command loop starts with the accept thread's join handle, not stopping, one handle per worker index,
        // system-stop as configured   [C06,C08]
        r matches Ok(p) ==> p.0.wf() && !p.0.stopping && p.0.system_stop == builder.exit,
        r matches Ok(p) ==> (p.1.signal_fut is Some) == builder.listen_os_signals,   // [C06] signals are listened to unless disabled
        // what a restart will use is what the builder was configured with: the worker configuration (shutdown timeout,
        // connection limit) and every service factory   [C06,C08]
        r matches Ok(p) ==> p.0.worker_config == builder.worker_config && p.0.services@ == builder.factories@,   // [C06,C08]
//@loop head="while r9_q.len() > 0"
        invariant
            r9_out@.len() + r9_q@.len() == all.len(), r9_q@ == all.subrange(r9_out@.len() as int, all.len() as int),
            forall|k: int| 0 <= k < all.len() ==> (#[trigger] all[k]).0 == k && all[k].2.id() == k,
            forall|k: int| 0 <= k < r9_out@.len() ==> (#[trigger] r9_out@[k]).0 == k && r9_out@[k].1.id() == k,
        decreases r9_q@.len(),
//@insert before="let sockets = ({"
        let ghost all = builder.sockets@;
//@insert before="let mux"
        proof {
            assert forall|i: usize| known_idx(i) implies worker_handles@.map_values(|h: WorkerHandleServer| h.idx).contains(i) by {
                assert(worker_handles@.map_values(|h: WorkerHandleServer| h.idx)[i as int] == i);
            }
        }
//@end

#[verifier::exec_allows_no_decreases_clause]
//@extract file=actix-server/src/server.rs item="impl ServerInner / fn run" ret=r props=C06 name=server::run
//@spec
    // the command loop: every command is handled in a state that satisfies handle_cmd's precondition -- in particular
    // no command is handled after a Stop (a second stop never reaches `accept_handle.take().unwrap()`), and the
    // future resolves with Ok as soon as a Stop has been handled or every command sender is gone   [C06]
    requires builder.ready(),
    ensures r is Ok ==> true,
//@replace pattern="this.handle_cmd(cmd).await;" rule=R22
this.handle_cmd__awaited(cmd);
//@loop 1
        invariant_except_break this.wf(), !this.stopping,
//@end

#[verifier::exec_allows_no_decreases_clause]
//@extract file=actix-server/src/server.rs item="impl ServerInner / fn handle_cmd" props=C06,C08,C05 name=server::handle_cmd trace_awaits awaited_twin
//@spec
    requires
        old(self).wf(), !old(self).stopping,
        item matches ServerCommand::WorkerFaulted(i) ==> known_idx(i),
    ensures
        // the set of worker indices never changes: a replacement takes the index of the worker it replaces   [C08]
        final(self).idxs() == old(self).idxs(),   // [C08]
        final(self).wf(),   // [C06,C08]
        // pause / resume are forwarded to the accept thread, nothing else happens   [C05]
        item is Pause ==> final(self).waker_queue.sent() == old(self).waker_queue.sent().push(WakerInterest::Pause) && !final(self).stopping,   // [C05]
        item is Resume ==> final(self).waker_queue.sent() == old(self).waker_queue.sent().push(WakerInterest::Resume) && !final(self).stopping,   // [C05]
        // stop: the accept thread is told to stop and has EXITED when this returns; the command loop ends   [C06]
        item is Stop ==> final(self).stopping && final(self).accept_handle is None   // [C06]
            && final(self).waker_queue.sent() == old(self).waker_queue.sent().push(WakerInterest::Stop)
            && exited(old(self).accept_handle->Some_0.id()),
        // a faulted worker: the replacement's accept handle (same index) is sent to the accept thread, or nothing is   [C08]
        item matches ServerCommand::WorkerFaulted(i) ==> !final(self).stopping && (   // [C08]
            if !start_succeeds(i) { final(self).waker_queue.sent() == old(self).waker_queue.sent() }
            else { final(self).waker_queue.sent().len() == old(self).waker_queue.sent().len() + 1
                && final(self).waker_queue.sent().drop_last() == old(self).waker_queue.sent()
                && (final(self).waker_queue.sent().last() matches WakerInterest::Worker(h) && h.idx == i) }),
        // the server's stop handle for that index is now the REPLACEMENT's (a later stop reaches the new worker, not the
        // dead one's closed queue)   [C06,C08]
        item matches ServerCommand::WorkerFaulted(i) ==> start_succeeds(i) ==> exists|k: int| 0 <= k < final(self).worker_handles@.len()   // [C06,C08]
            && (#[trigger] final(self).worker_handles@[k]).idx == i && final(self).worker_handles@[k].stop_tx.id() == started_stop_queue(i),
        // the replacement is started with the server's worker configuration and one factory per service; neither changes   [C06,C08]
        item matches ServerCommand::WorkerFaulted(i) ==> start_config(i) == old(self).worker_config   // [C06,C08]
            && start_nfactories(i) == old(self).services@.len(),
        final(self).worker_config == old(self).worker_config && final(self).services@ == old(self).services@,   // [C08]
//@replace pattern="let mut r9_out = Vec::new(); let mut r9_n: usize = 0; while r9_n < self.worker_handles.len()" rule=R9l
let mut r9_out: Vec<oneshot::Receiver<bool>> = Vec::new(); let mut r9_n: usize = 0; while r9_n < self.worker_handles.len()
//@replace pattern="let mut r9_out = Vec::new(); let mut r9_n: usize = 0; while r9_n < self.services.len()" rule=R9m
let mut r9_out: Vec<BoxedFactory> = Vec::new(); let mut r9_n: usize = 0; while r9_n < self.services.len()
//@loop head="while r9_n < self.worker_handles.len()"
        invariant
            r9_n <= self.worker_handles@.len(), r9_out@.len() == r9_n,
            forall|k: int| 0 <= k < r9_n ==> stop_mode_of((#[trigger] r9_out@[k]).chan()) == graceful   // [C06]
                && stop_queue_of(r9_out@[k].chan()) == self.worker_handles@[k].stop_tx.id(),
        decreases self.worker_handles@.len() - r9_n,
//@insert arm_end="ServerCommand::Stop {"
        // every worker has been sent a Stop with the mode of the command, one reply channel per worker   [C06]
        assert(workers_stop@.len() == self.worker_handles@.len());   // [C06]
        assert(forall|k: int| 0 <= k < workers_stop@.len() ==> stop_mode_of((#[trigger] workers_stop@[k]).chan()) == graceful   // [C06]
            && stop_queue_of(workers_stop@[k].chan()) == self.worker_handles@[k].stop_tx.id());
        // the workers' replies have been waited for if and only if the stop is graceful   [C06]
        assert(graceful ==> r21_trace.contains(AwaitTag::WorkerAcks)) by { if graceful { assert(r21_trace[0] == AwaitTag::WorkerAcks); } }   // [C06]
        assert(!graceful ==> !r21_trace.contains(AwaitTag::WorkerAcks));   // [C06]
//@insert before="if let Some(tx) = completion" alt_before="match completion"
        // ORDER: completion is signalled only after (graceful) every worker has replied / (forced) without having
        // waited for anything, and after the accept thread has exited: nothing is dispatched after completion   [C06]
        assert(graceful ==> r21_trace.contains(AwaitTag::WorkerAcks)) by { if graceful { assert(r21_trace[0] == AwaitTag::WorkerAcks); } }   // [C06]
        assert(!graceful ==> r21_trace.len() == 0);   // [C06]
        assert(exited(old(self).accept_handle->Some_0.id()));   // [C06]
//@insert arm_end="ServerCommand::WorkerFaulted(idx)"
        assert(self.idxs() =~= old(self).idxs());   // [C08]
//@loop head="while r9_k < self.worker_handles.len() && !r9_any"
        invariant
            r9_k <= self.worker_handles@.len(),
            !r9_any ==> forall|k: int| 0 <= k < r9_k ==> (#[trigger] self.worker_handles@[k]).idx != idx,
        decreases self.worker_handles@.len() - r9_k,
//@loop head="while r9_n < self.services.len()"
        invariant r9_n <= self.services@.len(), r9_out@.len() == r9_n,
        decreases self.services@.len() - r9_n,
//@loop head="while r9_k < self.worker_handles.len() && !r9_found" optional
        invariant
            r9_k <= self.worker_handles@.len(),
            r9_found ==> r9_k < self.worker_handles@.len() && self.worker_handles@[r9_k as int].idx == idx,
            !r9_found ==> forall|k: int| 0 <= k < r9_k ==> (#[trigger] self.worker_handles@[k]).idx != idx,
        decreases self.worker_handles@.len() - r9_k + (if r9_found { 0int } else { 1int }),
//@end
}


// ===================================================================== Server: the user-facing future (C06)
/// futures BoxFuture of `ServerInner::run(builder)` (Box::pin of the async fn's future)
#[verifier::external_body]
#[verifier::reject_recursive_types(T)]
pub struct BoxFuture<'a, T> { _p: core::marker::PhantomData<&'a T> }
impl<'a, T> BoxFuture<'a, T> {
    pub uninterp spec fn next_poll(&self) -> Poll<T>;
    #[verifier::external_body]
    pub fn poll(&mut self, cx: &mut Context<'_>) -> (r: Poll<T>) ensures r == old(self).next_poll() { unimplemented!() }
}
pub struct Box { }
impl Box {
    #[verifier::external_body]
    pub fn pin<F: Future>(f: F) -> (r: BoxFuture<'static, F::Output>) { unimplemented!() }
}
impl Pin {
    /// `Pin::into_inner(self)` on a `Pin<&mut Self>` that R4 has already turned into `&mut self`: the identity
    pub fn into_inner<T>(t: T) -> (r: T) ensures r == t { t }
}
//@check_struct file=actix-server/src/server.rs name=Server fields=handle,fut
pub struct Server { pub handle: ServerHandle, pub fut: BoxFuture<'static, io::Result<()>> }
impl Clone for ServerHandle { #[verifier::external_body] fn clone(&self) -> (r: ServerHandle) ensures r.cmd_tx.id() == self.cmd_tx.id() { unimplemented!() } }
impl Server {
//@extract file=actix-server/src/server.rs item="impl Server / fn new" ret=r props=C06 name=server::Server::new
//@spec
    requires builder.ready(),     // established by ServerBuilder::run from the builder's own invariant (unit server_misc)
    ensures r.handle.cmd_tx.id() == builder.cmd_tx.id(),   // [C06] commands sent through the handle reach THIS server's command loop
//@end
//@extract file=actix-server/src/server.rs item="impl Server / fn handle" ret=r props=C06 name=server::Server::handle
//@spec
    ensures r.cmd_tx.id() == self.handle.cmd_tx.id(),
//@end
//@extract file=actix-server/src/server.rs item="impl Future for Server / fn poll" ret=r props=C06 name=server::Server::poll
//@spec
    ensures r == old(self).fut.next_poll(),   // [C06] the Server future resolves exactly when the command loop's future does, with its result
//@end
}

} // verus!
fn main() {}
