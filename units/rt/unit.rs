// Unit `rt`: actix-rt/src/system.rs and arbiter.rs — the two command loops and the handle methods (C09, C10; partial).
use vstd::prelude::*;
use core::task::Poll;

macro_rules! ready {
    ($e:expr $(,)?) => {
        match $e {
            core::task::Poll::Ready(t) => t,
            core::task::Poll::Pending => return core::task::Poll::Pending,
        }
    };
}

verus! {

//@include ../common/core.rs
//@include ../common/poll.rs

// ===================================================================== tokio stand-ins (TRUSTED BASE)
pub mod mpsc {
    use vstd::prelude::*;
    use core::task::Poll;
    use super::Context;

    /// `received()` = ghost log of everything taken out; `closed()` = a poll has returned Ready(None)
    #[verifier::external_body]
    #[verifier::reject_recursive_types(T)]
    pub struct UnboundedReceiver<T> { _p: core::marker::PhantomData<T> }

    impl<T> UnboundedReceiver<T> {
        pub uninterp spec fn received(&self) -> Seq<T>;
        pub uninterp spec fn closed(&self) -> bool;
        /// `parked()`: the most recent poll_recv returned Pending — and only then has the task's waker been registered
        /// with the channel, so that a later message wakes it (tokio)
        pub uninterp spec fn parked(&self) -> bool;

        #[verifier::external_body]
        pub fn poll_recv(&mut self, cx: &mut Context<'_>) -> (r: Poll<Option<T>>)
            ensures
                final(self).parked() == (r is Pending),
                r matches Poll::Ready(Some(v)) ==> final(self).received() == old(self).received().push(v) && final(self).closed() == old(self).closed(),
                r matches Poll::Ready(None) ==> final(self).received() == old(self).received() && final(self).closed(),
                r is Pending ==> final(self).received() == old(self).received() && final(self).closed() == old(self).closed(),
        { unimplemented!() }

        /// tokio `close()`: no further message can be sent; what is already queued can still be received
        #[verifier::external_body]
        pub fn close(&mut self)
            ensures final(self).received() == old(self).received(),
        { unimplemented!() }
    }

    /// `alive()` = the receiving loop still exists (fixed during one verified call)
    #[verifier::external_body]
    #[verifier::reject_recursive_types(T)]
    pub struct UnboundedSender<T> { _p: core::marker::PhantomData<T> }

    #[verifier::external_body]
    #[verifier::reject_recursive_types(T)]
    pub struct SendError<T> { _p: core::marker::PhantomData<T> }

    impl<T> UnboundedSender<T> {
        pub uninterp spec fn alive(&self) -> bool;

        #[verifier::external_body]
        pub fn send(&self, t: T) -> (r: Result<(), SendError<T>>)
            ensures r.is_ok() <==> self.alive(),
        { unimplemented!() }
    }
}

pub mod oneshot {
    use vstd::prelude::*;
    #[verifier::external_body]
    #[verifier::reject_recursive_types(T)]
    pub struct Sender<T> { _p: core::marker::PhantomData<T> }
    impl<T> Sender<T> {
        #[verifier::external_body]
        pub fn send(self, t: T) -> (r: Result<(), T>) { unimplemented!() }
    }
}

/// the `dyn Future` boxed into an Execute command
#[verifier::external_body]
pub struct TaskFut { _p: () }

pub mod tokio { pub mod task {
    /// takes ownership of the task (at-most-once is ownership)
    #[verifier::external_body]
    pub fn spawn_local(f: super::super::TaskFut) { unimplemented!() }
} }

/// HashMap<usize, ArbiterHandle> with the operations SystemController uses.  `order()` is the (unspecified)
/// iteration order: a duplicate-free listing of the keys; `nth_value_mut(n)` is the n-th step of `.values()`
/// (rule R9h; declared `&mut` so that the effect of `stop()` on each visited handle can be recorded).
#[verifier::external_body]
#[verifier::reject_recursive_types(K)]
#[verifier::reject_recursive_types(V)]
pub struct HashMap<K, V> { _p: core::marker::PhantomData<(K, V)> }

impl HashMap<usize, ArbiterHandle> {
    pub uninterp spec fn view(&self) -> Map<usize, ArbiterHandle>;
    pub uninterp spec fn order(&self) -> Seq<usize>;

    pub open spec fn wf(&self) -> bool {
        &&& forall|k: usize| self@.dom().contains(k) <==> self.order().contains(k)
        &&& forall|i: int, j: int| 0 <= i < j < self.order().len() ==> self.order()[i] != self.order()[j]
    }

    #[verifier::external_body]
    pub fn len(&self) -> (r: usize)
        ensures r == self.order().len(),
    { unimplemented!() }

    #[verifier::external_body]
    pub fn with_capacity(n: usize) -> (r: HashMap<usize, ArbiterHandle>)
        ensures r@ == Map::<usize, ArbiterHandle>::empty(), r.order().len() == 0, r.wf(),
    { unimplemented!() }

    #[verifier::external_body]
    pub fn nth_value_mut(&mut self, n: usize) -> (r: &mut ArbiterHandle)
        requires n < old(self).order().len(), old(self).wf(),
        ensures *r == old(self)@[old(self).order()[n as int]],
                final(self).order() == old(self).order(), final(self).wf(),
                final(self)@ == old(self)@.insert(old(self).order()[n as int], *final(r)),
                final(self)@.dom() == old(self)@.dom(),
                forall|k: usize| k != old(self).order()[n as int] ==> #[trigger] final(self)@[k] == old(self)@[k],
    { unimplemented!() }

    #[verifier::external_body]
    pub fn insert(&mut self, k: usize, v: ArbiterHandle) -> (r: Option<ArbiterHandle>)
        requires old(self).wf(),
        ensures final(self)@ == old(self)@.insert(k, v), final(self).wf(),
    { unimplemented!() }

    #[verifier::external_body]
    pub fn remove(&mut self, k: &usize) -> (r: Option<ArbiterHandle>)
        requires old(self).wf(),
        ensures final(self)@ == old(self)@.remove(*k), final(self).wf(),
    { unimplemented!() }
}

/// arbiter.rs ArbiterHandle as seen by the system controller: `stop_requested()` records that `stop()` was called on
/// it (receiver strengthening: the real method takes `&self` and enqueues ArbiterCommand::Stop)
#[verifier::external_body]
pub struct ArbiterHandle { _p: () }

impl ArbiterHandle {
    pub uninterp spec fn stop_requested(&self) -> bool;
    #[verifier::external_body]
    pub fn stop(&mut self) -> (r: bool)
        ensures final(self).stop_requested(),
    { unimplemented!() }
}

// ===================================================================== system.rs
//@extract_type file=actix-rt/src/system.rs item="enum SystemCommand"
//@extract_type file=actix-rt/src/system.rs item="struct SystemController"

pub open spec fn is_exit(c: SystemCommand) -> bool { c is Exit }

impl SystemController {
    /// the stop channel is still unused exactly as long as no Exit command has been taken   [C09: the first stop wins]
    pub open spec fn wf(&self) -> bool {
        &&& self.arbiters.wf()
        &&& (self.stop_tx.is_some() <==> forall|i: int| 0 <= i < self.cmd_rx.received().len() ==> !is_exit(#[trigger] self.cmd_rx.received()[i]))
    }

//@extract file=actix-rt/src/system.rs item="impl SystemController / fn new" ret=r props=C09 name=system::controller_new
//@spec
    requires cmd_rx.received().len() == 0,
    ensures
        // a fresh controller owns the receiving end of the system's command queue and the (unused) sending end of the
        // runner's stop channel, and knows no arbiter yet   [C09]
        r.cmd_rx == cmd_rx, r.stop_tx == Some(stop_tx), r.arbiters@ == Map::<usize, ArbiterHandle>::empty(), r.wf(),
//@end

#[verifier::exec_allows_no_decreases_clause]
#[verifier::loop_isolation(false)]
//@extract file=actix-rt/src/system.rs item="impl Future for SystemController / fn poll" ret=r props=C09 name=system::controller_poll
//@spec
    requires
        old(self).wf(),
    ensures
        final(self).wf(),
        // the controller ends only when every System handle (sender) is gone
        r is Ready ==> final(self).cmd_rx.closed(),
        old(self).cmd_rx.received().len() <= final(self).cmd_rx.received().len(),
        r is Pending ==> final(self).cmd_rx.parked(),   // [C09] Future contract: Pending only with the command channel holding the waker
//@insert after="loop {"
            let ghost pre_map = self.arbiters@;
            let ghost pre_tx = self.stop_tx.is_some();
            let ghost pre_len = self.cmd_rx.received().len();
            let ghost pre_rec = self.cmd_rx.received();
//@insert arm_end="loop"
                proof {
                    let rec = self.cmd_rx.received();
                    assert(rec.len() == pre_len + 1);
                    assert(forall|i: int| 0 <= i < pre_len ==> rec[i] == pre_rec[i]);
                    if is_exit(rec[pre_len as int]) {
                        assert(self.stop_tx.is_none());
                    } else {
                        assert(self.stop_tx.is_some() == pre_tx);
                    }
                }
//@insert after="if let Some(stop_tx) = self.stop_tx.take() {" alt_after="Some(stop_tx) => {"
                            // this is the first Exit command ever taken: its code is the one delivered   [C09]
                            assert(pre_tx);
                            assert(forall|i: int| 0 <= i < pre_len ==> !is_exit(#[trigger] self.cmd_rx.received()[i]));
                            assert(self.cmd_rx.received()[pre_len as int] == SystemCommand::Exit(code));
//@insert arm_end="SystemCommand::Exit(code) =>"
                        // every arbiter registered at this moment has been told to stop; the table is unchanged [C09]
                        assert forall|k: usize| self.arbiters@.dom().contains(k) implies (#[trigger] self.arbiters@[k]).stop_requested() by {
                            assert(self.arbiters.order().contains(k));
                            let j = choose|j: int| 0 <= j < self.arbiters.order().len() && self.arbiters.order()[j] == k;
                            assert(self.arbiters@[self.arbiters.order()[j]].stop_requested());
                        }
                        assert(self.arbiters@.dom() == pre_map.dom());
                        assert(self.stop_tx.is_none());
//@insert arm_end="SystemCommand::RegisterArbiter(id, arb) =>"
                        assert(self.arbiters@.dom() == pre_map.dom().insert(id));   // [C09]
                        assert(self.stop_tx.is_some() == pre_tx);
//@insert arm_end="SystemCommand::DeregisterArbiter(id) =>"
                        assert(self.arbiters@ == pre_map.remove(id));   // [C09] an arbiter that already stopped no longer takes part
                        assert(self.stop_tx.is_some() == pre_tx);
//@loop head="loop"
        invariant
            self.wf(),
            old(self).cmd_rx.received().len() <= self.cmd_rx.received().len(),
//@loop head="while r9_n < r9_len"
        invariant
            r9_n <= r9_len, r9_len == self.arbiters.order().len(),
            self.arbiters.wf(),
            self.arbiters.order() == ord0,
            self.arbiters@.dom() == pre_map.dom(),
            self.stop_tx.is_some() == tx0_some,
            self.cmd_rx == rx0,
            forall|j: int| 0 <= j < r9_n ==> (#[trigger] self.arbiters@[ord0[j]]).stop_requested(),
//@insert before="let mut r9_n: usize = 0;"
                        let ghost ord0 = self.arbiters.order();
                        let ghost rx0 = self.cmd_rx;
                        let ghost tx0_some = self.stop_tx.is_some();
//@end
}

// ===================================================================== arbiter.rs
pub enum ArbiterCommand { Stop, Execute(TaskFut) }
//@check_struct file=actix-rt/src/arbiter.rs name=ArbiterRunner fields=rx
//@extract_type file=actix-rt/src/arbiter.rs item="struct ArbiterRunner"

pub open spec fn is_stop(c: ArbiterCommand) -> bool { c is Stop }

impl ArbiterRunner {
    /// the loop is alive: no Stop has been taken yet
    pub open spec fn alive(&self) -> bool {
        forall|i: int| 0 <= i < self.rx.received().len() ==> !is_stop(#[trigger] self.rx.received()[i])
    }

#[verifier::exec_allows_no_decreases_clause]
#[verifier::loop_isolation(false)]
//@extract file=actix-rt/src/arbiter.rs item="impl Future for ArbiterRunner / fn poll" ret=r props=C10,C09 name=arbiter::runner_poll trace_calls="::spawn_local"
//@spec
    requires
        old(self).alive(),
    ensures
        old(self).rx.received().len() <= final(self).rx.received().len(),
        // nothing behind the first Stop is ever taken: a Stop can only be the LAST command this loop has received [C10]
        forall|i: int| 0 <= i < final(self).rx.received().len() - 1 ==> !is_stop(#[trigger] final(self).rx.received()[i]),
        // the loop ends exactly at a Stop or when every handle is gone   [C10]
        r is Ready ==> final(self).rx.closed()
            || (final(self).rx.received().len() > 0 && is_stop(final(self).rx.received()[final(self).rx.received().len() - 1])),
        r is Pending ==> final(self).alive(),
        // the Future contract: Pending is returned only with a wake-up arranged — the channel has the waker   [C09,C10]
        r is Pending ==> final(self).rx.parked(),   // [C09,C10]
//@insert arm_start="ArbiterCommand::Execute(task_fut)"
                        let ghost t0 = r24_trace.len();
//@insert arm_end="ArbiterCommand::Execute(task_fut)"
                        // a received task is started, exactly once, before the next command is looked at (FIFO; "at most
                        // once" is ownership, "at least once" is this obligation)   [C10]
                        assert(r24_trace.len() == t0 + 1);   // [C10]
//@loop 1
        invariant
            self.alive(),
            old(self).rx.received().len() <= self.rx.received().len(),
//@end
}

} // verus!
fn main() {}
