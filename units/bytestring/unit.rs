// Unit `bytestring`: bytestring/src/lib.rs — every safe constructor and the splitting functions against the
// representation invariant "the bytes are valid UTF-8" (C20).
//
// The primitive `str` (and String / Box<str>) cannot be given Verus specifications about their bytes, so in signatures
// and type annotations they are replaced by the stand-ins `Str`, `String`, `BoxStr` (declared rule R15); the language
// guarantee "every str/String is valid UTF-8" becomes the postcondition of the accessors that expose their bytes.
use vstd::prelude::*;
verus! {

//@include ../common/core.rs

pub uninterp spec fn is_utf8(s: Seq<u8>) -> bool;
/// `i` is a char boundary of the UTF-8 string `s` (str::is_char_boundary)
pub uninterp spec fn is_boundary(s: Seq<u8>, i: int) -> bool;

// ===================================================================== std / bytes stand-ins (TRUSTED BASE)
pub trait ByteView { spec fn bv(&self) -> Seq<u8>; }
impl ByteView for [u8] { open spec fn bv(&self) -> Seq<u8> { self@ } }

#[verifier::external_body]
pub struct Str { _p: () }
#[verifier::external_body]
pub struct String { _p: () }
#[verifier::external_body]
pub struct BoxStr { _p: () }
#[verifier::external_body]
pub struct BoxBytes { _p: () }
#[verifier::external_body]
pub struct FromUtf8Error { _p: () }

impl Str {
    pub uninterp spec fn bytes(&self) -> Seq<u8>;

    #[verifier::external_body]
    pub const fn as_bytes(&self) -> (r: &[u8])
        ensures r@ == self.bytes(), is_utf8(r@),
    { unimplemented!() }

    #[verifier::external_body]
    pub fn len(&self) -> (r: usize) ensures r == self.bytes().len() { unimplemented!() }
    #[verifier::external_body]
    pub fn is_empty(&self) -> (r: bool) ensures r == (self.bytes().len() == 0) { unimplemented!() }

    /// str::as_ptr: the address of the first byte — says nothing about the content or the length
    #[verifier::external_body]
    pub fn as_ptr(&self) -> (r: *const u8) { unimplemented!() }

    /// <str as AsRef<[u8]>>::as_ref
    #[verifier::external_body]
    pub fn as_ref(&self) -> (r: &[u8])
        ensures r@ == self.bytes(), is_utf8(r@),
    { unimplemented!() }

    /// str::split_at: PANICS unless `mid` is a char boundary (<= len); if it returns, both halves are strs
    #[verifier::external_body]
    pub fn split_at(&self, mid: usize) -> (r: (&Str, &Str))
        ensures mid <= self.bytes().len(), is_boundary(self.bytes(), mid as int),
                r.0.bytes() == self.bytes().subrange(0, mid as int), r.1.bytes() == self.bytes().subrange(mid as int, self.bytes().len() as int),
                is_utf8(r.0.bytes()), is_utf8(r.1.bytes()),
    { unimplemented!() }
}

impl String {
    pub uninterp spec fn bytes(&self) -> Seq<u8>;

    #[verifier::external_body]
    pub fn from_utf8(v: Vec<u8>) -> (r: Result<String, FromUtf8Error>)
        ensures r.is_ok() <==> is_utf8(v@), r matches Ok(s) ==> s.bytes() == v@,
    { unimplemented!() }
}

impl FromUtf8Error {
    #[verifier::external_body]
    pub fn utf8_error(&self) -> (r: str::Utf8Error)
    { unimplemented!() }
}

impl BoxStr {
    pub uninterp spec fn bytes(&self) -> Seq<u8>;
    #[verifier::external_body]
    pub fn into_boxed_bytes(self) -> (r: BoxBytes)
        ensures r.bytes() == self.bytes(), is_utf8(r.bytes()),
    { unimplemented!() }
}
impl BoxBytes { pub uninterp spec fn bytes(&self) -> Seq<u8>; }

pub mod str {
    use vstd::prelude::*;
    use super::{ByteView, Str, is_utf8};
    #[verifier::external_body]
    pub struct Utf8Error { _p: () }

    /// core::str::from_utf8: the reference validator
    #[verifier::external_body]
    pub fn from_utf8<B: ByteView + ?Sized>(v: &B) -> (r: Result<&Str, Utf8Error>)
        ensures r.is_ok() <==> is_utf8(v.bv()), r matches Ok(s) ==> s.bytes() == v.bv(),
    { unimplemented!() }

    /// SAFETY CONTRACT of core::str::from_utf8_unchecked made explicit
    #[verifier::external_body]
    pub fn from_utf8_unchecked(v: &[u8]) -> (r: &Str)
        requires is_utf8(v@),
        ensures r.bytes() == v@,
    { unimplemented!() }
}

#[verifier::external_body]
pub struct Bytes { _p: () }
#[verifier::external_body]
pub struct BytesMut { _p: () }
pub mod bytes { pub use super::BytesMut; }

impl ByteView for BytesMut { open spec fn bv(&self) -> Seq<u8> { self@ } }

impl BytesMut {
    pub uninterp spec fn view(&self) -> Seq<u8>;
    #[verifier::external_body]
    pub fn freeze(self) -> (r: Bytes) ensures r@ == self@ { unimplemented!() }
}

impl Bytes {
    pub uninterp spec fn view(&self) -> Seq<u8>;

    #[verifier::external_body]
    pub const fn new() -> (r: Bytes) ensures r@ == Seq::<u8>::empty() { unimplemented!() }

    #[verifier::external_body]
    pub const fn from_static(s: &'static [u8]) -> (r: Bytes) ensures r@ == s@ { unimplemented!() }

    #[verifier::external_body]
    pub fn copy_from_slice(s: &[u8]) -> (r: Bytes) ensures r@ == s@ { unimplemented!() }

    #[verifier::external_body]
    pub fn clone(&self) -> (r: Bytes) ensures r@ == self@ { unimplemented!() }

    #[verifier::external_body]
    pub fn as_ref(&self) -> (r: &[u8]) ensures r@ == self@ { unimplemented!() }

    // <[u8]>::{len, is_empty, get, first, last} through Deref
    #[verifier::external_body]
    pub fn len(&self) -> (r: usize) ensures r == self@.len() { unimplemented!() }
    #[verifier::external_body]
    pub fn is_empty(&self) -> (r: bool) ensures r == (self@.len() == 0) { unimplemented!() }
    #[verifier::external_body]
    pub fn get(&self, i: usize) -> (r: Option<&u8>)
        ensures i < self@.len() ==> r == Some(&self@[i as int]), i >= self@.len() ==> r.is_none(),
    { unimplemented!() }

    /// panics if `at > len`
    #[verifier::external_body]
    pub fn split_to(&mut self, at: usize) -> (r: Bytes)
        requires at <= old(self)@.len(),
        ensures r@ == old(self)@.subrange(0, at as int), final(self)@ == old(self)@.subrange(at as int, old(self)@.len() as int),
    { unimplemented!() }

    /// PANICS unless `subset` lies inside this buffer; if it returns, the result is exactly `subset`
    #[verifier::external_body]
    pub fn slice_ref(&self, subset: &[u8]) -> (r: Bytes) ensures r@ == subset@ { unimplemented!() }
}

impl vstd::std_specs::convert::FromSpecImpl<String> for Bytes {
    open spec fn obeys_from_spec() -> bool { false }
    uninterp spec fn from_spec(s: String) -> Bytes;
}
impl From<String> for Bytes {
    #[verifier::external_body]
    fn from(s: String) -> (r: Bytes) ensures r@ == s.bytes(), is_utf8(r@) { unimplemented!() }
}
impl vstd::std_specs::convert::FromSpecImpl<BoxBytes> for Bytes {
    open spec fn obeys_from_spec() -> bool { false }
    uninterp spec fn from_spec(s: BoxBytes) -> Bytes;
}
impl From<BoxBytes> for Bytes {
    #[verifier::external_body]
    fn from(s: BoxBytes) -> (r: Bytes) ensures r@ == s.bytes(), is_utf8(r@) { unimplemented!() }
}


/// the empty string is valid UTF-8; a valid string cut at a char boundary gives two valid strings (std facts)
#[verifier::external_body]
pub proof fn axiom_utf8_empty()
    ensures is_utf8(Seq::<u8>::empty()),
{ }

/// `s[..]` on a str is the str itself; `==` on strs compares their bytes (std)
impl vstd::std_specs::core::IndexSpecImpl<core::ops::RangeFull> for Str {
    open spec fn index_req(&self, r: &core::ops::RangeFull) -> bool { true }
}
impl core::ops::Index<core::ops::RangeFull> for Str {
    type Output = Str;
    #[verifier::external_body]
    fn index(&self, r: core::ops::RangeFull) -> (o: &Str) ensures o.bytes() == self.bytes() { unimplemented!() }
}
impl vstd::std_specs::cmp::PartialEqSpecImpl for Str {
    open spec fn obeys_eq_spec() -> bool { true }
    open spec fn eq_spec(&self, other: &Str) -> bool { self.bytes() == other.bytes() }
}
impl PartialEq for Str {
    #[verifier::external_body]
    fn eq(&self, other: &Str) -> bool { unimplemented!() }
}
/// anything `AsRef<str>` (the `T` of `impl<T: AsRef<str>> PartialEq<T> for ByteString`)
pub trait AsRefStr { spec fn spec_str(&self) -> Seq<u8>; fn as_ref(&self) -> (r: &Str) ensures r.bytes() == self.spec_str(); }

/// core::ptr::eq: address equality (either answer is possible for two strs, whatever their bytes)
pub mod ptr {
    use vstd::prelude::*;
    #[verifier::external_body]
    pub fn eq<T: ?Sized>(a: *const T, b: *const T) -> (r: bool) { unimplemented!() }
}

/// core::fmt stand-ins.  A Formatter is modelled by the bytes written so far (`out`) and its options (`opts`: width,
/// fill, alignment, precision, flags — uninterpreted).  `str_display(b, o)` / `str_debug(b, o)` are what
/// `<str as Display>::fmt` / `<str as Debug>::fmt` write for the str with bytes `b` under options `o` (std, NOT verified).
pub struct FmtOpts { pub _o: int }
pub uninterp spec fn str_display(b: Seq<u8>, o: FmtOpts) -> Seq<u8>;
pub uninterp spec fn str_debug(b: Seq<u8>, o: FmtOpts) -> Seq<u8>;
pub uninterp spec fn str_fmt_ok(b: Seq<u8>, o: FmtOpts, debug: bool) -> bool;
pub mod fmt {
    use vstd::prelude::*;
    use super::{Str, FmtOpts, str_display, str_debug, str_fmt_ok};
    #[verifier::external_body]
    pub struct Formatter<'a> { _p: core::marker::PhantomData<&'a ()> }
    pub struct Error;
    pub type Result = core::result::Result<(), Error>;
    impl<'a> Formatter<'a> {
        pub uninterp spec fn out(&self) -> Seq<u8>;
        pub uninterp spec fn opts(&self) -> FmtOpts;
        #[verifier::external_body]
        pub fn write_str(&mut self, s: &Str) -> (r: Result)
            ensures final(self).out() == old(self).out() + s.bytes(), final(self).opts() == old(self).opts(),
        { unimplemented!() }
    }
    // each trait lives in its own module so that, as in the real crate, neither is in scope by name
    pub mod display {
        use vstd::prelude::*;
        use super::{Formatter, Result};
        use super::super::{Str, FmtOpts, str_display, str_fmt_ok};
        /// `display_spec(o)`: what `fmt` writes under options `o`; the trait's contract ties `fmt` to it
        pub trait Display {
            spec fn display_spec(&self, o: FmtOpts) -> Seq<u8>;
            spec fn display_ok(&self, o: FmtOpts) -> bool;
            fn fmt(&self, f: &mut Formatter<'_>) -> (r: Result)
                ensures final(f).out() == old(f).out() + self.display_spec(old(f).opts()), final(f).opts() == old(f).opts(),
                        r is Ok == self.display_ok(old(f).opts());
        }
        impl Display for Str {
            open spec fn display_spec(&self, o: FmtOpts) -> Seq<u8> { str_display(self.bytes(), o) }
            open spec fn display_ok(&self, o: FmtOpts) -> bool { str_fmt_ok(self.bytes(), o, false) }
            #[verifier::external_body]
            fn fmt(&self, f: &mut Formatter<'_>) -> (r: Result) { unimplemented!() }
        }
    }
    pub mod debug {
        use vstd::prelude::*;
        use super::{Formatter, Result};
        use super::super::{Str, str_debug, str_fmt_ok};
        pub trait Debug { fn fmt(&self, f: &mut Formatter<'_>) -> Result; }
        impl Debug for Str {
            #[verifier::external_body]
            fn fmt(&self, f: &mut Formatter<'_>) -> (r: Result)
                ensures final(f).out() == old(f).out() + str_debug(self.bytes(), old(f).opts()), final(f).opts() == old(f).opts(),
                        r is Ok == str_fmt_ok(self.bytes(), old(f).opts(), true),
            { unimplemented!() }
        }
    }
    pub use display::Display;
    pub use debug::Debug;
}
/// core::hash: `str_hash(b, h)` is the hasher state after `<str as Hash>::hash` of the str with bytes `b` from state `h`
pub mod hash {
    use vstd::prelude::*;
    use super::Str;
    pub trait Hasher: Sized { spec fn st(&self) -> int; }
    pub uninterp spec fn str_hash(b: Seq<u8>, h: int) -> int;
    pub trait Hash { fn hash<H: Hasher>(&self, state: &mut H); }
    /// `Bytes` hashes as a byte slice (length-prefixed), NOT as a str
    pub uninterp spec fn bytes_hash(b: Seq<u8>, h: int) -> int;
    impl Hash for super::Bytes {
        #[verifier::external_body]
        fn hash<H: Hasher>(&self, state: &mut H)
            ensures final(state).st() == bytes_hash(self@, old(state).st()),
        { unimplemented!() }
    }
    impl Hash for Str {
        #[verifier::external_body]
        fn hash<H: Hasher>(&self, state: &mut H)
            ensures final(state).st() == str_hash(self.bytes(), old(state).st()),
        { unimplemented!() }
    }
}

// ===================================================================== the real type
/// the field is NOT publicised (R3 exception): Verus type invariants need private fields
pub struct ByteString(Bytes);
//@check_no_derive file=bytestring/src/lib.rs name=ByteString forbid=Copy require=Clone,Default
/// `#[derive(Clone, Default)]` on the real type: field-wise (checked above that both are still derived)
impl Clone for ByteString {
    fn clone(&self) -> (r: Self) ensures r@ == self@ {
        proof { use_type_invariant(self); }
        ByteString(self.0.clone())
    }
}
impl Default for ByteString {
    fn default() -> (r: Self) ensures r@.len() == 0 {
        proof { axiom_utf8_empty(); }
        ByteString(Bytes::new())
    }
}

impl ByteString {
    /// TYPE INVARIANT: every ByteString that exists holds valid UTF-8   [C20].  Verus checks it at every construction
    /// site `ByteString(..)`/`Self(..)` ("constructed value may fail to meet its declared type invariant") and lets a
    /// function use it for a value it is given (`use_type_invariant`).
    #[verifier::type_invariant]
    pub closed spec fn wf(self) -> bool { is_utf8(self.0@) }
    /// the bytes
    pub closed spec fn view(&self) -> Seq<u8> { self.0@ }

//@extract file=bytestring/src/lib.rs item="impl ByteString / fn new" ret=r props=C20
//@spec
    ensures r@.len() == 0,
//@insert after="{"
        proof { axiom_utf8_empty(); }
//@end

//@extract file=bytestring/src/lib.rs item="impl ByteString / fn as_bytes" ret=r props=C20
//@spec
    ensures r@ == self@,
//@end

//@extract file=bytestring/src/lib.rs item="impl ByteString / fn into_bytes" ret=r props=C20
//@spec
    ensures r@ == self@,
//@end

//@extract file=bytestring/src/lib.rs item="impl ByteString / fn from_static" ret=r props=C20 sig_replace="&'static str=>&'static Str"
//@spec
    ensures r@ == src.bytes(),
//@end

//@extract file=bytestring/src/lib.rs item="impl ByteString / fn from_bytes_unchecked" ret=r props=C20 sig_replace="const unsafe fn=>const fn"
//@spec
    requires is_utf8(src@),     // the safety contract of this unsafe fn, made explicit; callers must establish it
    ensures r@ == src@,
//@end

//@extract file=bytestring/src/lib.rs item="impl ByteString / fn split_at" ret=r props=C20
//@spec
    ensures
        // returns only where str::split_at returns: at a char boundary   [C20] (panics exactly when str does)
        mid <= self@.len() && is_boundary(self@, mid as int),
        r.0@ == self@.subrange(0, mid as int) && r.1@ == self@.subrange(mid as int, self@.len() as int),   // [C20]
//@replace pattern="let this: &str" rule=R15
let this: &Str
//@end

//@extract file=bytestring/src/lib.rs item="impl ByteString / fn slice_ref" ret=r props=C20 sig_replace="&str=>&Str"
//@spec
    ensures r@ == subset.bytes(),
//@end

}

impl core::ops::Deref for ByteString {
    type Target = Str;
//@extract file=bytestring/src/lib.rs item="impl ops::Deref for ByteString / fn deref" ret=r props=C20 sig_replace="&str=>&Str"
//@spec
    ensures r.bytes() == self@,
//@insert after="{"
        // the type invariant is exactly what makes the `from_utf8_unchecked` below sound   [C20]
        proof { use_type_invariant(self); }
//@end
}

/// `impl AsRef<str>`, `impl AsRef<[u8]>`, `impl Borrow<str>` for ByteString: emitted as inherent methods (Verus cannot
/// type the `ensures` of an impl of these generic std traits); bodies are the real text
impl ByteString {
//@extract file=bytestring/src/lib.rs item="impl AsRef<str> for ByteString / fn as_ref" ret=r props=C20 sig_replace="&str=>&Str" name=lib::as_ref_str
//@spec
    ensures r.bytes() == self@,
//@end
//@extract file=bytestring/src/lib.rs item="impl AsRef<[u8]> for ByteString / fn as_ref" ret=r props=C20 name=lib::as_ref_bytes sig_replace="fn as_ref(=>fn as_ref_bytes("
//@spec
    ensures r@ == self@,
//@end
//@extract file=bytestring/src/lib.rs item="impl Borrow<str> for ByteString / fn borrow" ret=r props=C20 sig_replace="&str=>&Str" name=lib::borrow
//@spec
    ensures r.bytes() == self@,
//@end
}

impl vstd::std_specs::convert::FromSpecImpl<String> for ByteString {
    open spec fn obeys_from_spec() -> bool { false }
    uninterp spec fn from_spec(s: String) -> ByteString;
}
impl vstd::std_specs::convert::FromSpecImpl<&Str> for ByteString {
    open spec fn obeys_from_spec() -> bool { false }
    uninterp spec fn from_spec(s: &Str) -> ByteString;
}
impl vstd::std_specs::convert::FromSpecImpl<BoxStr> for ByteString {
    open spec fn obeys_from_spec() -> bool { false }
    uninterp spec fn from_spec(s: BoxStr) -> ByteString;
}
impl vstd::std_specs::convert::TryFromSpecImpl<&[u8]> for ByteString {
    open spec fn obeys_try_from_spec() -> bool { false }
    uninterp spec fn try_from_spec(s: &[u8]) -> Result<ByteString, str::Utf8Error>;
}
impl vstd::std_specs::convert::TryFromSpecImpl<Vec<u8>> for ByteString {
    open spec fn obeys_try_from_spec() -> bool { false }
    uninterp spec fn try_from_spec(s: Vec<u8>) -> Result<ByteString, str::Utf8Error>;
}
impl<const N: usize> vstd::std_specs::convert::TryFromSpecImpl<[u8; N]> for ByteString {
    open spec fn obeys_try_from_spec() -> bool { false }
    uninterp spec fn try_from_spec(s: [u8; N]) -> Result<ByteString, str::Utf8Error>;
}
impl<'a, const N: usize> vstd::std_specs::convert::TryFromSpecImpl<&'a [u8; N]> for ByteString {
    open spec fn obeys_try_from_spec() -> bool { false }
    uninterp spec fn try_from_spec(s: &'a [u8; N]) -> Result<ByteString, str::Utf8Error>;
}
impl vstd::std_specs::convert::TryFromSpecImpl<Bytes> for ByteString {
    open spec fn obeys_try_from_spec() -> bool { false }
    uninterp spec fn try_from_spec(s: Bytes) -> Result<ByteString, str::Utf8Error>;
}
impl vstd::std_specs::convert::TryFromSpecImpl<BytesMut> for ByteString {
    open spec fn obeys_try_from_spec() -> bool { false }
    uninterp spec fn try_from_spec(s: BytesMut) -> Result<ByteString, str::Utf8Error>;
}


impl From<String> for ByteString {
//@extract file=bytestring/src/lib.rs item="impl From<String> for ByteString / fn from" ret=r props=C20 name=lib::from_string
//@spec
    ensures r@ == value.bytes(),
//@end
}

impl From<&Str> for ByteString {
//@extract file=bytestring/src/lib.rs item="impl From<&str> for ByteString / fn from" ret=r props=C20 name=lib::from_str sig_replace="&str=>&Str"
//@spec
    ensures r@ == value.bytes(),
//@end
}

impl From<BoxStr> for ByteString {
//@extract file=bytestring/src/lib.rs item="impl From<Box<str>> for ByteString / fn from" ret=r props=C20 name=lib::from_box_str sig_replace="Box<str>=>BoxStr"
//@spec
    ensures r@ == value.bytes(),
//@end
}

impl TryFrom<&[u8]> for ByteString {
    type Error = str::Utf8Error;
//@extract file=bytestring/src/lib.rs item="impl TryFrom<&[u8]> for ByteString / fn try_from" ret=r props=C20 name=lib::try_from_slice
//@spec
    ensures
        r.is_ok() <==> is_utf8(value@),   // [C20] accepts exactly what str::from_utf8 accepts
        r matches Ok(b) ==> b@ == value@,
//@end
}

/// `array_impls!` generates these two impls for every length 0..=32: the macro's body is extracted (rule R28) with its
/// metavariable `$len` bound to a const generic parameter, i.e. verified for EVERY length at once
impl<const N: usize> TryFrom<[u8; N]> for ByteString {
    type Error = str::Utf8Error;
//@extract file=bytestring/src/lib.rs item="macro_rules! array_impls / impl TryFrom<[u8; $len]> for ByteString / fn try_from" ret=r props=C20 name=lib::try_from_array macro_vars="$len=N"
//@spec
    ensures
        r.is_ok() <==> is_utf8(value@),   // [C20] accepts exactly what str::from_utf8 accepts — for every array length
        r matches Ok(b) ==> b@ == value@,
//@insert after="{"
        proof { assert(value@.subrange(0, N as int) =~= value@); }   // the full-range slice of an array is the array
//@end
}
impl<const N: usize> TryFrom<&[u8; N]> for ByteString {
    type Error = str::Utf8Error;
//@extract file=bytestring/src/lib.rs item="macro_rules! array_impls / impl TryFrom<&[u8; $len]> for ByteString / fn try_from" ret=r props=C20 name=lib::try_from_array_ref macro_vars="$len=N"
//@spec
    ensures
        r.is_ok() <==> is_utf8(value@),   // [C20]
        r matches Ok(b) ==> b@ == value@,
//@insert after="{"
        proof { assert(value@.subrange(0, N as int) =~= value@); }
//@end
}

impl TryFrom<Vec<u8>> for ByteString {
    type Error = str::Utf8Error;
//@extract file=bytestring/src/lib.rs item="impl TryFrom<Vec<u8>> for ByteString / fn try_from" ret=r props=C20 name=lib::try_from_vec closures=1
//@spec
    ensures
        r.is_ok() <==> is_utf8(value@),   // [C20]
        r matches Ok(b) ==> b@ == value@,
//@end
}

impl TryFrom<Bytes> for ByteString {
    type Error = str::Utf8Error;
//@extract file=bytestring/src/lib.rs item="impl TryFrom<Bytes> for ByteString / fn try_from" ret=r props=C20 name=lib::try_from_bytes
//@spec
    ensures
        r.is_ok() <==> is_utf8(value@),   // [C20]
        r matches Ok(b) ==> b@ == value@,
//@end
}

impl TryFrom<BytesMut> for ByteString {
    type Error = str::Utf8Error;
//@extract file=bytestring/src/lib.rs item="impl TryFrom<bytes::BytesMut> for ByteString / fn try_from" ret=r props=C20 name=lib::try_from_bytes_mut
//@spec
    ensures
        r.is_ok() <==> is_utf8(value@),   // [C20]
        r matches Ok(b) ==> b@ == value@,
//@end
}


impl fmt::Debug for ByteString {
//@extract file=bytestring/src/lib.rs item="impl fmt::Debug for ByteString / fn fmt" ret=r props=C20 name=lib::debug_fmt
//@spec
    ensures
        // Debug agrees with str's Debug, whatever the formatter's options   [C20]
        final(fmt).out() == old(fmt).out() + str_debug(self@, old(fmt).opts()), final(fmt).opts() == old(fmt).opts(),
        r is Ok == str_fmt_ok(self@, old(fmt).opts(), true),
//@end
}
impl fmt::Display for ByteString {
    // Display agrees with str's Display, whatever the formatter's options (width, fill, precision, ..)   [C20]
    open spec fn display_spec(&self, o: FmtOpts) -> Seq<u8> { str_display(self@, o) }
    open spec fn display_ok(&self, o: FmtOpts) -> bool { str_fmt_ok(self@, o, false) }
//@extract file=bytestring/src/lib.rs item="impl fmt::Display for ByteString / fn fmt" ret=r props=C20 name=lib::display_fmt
//@spec
//@end
}
/// alloc::string::ToString (blanket impl over Display: formats with the DEFAULT options into a new String, and panics
/// if `fmt` fails — std, NOT verified); under default options a str is written as it is
pub uninterp spec fn default_opts() -> FmtOpts;
#[verifier::external_body]
pub proof fn axiom_display_default(b: Seq<u8>)
    ensures str_display(b, default_opts()) == b, str_fmt_ok(b, default_opts(), false),
{ }
pub trait ToString { fn to_string(&self) -> String; }
impl<T: fmt::Display> ToString for T {
    #[verifier::external_body]
    fn to_string(&self) -> (r: String)
        ensures r.bytes() == self.display_spec(default_opts()),
    { unimplemented!() }
}
impl vstd::std_specs::convert::FromSpecImpl<ByteString> for String {
    open spec fn obeys_from_spec() -> bool { false }
    uninterp spec fn from_spec(s: ByteString) -> String;
}
impl From<ByteString> for String {
//@extract file=bytestring/src/lib.rs item="impl From<ByteString> for String / fn from" ret=r props=C20 name=lib::into_string
//@spec
    ensures r.bytes() == value@,   // [C20] conversion back to String keeps the bytes
//@insert after="{"
        proof { axiom_display_default(value@); }
//@end
}
impl hash::Hash for ByteString {
//@extract file=bytestring/src/lib.rs item="impl hash::Hash for ByteString / fn hash" props=C20 name=lib::hash
//@spec
    ensures final(state).st() == hash::str_hash(self@, old(state).st()),   // [C20] hashes as the equivalent str does
//@end
}


impl vstd::std_specs::cmp::PartialEqSpecImpl<Str> for ByteString {
    open spec fn obeys_eq_spec() -> bool { true }
    open spec fn eq_spec(&self, other: &Str) -> bool { self@ == other.bytes() }   // [C20] compares as the equivalent str does
}
impl PartialEq<Str> for ByteString {
//@extract file=bytestring/src/lib.rs item="impl PartialEq<str> for ByteString / fn eq" ret=r props=C20 name=lib::eq_str sig_replace="&str=>&Str"
//@spec
    ensures r == (self@ == other.bytes()),   // [C20] compares as the equivalent str does
//@end
}
impl ByteString {
//@extract file=bytestring/src/lib.rs item="impl<T: AsRef<str>> PartialEq<T> for ByteString / fn eq" ret=r props=C20 name=lib::eq_as_ref sig_replace="fn eq(&self, other: &T)=>fn eq_as_ref<T: AsRefStr>(&self, other: &T)" str_types
//@spec
    ensures r == (self@ == other.spec_str()),   // [C20]
//@end
}


// ---- AsRef<ByteString> and the serde impl (feature `serde`): every way INTO a ByteString goes through a checked constructor
impl ByteString {
//@extract file=bytestring/src/lib.rs item="impl AsRef<ByteString> for ByteString / fn as_ref" ret=r props=C20 name=lib::as_ref_self sig_replace="fn as_ref(&self)=>fn as_ref_self(&self)"
//@spec
    ensures r@ == self@,
//@end
}
/// serde::Deserializer as far as `String::deserialize` needs it: whatever it yields is a String (valid UTF-8)
pub trait DeserializerLike: Sized { type Error; }
impl String {
    #[verifier::external_body]
    pub fn deserialize<D: DeserializerLike>(d: D) -> (r: Result<String, D::Error>) { unimplemented!() }
}
impl ByteString {
//@extract file=bytestring/src/lib.rs item="mod serde / impl<'de> Deserialize<'de> for ByteString / fn deserialize" ret=r props=C20 name=lib::deserialize sig_replace="D: Deserializer<'de>,=>D: DeserializerLike,"
//@spec
    ensures true,     // the obligation is the TYPE INVARIANT of the value built (checked at the construction site inside `From<String>`)
//@end
}

} // verus!
fn main() {}
