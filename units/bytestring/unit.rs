// Unit `bytestring`: bytestring/src/lib.rs — every safe constructor and the splitting functions against the
// representation invariant "the bytes are valid UTF-8" (C20).
//
// The primitive `str` (and String / Box<str>) cannot be given Verus specifications about their bytes, so in signatures
// and type annotations they are replaced by the stand-ins `Str`, `String`, `BoxStr` (declared rule R15); the language
// guarantee "every str/String is valid UTF-8" becomes the postcondition of the accessors that expose their bytes.
use vstd::prelude::*;
verus! {

//@include ../common/core.rs

pub uninterp spec fn is_utf8(s: Seq<u8>) -> bool;
/// `i` is a char boundary of the UTF-8 string `s` (str::is_char_boundary)
pub uninterp spec fn is_boundary(s: Seq<u8>, i: int) -> bool;

// ===================================================================== std / bytes stand-ins (TRUSTED BASE)
pub trait ByteView { spec fn bv(&self) -> Seq<u8>; }
impl ByteView for [u8] { open spec fn bv(&self) -> Seq<u8> { self@ } }

#[verifier::external_body]
pub struct Str { _p: () }
#[verifier::external_body]
pub struct String { _p: () }
#[verifier::external_body]
pub struct BoxStr { _p: () }
#[verifier::external_body]
pub struct BoxBytes { _p: () }
#[verifier::external_body]
pub struct FromUtf8Error { _p: () }

impl Str {
    pub uninterp spec fn bytes(&self) -> Seq<u8>;

    #[verifier::external_body]
    pub const fn as_bytes(&self) -> (r: &[u8])
        ensures r@ == self.bytes(), is_utf8(r@),
    { unimplemented!() }

    /// <str as AsRef<[u8]>>::as_ref
    #[verifier::external_body]
    pub fn as_ref(&self) -> (r: &[u8])
        ensures r@ == self.bytes(), is_utf8(r@),
    { unimplemented!() }

    /// str::split_at: PANICS unless `mid` is a char boundary (<= len); if it returns, both halves are strs
    #[verifier::external_body]
    pub fn split_at(&self, mid: usize) -> (r: (&Str, &Str))
        ensures mid <= self.bytes().len(), is_boundary(self.bytes(), mid as int),
                r.0.bytes() == self.bytes().subrange(0, mid as int), r.1.bytes() == self.bytes().subrange(mid as int, self.bytes().len() as int),
                is_utf8(r.0.bytes()), is_utf8(r.1.bytes()),
    { unimplemented!() }
}

impl String {
    pub uninterp spec fn bytes(&self) -> Seq<u8>;

    #[verifier::external_body]
    pub fn from_utf8(v: Vec<u8>) -> (r: Result<String, FromUtf8Error>)
        ensures r.is_ok() <==> is_utf8(v@), r matches Ok(s) ==> s.bytes() == v@,
    { unimplemented!() }
}

impl FromUtf8Error {
    #[verifier::external_body]
    pub fn utf8_error(&self) -> (r: str::Utf8Error)
    { unimplemented!() }
}

impl BoxStr {
    pub uninterp spec fn bytes(&self) -> Seq<u8>;
    #[verifier::external_body]
    pub fn into_boxed_bytes(self) -> (r: BoxBytes)
        ensures r.bytes() == self.bytes(), is_utf8(r.bytes()),
    { unimplemented!() }
}
impl BoxBytes { pub uninterp spec fn bytes(&self) -> Seq<u8>; }

pub mod str {
    use vstd::prelude::*;
    use super::{ByteView, Str, is_utf8};
    #[verifier::external_body]
    pub struct Utf8Error { _p: () }

    /// core::str::from_utf8: the reference validator
    #[verifier::external_body]
    pub fn from_utf8<B: ByteView + ?Sized>(v: &B) -> (r: Result<&Str, Utf8Error>)
        ensures r.is_ok() <==> is_utf8(v.bv()), r matches Ok(s) ==> s.bytes() == v.bv(),
    { unimplemented!() }

    /// SAFETY CONTRACT of core::str::from_utf8_unchecked made explicit
    #[verifier::external_body]
    pub fn from_utf8_unchecked(v: &[u8]) -> (r: &Str)
        requires is_utf8(v@),
        ensures r.bytes() == v@,
    { unimplemented!() }
}

#[verifier::external_body]
pub struct Bytes { _p: () }
#[verifier::external_body]
pub struct BytesMut { _p: () }
pub mod bytes { pub use super::BytesMut; }

impl ByteView for BytesMut { open spec fn bv(&self) -> Seq<u8> { self@ } }

impl BytesMut {
    pub uninterp spec fn view(&self) -> Seq<u8>;
    #[verifier::external_body]
    pub fn freeze(self) -> (r: Bytes) ensures r@ == self@ { unimplemented!() }
}

impl Bytes {
    pub uninterp spec fn view(&self) -> Seq<u8>;

    #[verifier::external_body]
    pub const fn new() -> (r: Bytes) ensures r@ == Seq::<u8>::empty() { unimplemented!() }

    #[verifier::external_body]
    pub const fn from_static(s: &'static [u8]) -> (r: Bytes) ensures r@ == s@ { unimplemented!() }

    #[verifier::external_body]
    pub fn copy_from_slice(s: &[u8]) -> (r: Bytes) ensures r@ == s@ { unimplemented!() }

    #[verifier::external_body]
    pub fn clone(&self) -> (r: Bytes) ensures r@ == self@ { unimplemented!() }

    #[verifier::external_body]
    pub fn as_ref(&self) -> (r: &[u8]) ensures r@ == self@ { unimplemented!() }

    // <[u8]>::{len, is_empty, get, first, last} through Deref
    #[verifier::external_body]
    pub fn len(&self) -> (r: usize) ensures r == self@.len() { unimplemented!() }
    #[verifier::external_body]
    pub fn is_empty(&self) -> (r: bool) ensures r == (self@.len() == 0) { unimplemented!() }
    #[verifier::external_body]
    pub fn get(&self, i: usize) -> (r: Option<&u8>)
        ensures i < self@.len() ==> r == Some(&self@[i as int]), i >= self@.len() ==> r.is_none(),
    { unimplemented!() }

    /// panics if `at > len`
    #[verifier::external_body]
    pub fn split_to(&mut self, at: usize) -> (r: Bytes)
        requires at <= old(self)@.len(),
        ensures r@ == old(self)@.subrange(0, at as int), final(self)@ == old(self)@.subrange(at as int, old(self)@.len() as int),
    { unimplemented!() }

    /// PANICS unless `subset` lies inside this buffer; if it returns, the result is exactly `subset`
    #[verifier::external_body]
    pub fn slice_ref(&self, subset: &[u8]) -> (r: Bytes) ensures r@ == subset@ { unimplemented!() }
}

impl vstd::std_specs::convert::FromSpecImpl<String> for Bytes {
    open spec fn obeys_from_spec() -> bool { false }
    uninterp spec fn from_spec(s: String) -> Bytes;
}
impl From<String> for Bytes {
    #[verifier::external_body]
    fn from(s: String) -> (r: Bytes) ensures r@ == s.bytes(), is_utf8(r@) { unimplemented!() }
}
impl vstd::std_specs::convert::FromSpecImpl<BoxBytes> for Bytes {
    open spec fn obeys_from_spec() -> bool { false }
    uninterp spec fn from_spec(s: BoxBytes) -> Bytes;
}
impl From<BoxBytes> for Bytes {
    #[verifier::external_body]
    fn from(s: BoxBytes) -> (r: Bytes) ensures r@ == s.bytes(), is_utf8(r@) { unimplemented!() }
}


/// the empty string is valid UTF-8; a valid string cut at a char boundary gives two valid strings (std facts)
#[verifier::external_body]
pub proof fn axiom_utf8_empty()
    ensures is_utf8(Seq::<u8>::empty()),
{ }

// ===================================================================== the real type
pub struct ByteString(pub Bytes);
//@check_no_derive file=bytestring/src/lib.rs name=ByteString forbid=Copy

impl ByteString {
    /// representation invariant: every ByteString obtainable through the safe API holds valid UTF-8   [C20]
    pub open spec fn wf(&self) -> bool { is_utf8(self.0@) }

    /// <ByteString as AsRef<str>>::as_ref / Deref: the str view exists only for valid UTF-8
    #[verifier::external_body]
    pub fn as_ref(&self) -> (r: &Str)
        requires self.wf(),
        ensures r.bytes() == self.0@,
    { unimplemented!() }

//@extract file=bytestring/src/lib.rs item="impl ByteString / fn new" ret=r props=C20
//@spec
    ensures r.wf(), r.0@.len() == 0,
//@insert after="{"
        proof { axiom_utf8_empty(); }
//@end

//@extract file=bytestring/src/lib.rs item="impl ByteString / fn as_bytes" ret=r props=C20
//@spec
    ensures r@ == self.0@,
//@end

//@extract file=bytestring/src/lib.rs item="impl ByteString / fn into_bytes" ret=r props=C20
//@spec
    ensures r@ == self.0@,
//@end

//@extract file=bytestring/src/lib.rs item="impl ByteString / fn from_static" ret=r props=C20 sig_replace="&'static str=>&'static Str"
//@spec
    ensures r.wf(), r.0@ == src.bytes(),
//@end

//@extract file=bytestring/src/lib.rs item="impl ByteString / fn from_bytes_unchecked" ret=r props=C20 sig_replace="const unsafe fn=>const fn"
//@spec
    requires is_utf8(src@),     // the safety contract of this unsafe fn, made explicit; callers must establish it
    ensures r.0@ == src@, r.wf(),
//@end

//@extract file=bytestring/src/lib.rs item="impl ByteString / fn split_at" ret=r props=C20
//@spec
    requires self.wf(),
    ensures
        // returns only where str::split_at returns: at a char boundary   [C20] (panics exactly when str does)
        mid <= self.0@.len() && is_boundary(self.0@, mid as int),
        r.0.wf() && r.1.wf(),   // [C20]
        r.0.0@ == self.0@.subrange(0, mid as int) && r.1.0@ == self.0@.subrange(mid as int, self.0@.len() as int),   // [C20]
//@replace pattern="let this: &str" rule=R15
let this: &Str
//@end

//@extract file=bytestring/src/lib.rs item="impl ByteString / fn slice_ref" ret=r props=C20 sig_replace="&str=>&Str"
//@spec
    ensures r.wf(), r.0@ == subset.bytes(),
//@end

//@extract file=bytestring/src/lib.rs item="impl ops::Deref for ByteString / fn deref" ret=r props=C20 sig_replace="&str=>&Str"
//@spec
    requires self.wf(),        // exactly what makes the `from_utf8_unchecked` inside sound   [C20]
    ensures r.bytes() == self.0@,
//@end

}

impl vstd::std_specs::convert::FromSpecImpl<String> for ByteString {
    open spec fn obeys_from_spec() -> bool { false }
    uninterp spec fn from_spec(s: String) -> ByteString;
}
impl vstd::std_specs::convert::FromSpecImpl<&Str> for ByteString {
    open spec fn obeys_from_spec() -> bool { false }
    uninterp spec fn from_spec(s: &Str) -> ByteString;
}
impl vstd::std_specs::convert::FromSpecImpl<BoxStr> for ByteString {
    open spec fn obeys_from_spec() -> bool { false }
    uninterp spec fn from_spec(s: BoxStr) -> ByteString;
}
impl vstd::std_specs::convert::TryFromSpecImpl<&[u8]> for ByteString {
    open spec fn obeys_try_from_spec() -> bool { false }
    uninterp spec fn try_from_spec(s: &[u8]) -> Result<ByteString, str::Utf8Error>;
}
impl vstd::std_specs::convert::TryFromSpecImpl<Vec<u8>> for ByteString {
    open spec fn obeys_try_from_spec() -> bool { false }
    uninterp spec fn try_from_spec(s: Vec<u8>) -> Result<ByteString, str::Utf8Error>;
}
impl vstd::std_specs::convert::TryFromSpecImpl<Bytes> for ByteString {
    open spec fn obeys_try_from_spec() -> bool { false }
    uninterp spec fn try_from_spec(s: Bytes) -> Result<ByteString, str::Utf8Error>;
}
impl vstd::std_specs::convert::TryFromSpecImpl<BytesMut> for ByteString {
    open spec fn obeys_try_from_spec() -> bool { false }
    uninterp spec fn try_from_spec(s: BytesMut) -> Result<ByteString, str::Utf8Error>;
}


impl From<String> for ByteString {
//@extract file=bytestring/src/lib.rs item="impl From<String> for ByteString / fn from" ret=r props=C20 name=lib::from_string
//@spec
    ensures r.wf(), r.0@ == value.bytes(),
//@end
}

impl From<&Str> for ByteString {
//@extract file=bytestring/src/lib.rs item="impl From<&str> for ByteString / fn from" ret=r props=C20 name=lib::from_str sig_replace="&str=>&Str"
//@spec
    ensures r.wf(), r.0@ == value.bytes(),
//@end
}

impl From<BoxStr> for ByteString {
//@extract file=bytestring/src/lib.rs item="impl From<Box<str>> for ByteString / fn from" ret=r props=C20 name=lib::from_box_str sig_replace="Box<str>=>BoxStr"
//@spec
    ensures r.wf(), r.0@ == value.bytes(),
//@end
}

impl TryFrom<&[u8]> for ByteString {
    type Error = str::Utf8Error;
//@extract file=bytestring/src/lib.rs item="impl TryFrom<&[u8]> for ByteString / fn try_from" ret=r props=C20 name=lib::try_from_slice
//@spec
    ensures
        r.is_ok() <==> is_utf8(value@),   // [C20] accepts exactly what str::from_utf8 accepts
        r matches Ok(b) ==> b.wf() && b.0@ == value@,
//@end
}

impl TryFrom<Vec<u8>> for ByteString {
    type Error = str::Utf8Error;
//@extract file=bytestring/src/lib.rs item="impl TryFrom<Vec<u8>> for ByteString / fn try_from" ret=r props=C20 name=lib::try_from_vec closures=1
//@spec
    ensures
        r.is_ok() <==> is_utf8(value@),   // [C20]
        r matches Ok(b) ==> b.wf() && b.0@ == value@,
//@end
}

impl TryFrom<Bytes> for ByteString {
    type Error = str::Utf8Error;
//@extract file=bytestring/src/lib.rs item="impl TryFrom<Bytes> for ByteString / fn try_from" ret=r props=C20 name=lib::try_from_bytes
//@spec
    ensures
        r.is_ok() <==> is_utf8(value@),   // [C20]
        r matches Ok(b) ==> b.wf() && b.0@ == value@,
//@end
}

impl TryFrom<BytesMut> for ByteString {
    type Error = str::Utf8Error;
//@extract file=bytestring/src/lib.rs item="impl TryFrom<bytes::BytesMut> for ByteString / fn try_from" ret=r props=C20 name=lib::try_from_bytes_mut
//@spec
    ensures
        r.is_ok() <==> is_utf8(value@),   // [C20]
        r matches Ok(b) ==> b.wf() && b.0@ == value@,
//@end
}

} // verus!
fn main() {}
