// Unit `rt_tls`: actix-rt — the thread-local identity of System and Arbiter (C10: `Arbiter::current()` /
// `System::current()` identify the arbiter and system of the thread they are called on) and the arbiter thread's body
// (C09: an arbiter is registered with its system BEFORE `Arbiter::new` returns, and deregistered when its loop ends).
// Thread-local cells are passed explicitly (rule R25): each thread owns one `ThreadLocals`.
use vstd::prelude::*;
verus! {
//@include ../common/core.rs

// ===================================================================== stand-ins (TRUSTED BASE)
/// std::cell::RefCell<Option<T>> reached through a `thread_local!` key: with the cell passed by `&mut` (R25) a borrow
/// is a plain reference to its content
pub struct TlsCell<T> { pub v: Option<T> }
impl<T> TlsCell<T> {
    pub fn borrow(&self) -> (r: &Option<T>) ensures *r == self.v { &self.v }
    pub fn borrow_mut(&mut self) -> (r: &mut Option<T>) ensures *r == old(self).v, *final(r) == final(self).v { &mut self.v }
    /// the std::cell::OnceCell interface of the same cell (a cell written at most once): `set` only fills an EMPTY cell
    pub fn get(&self) -> (r: Option<&T>) ensures r is Some == self.v is Some, r matches Some(x) ==> self.v == Some(*x) {
        match &self.v { Some(x) => Some(x), None => None }
    }
    /// RefCell<Option<T>>::take: moves the value OUT and leaves the cell empty
    pub fn take(&mut self) -> (r: Option<T>) ensures r == old(self).v, final(self).v is None {
        self.v.take()
    }
    pub fn set(&mut self, t: T) -> (r: Result<(), T>)
        ensures old(self).v is None ==> r is Ok && final(self).v == Some(t), old(self).v is Some ==> r == Err::<(), T>(t) && final(self).v == old(self).v,
    {
        if self.v.is_none() { self.v = Some(t); Ok(()) } else { Err(t) }
    }
}
/// this thread's instances of system.rs `CURRENT` and arbiter.rs `HANDLE`
pub struct ThreadLocals { pub current: TlsCell<System>, pub handle: TlsCell<ArbiterHandle> }

pub mod mpsc {
    use vstd::prelude::*;
    #[verifier::external_body]
    #[verifier::reject_recursive_types(T)]
    pub struct UnboundedSender<T> { _p: core::marker::PhantomData<T> }
    #[verifier::external_body]
    #[verifier::reject_recursive_types(T)]
    pub struct UnboundedReceiver<T> { _p: core::marker::PhantomData<T> }
    #[verifier::external_body]
    #[verifier::reject_recursive_types(T)]
    pub struct SendError<T> { _p: core::marker::PhantomData<T> }
    impl<T> core::fmt::Debug for SendError<T> { #[verifier::external_body] fn fmt(&self, f: &mut core::fmt::Formatter<'_>) -> core::fmt::Result { unimplemented!() } }
    impl<T> UnboundedSender<T> {
        /// the queue this sender feeds
        pub uninterp spec fn chan(&self) -> int;
        #[verifier::external_body]
        pub fn send(&self, t: T) -> (r: Result<(), SendError<T>>) { unimplemented!() }
    }
    impl<T> Clone for UnboundedSender<T> { #[verifier::external_body] fn clone(&self) -> (r: Self) ensures r.chan() == self.chan() { unimplemented!() } }
    impl<T> UnboundedReceiver<T> { pub uninterp spec fn chan(&self) -> int; }
    #[verifier::external_body]
    pub fn unbounded_channel<T>() -> (r: (UnboundedSender<T>, UnboundedReceiver<T>)) ensures r.0.chan() == r.1.chan() { unimplemented!() }
}
#[verifier::external_body]
pub struct TaskFut { _p: () }
pub enum ArbiterCommand { Stop, Execute(TaskFut) }
//@extract_type file=actix-rt/src/arbiter.rs item="struct ArbiterHandle"
/// `#[derive(Clone)]` on ArbiterHandle / System: field-wise (a cloned sender feeds the same queue)
impl Clone for ArbiterHandle {
    #[verifier::external_body]
    fn clone(&self) -> (r: ArbiterHandle) ensures r.tx.chan() == self.tx.chan() { unimplemented!() }
}
//@extract_type file=actix-rt/src/system.rs item="enum SystemCommand"
//@check_struct file=actix-rt/src/system.rs name=System fields=id,sys_tx,arbiter_handle
pub struct System { pub id: usize, pub sys_tx: mpsc::UnboundedSender<SystemCommand>, pub arbiter_handle: ArbiterHandle }
impl Clone for System {
    #[verifier::external_body]
    fn clone(&self) -> (r: System) ensures r.same(self) { unimplemented!() }
}
impl System {
    /// the same system: same id, same command queue, same first arbiter
    pub open spec fn same(&self, o: &System) -> bool {
        self.id == o.id && self.sys_tx.chan() == o.sys_tx.chan() && self.arbiter_handle.tx.chan() == o.arbiter_handle.tx.chan()
    }
}
pub open spec fn is_sys(c: Option<System>, s: &System) -> bool { c matches Some(x) && x.same(s) }
pub open spec fn is_hnd(c: Option<ArbiterHandle>, ch: int) -> bool { c matches Some(x) && x.tx.chan() == ch }

impl ArbiterHandle {
//@extract file=actix-rt/src/arbiter.rs item="impl ArbiterHandle / fn new" ret=r props=C10 name=arbiter::handle_new
//@spec
    ensures r.tx == tx,
//@end
}

// ===================================================================== System: thread-local registration (C10)
impl System {
//@extract file=actix-rt/src/system.rs item="impl System / fn set_current" props=C10,C09 name=system::set_current tls_state="CURRENT:current" tls_calls="System::set_current,System::current,System::try_current,System::is_registered,Arbiter::current,Arbiter::try_current"
//@spec
    ensures final(r25_tls).current.v == Some(sys), final(r25_tls).handle == old(r25_tls).handle,   // [C09,C10] the LATEST system wins: arbiters created next register with it
//@end
//@extract file=actix-rt/src/system.rs item="impl System / fn current" ret=r props=C10,C09 name=system::current tls_state="CURRENT:current" tls_calls="System::set_current,System::current,System::try_current,System::is_registered,Arbiter::current,Arbiter::try_current" intended_panics
//@spec
    requires old(r25_tls).current.v is Some,     // "System is not running": the documented panic
    ensures is_sys(old(r25_tls).current.v, &r), *final(r25_tls) == *old(r25_tls),   // [C09,C10] the system registered on THIS thread
//@end
//@extract file=actix-rt/src/system.rs item="impl System / fn try_current" ret=r props=C10,C09 name=system::try_current tls_state="CURRENT:current" tls_calls="System::set_current,System::current,System::try_current,System::is_registered,Arbiter::current,Arbiter::try_current"
//@spec
    ensures r is Some == old(r25_tls).current.v is Some, r matches Some(s) ==> is_sys(old(r25_tls).current.v, &s), *final(r25_tls) == *old(r25_tls),
//@end
//@extract file=actix-rt/src/system.rs item="impl System / fn is_registered" ret=r props=C10 name=system::is_registered tls_state="CURRENT:current" tls_calls="System::set_current,System::current,System::try_current,System::is_registered,Arbiter::current,Arbiter::try_current"
//@spec
    ensures r == old(r25_tls).current.v is Some, *final(r25_tls) == *old(r25_tls),
//@end
//@extract file=actix-rt/src/system.rs item="impl System / fn arbiter" ret=r props=C10 name=system::arbiter
//@spec
    ensures *r == self.arbiter_handle,
//@end
//@extract file=actix-rt/src/system.rs item="impl System / fn id" ret=r props=C09 name=system::id
//@spec
    ensures r == self.id,
//@end
//@extract file=actix-rt/src/system.rs item="impl System / fn tx" ret=r props=C09 name=system::tx
//@spec
    ensures *r == self.sys_tx,
//@end
}

// ===================================================================== Arbiter: thread-local handle (C10)
pub struct Arbiter { }
impl Arbiter {
//@extract file=actix-rt/src/arbiter.rs item="impl Arbiter / fn current" ret=r props=C10 name=arbiter::current tls_state="HANDLE:handle" tls_calls="System::set_current,System::current,System::try_current,System::is_registered,Arbiter::current,Arbiter::try_current" intended_panics
//@spec
    requires old(r25_tls).handle.v is Some,      // "Arbiter is not running.": the documented panic
    ensures is_hnd(old(r25_tls).handle.v, r.tx.chan()), *final(r25_tls) == *old(r25_tls),   // [C10] the arbiter running on THIS thread
//@end
//@extract file=actix-rt/src/arbiter.rs item="impl Arbiter / fn try_current" ret=r props=C10 name=arbiter::try_current tls_state="HANDLE:handle" tls_calls="System::set_current,System::current,System::try_current,System::is_registered,Arbiter::current,Arbiter::try_current"
//@spec
    ensures r is Some == old(r25_tls).handle.v is Some, r matches Some(h) ==> is_hnd(old(r25_tls).handle.v, h.tx.chan()), *final(r25_tls) == *old(r25_tls),
//@end
}


// ===================================================================== construction: registration on the creating thread (C10)
/// system.rs `static SYSTEM_COUNT` / arbiter.rs `static COUNT`: process-wide id counters (values arbitrary)
pub struct AtomicCounter { }
pub uninterp spec fn handed_out(id: usize) -> bool;
pub enum Ordering { Relaxed, SeqCst }
impl AtomicCounter {
    /// `handed_out(r)`: the value an atomic read-modify-write returns belongs to this caller alone — no other thread's
    /// fetch_add returns it.  A plain `load` gives no such guarantee (two threads may read the same value before either
    /// adds), which is all a sequential contract can and need say about the atomicity of id allocation.
    #[verifier::external_body] pub fn fetch_add(&self, n: usize, o: Ordering) -> (r: usize) ensures handed_out(r) { unimplemented!() }
    /// The counters hand out the ids under which arbiters are REGISTERED with their system (the keys of the controller's
    /// map): an id is never handed out twice while the process lives, so the counters only ever grow.  Rewinding one
    /// (store / swap / fetch_sub) lets a later arbiter overwrite a live one's registration — it would never be stopped [C09]
    #[verifier::external_body] pub fn store(&self, v: usize, o: Ordering) requires false { unimplemented!() }
    #[verifier::external_body] pub fn swap(&self, v: usize, o: Ordering) -> (r: usize) requires false { unimplemented!() }
    #[verifier::external_body] pub fn fetch_sub(&self, n: usize, o: Ordering) -> (r: usize) requires false { unimplemented!() }
    #[verifier::external_body] pub fn load(&self, o: Ordering) -> (r: usize) { unimplemented!() }
}
pub const SYSTEM_COUNT: AtomicCounter = AtomicCounter { };
pub const COUNT: AtomicCounter = AtomicCounter { };
//@check_struct file=actix-rt/src/arbiter.rs name=ArbiterRunner fields=rx
pub struct ArbiterRunner { pub rx: mpsc::UnboundedReceiver<ArbiterCommand> }
/// crate::spawn (tokio spawn_local) of the arbiter's command loop.  PROPHECY name `spawned_runner_chan()`: the queue the
/// (one) runner spawned during the verified call reads from
pub uninterp spec fn spawned_runner_chan() -> int;
#[verifier::external_body]
pub struct JoinHandle { _p: () }
pub mod krate {
    use super::*;
    #[verifier::external_body]
    pub fn spawn(r: ArbiterRunner) -> (h: JoinHandle) ensures spawned_runner_chan() == r.rx.chan() { unimplemented!() }
}

impl System {
//@extract file=actix-rt/src/system.rs item="impl System / fn construct" ret=r props=C10,C09 name=system::construct tls_state="CURRENT:current" tls_calls="System::set_current,System::current,System::try_current,System::is_registered,Arbiter::current,Arbiter::try_current"
//@spec
    ensures
        // the new system is registered as THE system of the constructing thread   [C10]
        is_sys(final(r25_tls).current.v, &r), final(r25_tls).handle == old(r25_tls).handle,
        r.sys_tx == sys_tx, r.arbiter_handle == arbiter_handle,
//@end
}
impl Arbiter {
//@extract file=actix-rt/src/arbiter.rs item="impl Arbiter / fn in_new_system" ret=r props=C10,C09 name=arbiter::in_new_system tls_state="HANDLE:handle" tls_calls="System::set_current,System::current,System::try_current,System::is_registered,Arbiter::current,Arbiter::try_current"
//@replace pattern="crate::spawn(" rule=R15
krate::spawn(
//@spec
    ensures
        // the returned handle feeds the queue the spawned runner reads, and it is THE arbiter handle of this thread   [C10]
        is_hnd(final(r25_tls).handle.v, r.tx.chan()), spawned_runner_chan() == r.tx.chan(),
        final(r25_tls).current == old(r25_tls).current,
//@end
}

// ===================================================================== the arbiter thread (C09, C10)
#[verifier::external_body]
pub struct TokioRuntime { _p: () }
/// runtime.rs default_tokio_runtime (NOT under contract: the flavour and drivers of the runtime are no listed property);
/// a failure makes the callers `.expect()`-panic: documented
#[verifier::external_body]
pub fn default_tokio_runtime() -> (r: io::Result<TokioRuntime>) ensures r is Ok { unimplemented!() }
/// crate::runtime::Runtime: `block_on(runner)` runs the arbiter's command loop until it ends (Stop received or every
/// sender gone: unit rt, ArbiterRunner::poll)
pub struct Runtime { pub rt: TokioRuntime }
impl Runtime {
    #[verifier::external_body]
    pub fn from(rt: TokioRuntime) -> (r: Runtime) { unimplemented!() }
    pub uninterp spec fn ran_chan(&self) -> int;
    #[verifier::external_body]
    pub fn block_on(&self, r: ArbiterRunner) ensures self.ran_chan() == r.rx.chan() { unimplemented!() }
}
pub mod runtime_ns { }
/// std::sync::mpsc::Sender<()> to `Arbiter::with_tokio_rt`, which blocks in `ready_rx.recv()` until the thread reports
#[verifier::external_body]
#[derive(Debug)]
pub struct StdSendError { _p: () }
#[verifier::external_body]
pub struct StdSender { _p: () }
impl StdSender { #[verifier::external_body] pub fn send(&self, v: ()) -> (r: Result<(), StdSendError>) ensures r is Ok { unimplemented!() } }
/// PROPHECY names: the registration / deregistration command the arbiter thread sends during the verified call, with the
/// queue it is sent on (R8: the two `.send(SystemCommand::…)` calls are told apart by their argument's constructor)
//@once send_cmd, send_reg, send_dereg, spawn
pub uninterp spec fn reg_cmd() -> (int, SystemCommand);
pub uninterp spec fn dereg_cmd() -> (int, SystemCommand);
impl mpsc::UnboundedSender<SystemCommand> {
    #[verifier::external_body]
    pub fn send_reg(&self, c: SystemCommand) -> (r: Result<(), mpsc::SendError<SystemCommand>>) ensures reg_cmd() == (self.chan(), c) { unimplemented!() }
    #[verifier::external_body]
    pub fn send_dereg(&self, c: SystemCommand) -> (r: Result<(), mpsc::SendError<SystemCommand>>) ensures dereg_cmd() == (self.chan(), c) { unimplemented!() }
}

//@extract file=actix-rt/src/arbiter.rs item="impl Arbiter / fn with_tokio_rt" closure_block=1 block_sig="fn arbiter_thread_body<F: FnOnce() -> TokioRuntime>(runtime_factory: F, tx: mpsc::UnboundedSender<ArbiterCommand>, sys: System, arb_id: usize, ready_tx: StdSender, rx: mpsc::UnboundedReceiver<ArbiterCommand>, system_id: usize, name: String)" props=C09,C10 name=arbiter::thread_body tls_state="HANDLE:handle" tls_calls="System::set_current,System::current,System::try_current,System::is_registered,Arbiter::current,Arbiter::try_current" trace_calls="ready_tx.send,send,block_on"
//@replace pattern="crate::runtime::Runtime::from(" rule=R15
Runtime::from(
//@replace pattern=".send(SystemCommand::RegisterArbiter(" rule=R8
.send_reg(SystemCommand::RegisterArbiter(
//@replace pattern=".send(SystemCommand::DeregisterArbiter(" rule=R8
.send_dereg(SystemCommand::DeregisterArbiter(
//@spec
    requires call_requires(runtime_factory, ()), tx.chan() == rx.chan(),
//@insert before="({ let r24_v = ready_tx"
        // BEFORE the creating thread is told the arbiter is ready: this thread's System is the creator's, its arbiter handle
        // feeds this arbiter's queue, and the arbiter has been REGISTERED with the system (one command sent so far)   [C09,C10]
        assert(is_sys(r25_tls.current.v, &sys) && is_hnd(r25_tls.handle.v, rx.chan()));   // [C09,C10]
        assert(r24_trace == seq![1int]);   // [C09] registered before ready
//@insert fn_exit=1
        // then: ready, the command loop runs on THIS arbiter's queue, and the arbiter is deregistered when the loop has ended   [C09,C10]
        assert(r24_trace == seq![1int, 0int, 2int, 1int]);   // [C09]
        assert(rt.ran_chan() == tx.chan());   // [C10] tasks sent through the handle run on this thread
        // WHAT is registered and deregistered: this arbiter, under ITS OWN number, with the handle that feeds its queue —
        // so a system stop reaches it, and its deregistration removes no other arbiter's entry   [C09]
        assert(reg_cmd().1 matches SystemCommand::RegisterArbiter(id, h) && id == arb_id && h.tx.chan() == tx.chan());   // [C09]
        assert(dereg_cmd().1 matches SystemCommand::DeregisterArbiter(id) && id == arb_id);   // [C09]
        assert(reg_cmd().0 == dereg_cmd().0);   // [C09] both go to the same system
//@end


// ===================================================================== Arbiter::with_tokio_rt: the creating thread's side (C09)
#[verifier::external_body]
pub struct OpaqueClosure { _p: () }
/// R11d: the thread body (verified above as `arbiter_thread_body`)
#[verifier::external_body]
pub fn vopaque_closure() -> (r: OpaqueClosure) { unimplemented!() }
#[verifier::external_body]
pub struct String { _p: () }
impl Clone for String { #[verifier::external_body] fn clone(&self) -> (r: String) { unimplemented!() } }
#[verifier::external_body]
pub fn vfmt_string() -> (r: String) { unimplemented!() }
#[verifier::external_body]
pub struct ThreadHandle { _p: () }
#[verifier::external_body]
pub struct ThreadBuilder { _p: () }
impl ThreadBuilder {
    #[verifier::external_body] pub fn new() -> (r: ThreadBuilder) { unimplemented!() }
    #[verifier::external_body] pub fn name(self, n: String) -> (r: ThreadBuilder) { unimplemented!() }
    #[verifier::external_body] pub fn spawn(self, f: OpaqueClosure) -> (r: Result<ThreadHandle, IoError>) { unimplemented!() }
}
pub mod thread { pub use crate::ThreadBuilder as Builder; }
#[verifier::external_body]
#[derive(Debug)]
pub struct StdRecvError { _p: () }
#[verifier::external_body]
pub struct StdReceiver { _p: () }
impl StdReceiver {
    /// blocks until the arbiter thread has sent its "ready" (the thread sends it after registering: arbiter_thread_body)
    #[verifier::external_body] pub fn recv(&self) -> (r: Result<(), StdRecvError>) ensures r is Ok { unimplemented!() }
}
pub mod std { pub mod sync { pub mod mpsc {
    use vstd::prelude::*;
    #[verifier::external_body]
    pub fn channel() -> (r: (crate::StdSender, crate::StdReceiver)) { unimplemented!() }
} } }
//@check_struct file=actix-rt/src/arbiter.rs name=Arbiter fields=tx,thread_handle
pub struct ArbiterOwner { pub tx: mpsc::UnboundedSender<ArbiterCommand>, pub thread_handle: ThreadHandle }

impl Arbiter {
//@extract file=actix-rt/src/arbiter.rs item="impl Arbiter / fn with_tokio_rt" ret=r props=C09,C10 name=arbiter::with_tokio_rt_outer opaque_move_closures intended_panics tls_state="CURRENT:current" tls_calls="System::current" trace_calls="ready_rx.recv" sig_replace="F: FnOnce() -> tokio::runtime::Runtime + Send + 'static,=>F: FnOnce() -> TokioRuntime,;;-> (r: Arbiter)=>-> (r: ArbiterOwner)"
//@replace pattern="std::sync::mpsc::channel::<()>()" rule=R15
std::sync::mpsc::channel()
//@replace pattern="Arbiter { tx, thread_handle }" rule=R15 optional
ArbiterOwner { tx, thread_handle }
//@replace pattern="Self { tx, thread_handle }" rule=R15 optional
ArbiterOwner { tx, thread_handle }
//@spec
    requires old(r25_tls).current.v is Some,
//@insert before="ArbiterOwner { tx, thread_handle }"
        // the creating thread returns only after it has WAITED for the new thread's "ready" — which that thread sends after
        // it has registered the arbiter with the system (arbiter_thread_body): a system stop issued right after
        // `Arbiter::new()` returns reaches the new arbiter   [C09]
        assert(r24_trace == seq![0int]);   // [C09]
        // the id the new arbiter registers under (the key of the controller's map) was handed out to THIS call by an atomic
        // fetch_add: two arbiters created concurrently never share a key (one would overwrite the other's registration
        // and never be stopped)   [C09]
        assert(handed_out(arb_id));   // [C09]
//@end
}

// ===================================================================== System::with_tokio_rt: wiring of a new system (C09)
pub mod oneshot {
    use vstd::prelude::*;
    #[verifier::external_body]
    #[verifier::reject_recursive_types(T)]
    pub struct Sender<T> { _p: core::marker::PhantomData<T> }
    #[verifier::external_body]
    #[verifier::reject_recursive_types(T)]
    pub struct Receiver<T> { _p: core::marker::PhantomData<T> }
    impl<T> Sender<T> { pub uninterp spec fn chan(&self) -> int; }
    impl<T> Receiver<T> { pub uninterp spec fn chan(&self) -> int; }
    #[verifier::external_body]
    pub fn channel<T>() -> (r: (Sender<T>, Receiver<T>)) ensures r.0.chan() == r.1.chan() { unimplemented!() }
}
/// system.rs SystemController as this function sees it (its `new` and `poll` are verified in unit rt)
pub struct SystemController { pub cmd_chan: int, pub stop_chan: int }
impl SystemController {
    #[verifier::external_body]
    pub fn new(cmd_rx: mpsc::UnboundedReceiver<SystemCommand>, stop_tx: oneshot::Sender<i32>) -> (r: SystemController)
        ensures r.cmd_chan == cmd_rx.chan(), r.stop_chan == stop_tx.chan(),
    { unimplemented!() }
}
//@check_struct file=actix-rt/src/system.rs name=SystemRunner fields=rt,stop_rx
pub struct SystemRunner { pub rt: Runtime, pub stop_rx: oneshot::Receiver<i32> }
/// PROPHECY names: the controller the (one) `rt.spawn(..)` of the verified call starts; the (one) command sent on the
/// system's queue during the call
pub uninterp spec fn spawned_ctrl() -> SystemController;
pub uninterp spec fn sent_sys_cmd() -> (int, SystemCommand);
impl Runtime {
    #[verifier::external_body]
    pub fn spawn(&self, c: SystemController) -> (h: JoinHandle) ensures spawned_ctrl() == c { unimplemented!() }
}
impl mpsc::UnboundedSender<SystemCommand> {
    #[verifier::external_body]
    pub fn send_cmd(&self, c: SystemCommand) -> (r: Result<(), mpsc::SendError<SystemCommand>>)
        ensures r is Ok, sent_sys_cmd() == (self.chan(), c),      // the receiver is alive: it is created in the same function
    { unimplemented!() }
}

impl System {
//@extract file=actix-rt/src/system.rs item="impl System / fn with_tokio_rt" ret=r props=C09,C10 name=system::with_tokio_rt tls_state="CURRENT:current" tls_calls="System::construct" sig_replace="F: FnOnce() -> tokio::runtime::Runtime,=>F: FnOnce() -> TokioRuntime," trace_calls="send,spawn"
//@replace pattern="crate::runtime::Runtime::from(" rule=R15
Runtime::from(
//@replace pattern="rt.block_on(vasync_block())" rule=R11b
Arbiter::in_new_system(r25_tls)
//@replace pattern=".send(" rule=R8 optional
.send_cmd(
//@spec
    requires call_requires(runtime_factory, ()),
    ensures
        // The creating thread's System is the new one; its command queue is the one the spawned controller reads; the
        // controller's stop channel is the one the returned runner waits on   [C09]
        final(r25_tls).current.v matches Some(s) && s.sys_tx.chan() == spawned_ctrl().cmd_chan,
        spawned_ctrl().stop_chan == r.stop_rx.chan(),
        // the system's own arbiter is registered with the controller (under the reserved id) — so a system stop stops it
        // too — and that registration is queued BEFORE the controller starts   [C09]
        final(r25_tls).current.v matches Some(s) && sent_sys_cmd().0 == s.sys_tx.chan()
            && (sent_sys_cmd().1 matches SystemCommand::RegisterArbiter(id, h) && id == usize::MAX && is_hnd(final(r25_tls).handle.v, h.tx.chan())),
//@insert before="SystemRunner {"
        assert(r24_trace == seq![0int, 1int]);   // [C09] registered, then the controller is started
//@end

//@extract file=actix-rt/src/system.rs item="impl System / fn new" ret=r props=C09,C10 name=system::new tls_state="CURRENT:current" tls_calls="Self::with_tokio_rt" closures=1
//@replace pattern="crate::runtime::default_tokio_runtime()" rule=R15
default_tokio_runtime()
//@spec
    ensures
        // `System::new` is `with_tokio_rt` with the default runtime: the same wiring   [C09]
        final(r25_tls).current.v matches Some(s) && s.sys_tx.chan() == spawned_ctrl().cmd_chan,
        spawned_ctrl().stop_chan == r.stop_rx.chan(),
        final(r25_tls).current.v matches Some(s) && sent_sys_cmd().0 == s.sys_tx.chan()
            && (sent_sys_cmd().1 matches SystemCommand::RegisterArbiter(id, h) && id == usize::MAX && is_hnd(final(r25_tls).handle.v, h.tx.chan())),
//@end
}

} // verus!
fn main() {}
