// Unit `local_channel`: local-channel/src/mpsc.rs — every method of Sender / Receiver against the abstract channel
// state, plus the history lemmas (C16).
//
// OWNERSHIP MODEL (rule R8, assumption A-RC): `Rc<RefCell<Shared<T>>>` is typed as `RcCell<Shared<T>>`, a cell that the
// handle in hand owns: `borrow_mut(&mut self)` gives `&mut Shared<T>`, `Rc::strong_count` reads a ghost counter,
// `clone` bumps it.  All handles of one channel are ASSUMED to alias one `Shared` (that is what Rc does) and RefCell
// borrows are assumed never to conflict (no re-entrancy: a waker that polls the receiver synchronously from inside
// `wake()` is outside the model).  Methods that reach the cell through `&self` get `&mut self` (declared per function).
use vstd::prelude::*;
use core::task::Poll;
verus! {

//@include ../common/core.rs
//@include ../common/poll.rs

// ===================================================================== TRUSTED BASE
/// a task identity
#[verifier::external_body]
pub struct Waker { _p: () }
impl Waker { pub uninterp spec fn id(&self) -> int; }

impl<'a> Context<'a> {
    pub uninterp spec fn waker_id(&self) -> int;
    #[verifier::external_body]
    pub fn waker(&self) -> (r: &Waker)
        ensures r.id() == self.waker_id(),
    { unimplemented!() }
}

/// local_waker::LocalWaker: `parked()` the registered task, `woken()` the log of tasks woken through it.  These are the
/// contracts unit kani/local_waker proves of the real crate.  `&mut self` instead of `&self` (R8).
#[verifier::external_body]
pub struct LocalWaker { _p: () }

impl LocalWaker {
    pub uninterp spec fn parked(&self) -> Option<int>;
    pub uninterp spec fn woken(&self) -> Seq<int>;

    #[verifier::external_body]
    pub fn new() -> (r: LocalWaker)
        ensures r.parked().is_none(), r.woken().len() == 0,
    { unimplemented!() }

    #[verifier::external_body]
    pub fn register(&mut self, waker: &Waker) -> (r: bool)
        ensures r == old(self).parked().is_some(), final(self).parked() == Some(waker.id()), final(self).woken() == old(self).woken(),
    { unimplemented!() }

    #[verifier::external_body]
    pub fn wake(&mut self)
        ensures final(self).parked().is_none(),
                final(self).woken() == (match old(self).parked() { Some(w) => old(self).woken().push(w), None => old(self).woken() }),
    { unimplemented!() }
}

#[verifier::external_body]
#[verifier::reject_recursive_types(T)]
pub struct VecDeque<T> { _p: core::marker::PhantomData<T> }

impl<T> VecDeque<T> {
    pub uninterp spec fn view(&self) -> Seq<T>;

    #[verifier::external_body]
    pub fn new() -> (r: VecDeque<T>) ensures r@.len() == 0 { unimplemented!() }

    #[verifier::external_body]
    pub fn push_back(&mut self, t: T) ensures final(self)@ == old(self)@.push(t) { unimplemented!() }

    #[verifier::external_body]
    pub fn pop_front(&mut self) -> (r: Option<T>)
        ensures old(self)@.len() == 0 ==> r.is_none() && final(self)@ == old(self)@,
                old(self)@.len() > 0 ==> r == Some(old(self)@[0]) && final(self)@ == old(self)@.subrange(1, old(self)@.len() as int),
    { unimplemented!() }

    #[verifier::external_body]
    pub fn push_front(&mut self, t: T) ensures final(self)@ == seq![t] + old(self)@ { unimplemented!() }

    #[verifier::external_body]
    pub fn pop_back(&mut self) -> (r: Option<T>)
        ensures old(self)@.len() == 0 ==> r.is_none() && final(self)@ == old(self)@,
                old(self)@.len() > 0 ==> r == Some(old(self)@.last()) && final(self)@ == old(self)@.drop_last(),
    { unimplemented!() }

    #[verifier::external_body]
    pub fn clear(&mut self) ensures final(self)@.len() == 0 { unimplemented!() }
}

/// the R8 stand-in for Rc<RefCell<S>>
#[verifier::reject_recursive_types(S)]
pub struct RcCell<S> { pub inner: S, pub strong: Ghost<nat> }

impl<S> RcCell<S> {
    pub fn borrow_mut(&mut self) -> (r: &mut S)
        ensures *r == old(self).inner, final(self).inner == *final(r), final(self).strong == old(self).strong,
    { &mut self.inner }
}

pub struct Rc { }
impl Rc {
    #[verifier::external_body]
    pub fn strong_count<S>(c: &RcCell<S>) -> (r: usize)
        ensures r == c.strong@,
    { unimplemented!() }
}

#[verifier::reject_recursive_types(T)]
//@extract_type file=local-channel/src/mpsc.rs item="struct Shared<T>"
//@check_struct file=local-channel/src/mpsc.rs name=Sender fields=shared
//@check_struct file=local-channel/src/mpsc.rs name=Receiver fields=shared
#[verifier::reject_recursive_types(T)]
pub struct Sender<T> { pub shared: RcCell<Shared<T>> }
#[verifier::reject_recursive_types(T)]
pub struct Receiver<T> { pub shared: RcCell<Shared<T>> }
pub struct SendError<T>(pub T);

impl<T> RcCell<Shared<T>> {
    /// Rc::clone: one more handle on the same state
    #[verifier::external_body]
    pub fn clone(&mut self) -> (r: RcCell<Shared<T>>)
        ensures final(self).inner == old(self).inner, final(self).strong@ == old(self).strong@ + 1,
                r.inner == old(self).inner, r.strong@ == old(self).strong@ + 1,
    { unimplemented!() }
}


// ===================================================================== specification vocabulary: one predicate per operation,
// used both as the postcondition of the real method and as the transition relation of the history lemmas
pub type ChanCell<T> = RcCell<Shared<T>>;

/// what `wake()` does to the parked-task record
pub open spec fn woke<T>(o: ChanCell<T>, n: ChanCell<T>) -> bool {
    &&& n.inner.blocked_recv.parked().is_none()
    &&& n.inner.blocked_recv.woken() == (match o.inner.blocked_recv.parked() {
            Some(w) => o.inner.blocked_recv.woken().push(w), None => o.inner.blocked_recv.woken() })
}

pub open spec fn send_post<T>(o: ChanCell<T>, n: ChanCell<T>, item: T, r: Result<(), SendError<T>>) -> bool {
    &&& n.strong == o.strong
    // send fails exactly when the receiver has been dropped or the channel closed; then nothing changes and the
    // message is handed back
    &&& (!o.inner.has_receiver ==> (r matches Err(e) && e.0 == item) && n.inner == o.inner)
    // otherwise the message is appended (FIFO) and a parked receiver is woken
    &&& (o.inner.has_receiver ==> r is Ok && n.inner.buffer@ == o.inner.buffer@.push(item) && n.inner.has_receiver && woke(o, n))
}

pub open spec fn close_post<T>(o: ChanCell<T>, n: ChanCell<T>) -> bool {
    &&& n.strong == o.strong
    &&& !n.inner.has_receiver                       // closed for every sender
    &&& n.inner.buffer@ == o.inner.buffer@          // buffered messages can still be drained
    &&& woke(o, n)                                  // a parked receiver is woken
}

pub open spec fn sender_drop_post<T>(o: ChanCell<T>, n: ChanCell<T>) -> bool {
    &&& n.strong == o.strong
    &&& n.inner.buffer@ == o.inner.buffer@ && n.inner.has_receiver == o.inner.has_receiver
    // the last sender of an open channel wakes a parked receiver: its stream has ended
    &&& (o.inner.has_receiver && o.strong@ == 2 ==> woke(o, n))
    &&& (!(o.inner.has_receiver && o.strong@ == 2) ==> n.inner.blocked_recv == o.inner.blocked_recv)
}

pub open spec fn new_handle_post<T>(o: ChanCell<T>, n: ChanCell<T>, h: ChanCell<T>) -> bool {
    n.inner == o.inner && h.inner == o.inner && n.strong@ == o.strong@ + 1 && h.strong@ == o.strong@ + 1
}

pub open spec fn poll_post<T>(o: ChanCell<T>, n: ChanCell<T>, waker: int, r: Poll<Option<T>>) -> bool {
    &&& n.strong == o.strong
    &&& n.inner.has_receiver == o.inner.has_receiver
    // a buffered message is delivered, oldest first, exactly once (it leaves the buffer)
    &&& (o.inner.buffer@.len() > 0 ==> r == Poll::Ready(Some(o.inner.buffer@[0]))
            && n.inner.buffer@ == o.inner.buffer@.subrange(1, o.inner.buffer@.len() as int)
            && n.inner.blocked_recv == o.inner.blocked_recv)
    // drained and (closed or no sender left): the stream ends
    &&& (o.inner.buffer@.len() == 0 && (o.strong@ == 1 || !o.inner.has_receiver)
            ==> r == Poll::<Option<T>>::Ready(None) && n.inner.buffer@.len() == 0 && n.inner.blocked_recv == o.inner.blocked_recv)
    // drained, open and a sender alive: Pending with the caller's waker parked
    &&& (o.inner.buffer@.len() == 0 && o.strong@ != 1 && o.inner.has_receiver
            ==> r is Pending && n.inner.blocked_recv.parked() == Some(waker) && n.inner.buffer@.len() == 0
                && n.inner.blocked_recv.woken() == o.inner.blocked_recv.woken())
}

pub open spec fn receiver_drop_post<T>(o: ChanCell<T>, n: ChanCell<T>) -> bool {
    n.strong == o.strong && n.inner.buffer@.len() == 0 && !n.inner.has_receiver
}

// ===================================================================== contracts (from the property text)
impl<T> Sender<T> {

//@extract file=local-channel/src/mpsc.rs item="impl<T> Sender<T> / fn send" ret=r props=C16 sig_replace="&self=>&mut self"
//@spec
    ensures
        send_post(old(self).shared, final(self).shared, item, r),   // [C16]
//@end

// the Sink impl of Sender: always ready, `start_send` IS `send`, flush/close are no-ops (they do NOT close the channel)
//@extract file=local-channel/src/mpsc.rs item="impl<T> Sink<T> for Sender<T> / fn poll_ready" ret=r props=C16 name=mpsc::sink_poll_ready sig_replace="_: &mut Context<'_>=>_unused: &mut Context<'_>"
//@spec
    ensures r matches Poll::Ready(Ok(_)), final(self).shared == old(self).shared,   // [C16] the channel is unbounded: always ready
//@end
//@extract file=local-channel/src/mpsc.rs item="impl<T> Sink<T> for Sender<T> / fn start_send" ret=r props=C16 name=mpsc::sink_start_send
//@spec
    ensures send_post(old(self).shared, final(self).shared, item, r),   // [C16] exactly `send`
//@end
//@extract file=local-channel/src/mpsc.rs item="impl<T> Sink<T> for Sender<T> / fn poll_flush" ret=r props=C16 name=mpsc::sink_poll_flush sig_replace="_: &mut Context<'_>=>_unused: &mut Context<'_>"
//@spec
    ensures r matches Poll::Ready(Ok(_)), final(self).shared == old(self).shared,
//@end
//@extract file=local-channel/src/mpsc.rs item="impl<T> Sink<T> for Sender<T> / fn poll_close" ret=r props=C16 name=mpsc::sink_poll_close sig_replace="_: &mut Context<'_>=>_unused: &mut Context<'_>"
//@spec
    ensures r matches Poll::Ready(Ok(_)), final(self).shared == old(self).shared,   // [C16] closing the sink does not close the channel
//@end

//@extract file=local-channel/src/mpsc.rs item="impl<T> Sender<T> / fn close" props=C16
//@spec
    ensures
        close_post(old(self).shared, final(self).shared),   // [C16]
//@end

//@extract file=local-channel/src/mpsc.rs item="impl<T> Clone for Sender<T> / fn clone" ret=r props=C16 sig_replace="&self=>&mut self" name=mpsc::sender_clone
//@spec
    ensures
        new_handle_post(old(self).shared, final(self).shared, r.shared),
//@end

//@extract file=local-channel/src/mpsc.rs item="impl<T> Drop for Sender<T> / fn drop" props=C16 name=mpsc::sender_drop
//@spec
    ensures
        sender_drop_post(old(self).shared, final(self).shared),   // [C16]
//@end

}

impl<T> Receiver<T> {

//@extract file=local-channel/src/mpsc.rs item="impl<T> Receiver<T> / fn sender" ret=r props=C16 sig_replace="&self=>&mut self"
//@spec
    ensures
        new_handle_post(old(self).shared, final(self).shared, r.shared),
//@end

//@extract file=local-channel/src/mpsc.rs item="impl<T> Stream for Receiver<T> / fn poll_next" ret=r props=C16 name=mpsc::poll_next
//@spec
    ensures
        poll_post(old(self).shared, final(self).shared, old(cx).waker_id(), r),   // [C16]
//@replace pattern="Rc::strong_count(&self.shared)" rule=R8b
r8_count
//@insert before="let mut shared = self.shared.borrow_mut();"
        let r8_count = Rc::strong_count(&self.shared);   // R8b: read before the (modelled) mutable borrow; Rc's count does not depend on the RefCell borrow
//@end

//@extract file=local-channel/src/mpsc.rs item="impl<T> Drop for Receiver<T> / fn drop" props=C16 name=mpsc::receiver_drop
//@spec
    ensures
        receiver_drop_post(old(self).shared, final(self).shared),   // [C16]
//@end

}

//@extract file=local-channel/src/mpsc.rs item="fn channel" ret=r props=C16
//@spec
    ensures
        r.0.shared.inner.buffer@.len() == 0 && r.0.shared.inner.has_receiver && r.0.shared.inner.blocked_recv.parked().is_none(),
        r.1.shared.inner == r.0.shared.inner,
        r.0.shared.strong@ == 2 && r.1.shared.strong@ == 2,
//@replace pattern="Rc::new(RefCell::new(Shared {" rule=R8
RcCell::new_shared(Shared {
//@replace pattern="}));" rule=R8
});
//@replace pattern="let shared =" rule=R8
let mut shared =
//@end

impl<T> RcCell<Shared<T>> {
    /// Rc::new(RefCell::new(s)) followed (in `channel`) by one clone: modelled by `clone` above
    pub fn new_shared(s: Shared<T>) -> (r: RcCell<Shared<T>>)
        ensures r.inner == s, r.strong@ == 1,
    { RcCell { inner: s, strong: Ghost(1) } }
}


// ===================================================================== history lemmas over exactly these predicates
/// ghost history of a channel: the messages accepted by `send` and the messages handed out by `poll_next`, in order
pub struct Hist<T> { pub accepted: Seq<T>, pub delivered: Seq<T> }

/// invariant while the receiver is alive:
///  * FIFO / exactly once: what was delivered followed by what is buffered is exactly what was accepted;
///  * a parked receiver means: nothing buffered, channel open, at least one sender alive
pub open spec fn inv<T>(c: ChanCell<T>, h: Hist<T>) -> bool {
    &&& h.delivered + c.inner.buffer@ == h.accepted
    &&& (c.inner.blocked_recv.parked().is_some() ==> c.inner.buffer@.len() == 0 && c.inner.has_receiver && c.strong@ >= 2)
    &&& c.strong@ >= 1
}

//@lemma lemma_channel_init props=C16
pub proof fn lemma_channel_init<T>(c: ChanCell<T>)
    requires c.inner.buffer@.len() == 0, c.inner.has_receiver, c.inner.blocked_recv.parked().is_none(), c.strong@ == 2,
    ensures inv(c, Hist { accepted: Seq::<T>::empty(), delivered: Seq::<T>::empty() }),
{
    assert(Seq::<T>::empty() + c.inner.buffer@ =~= Seq::<T>::empty());
}
//@end

//@lemma lemma_send_step props=C16
/// an accepted message joins the end of the queue; a receiver that had returned Pending is woken by this send
pub proof fn lemma_send_step<T>(o: ChanCell<T>, n: ChanCell<T>, item: T, r: Result<(), SendError<T>>, h: Hist<T>)
    requires inv(o, h), send_post(o, n, item, r),
    ensures
        r is Ok <==> o.inner.has_receiver,
        r is Ok ==> inv(n, Hist { accepted: h.accepted.push(item), delivered: h.delivered }),
        r is Err ==> inv(n, h),
        r is Ok ==> (o.inner.blocked_recv.parked() matches Some(w) ==> n.inner.blocked_recv.woken() == o.inner.blocked_recv.woken().push(w)),
{
    if r is Ok {
        assert(h.delivered + o.inner.buffer@.push(item) =~= (h.delivered + o.inner.buffer@).push(item));
    }
}
//@end

//@lemma lemma_poll_step props=C16
/// messages come out exactly once and in the order they were accepted; the stream ends only when everything accepted
/// has been delivered and the channel is closed or has no sender; Pending parks the caller's waker
pub proof fn lemma_poll_step<T>(o: ChanCell<T>, n: ChanCell<T>, waker: int, r: Poll<Option<T>>, h: Hist<T>)
    requires inv(o, h), poll_post(o, n, waker, r),
    ensures
        r matches Poll::Ready(Some(v)) ==> h.delivered.len() < h.accepted.len() && v == h.accepted[h.delivered.len() as int]
            && inv(n, Hist { accepted: h.accepted, delivered: h.delivered.push(v) }),
        r matches Poll::Ready(None) ==> h.delivered == h.accepted && (o.strong@ == 1 || !o.inner.has_receiver) && inv(n, h),
        r is Pending ==> inv(n, h) && n.inner.blocked_recv.parked() == Some(waker) && o.inner.has_receiver && o.strong@ >= 2,
        // once closed or without sender the receiver never parks: it drains, then yields None
        (o.strong@ == 1 || !o.inner.has_receiver) ==> !(r is Pending),
{
    let b = o.inner.buffer@;
    if b.len() > 0 {
        let v = b[0];
        assert(h.accepted == h.delivered + b);
        assert((h.delivered + b)[h.delivered.len() as int] == v);
        assert(h.delivered.push(v) + b.subrange(1, b.len() as int) =~= h.delivered + b);
    } else {
        assert(h.delivered + b =~= h.delivered);
    }
}
//@end

//@lemma lemma_close_step props=C16
/// close wakes a parked receiver, keeps the buffered messages and makes every later send fail
pub proof fn lemma_close_step<T>(o: ChanCell<T>, n: ChanCell<T>, h: Hist<T>)
    requires inv(o, h), close_post(o, n),
    ensures inv(n, h), !n.inner.has_receiver,
        o.inner.blocked_recv.parked() matches Some(w) ==> n.inner.blocked_recv.woken() == o.inner.blocked_recv.woken().push(w),
{
}
//@end

//@lemma lemma_sender_drop_step props=C16
/// dropping a sender (the Drop body, then Rc's own decrement): the drop of the LAST sender of an open channel wakes a
/// parked receiver; otherwise a parked receiver stays correctly parked
pub proof fn lemma_sender_drop_step<T>(o: ChanCell<T>, n: ChanCell<T>, after: ChanCell<T>, h: Hist<T>)
    requires inv(o, h), o.strong@ >= 2, sender_drop_post(o, n), after.inner == n.inner, after.strong@ == n.strong@ - 1,
    ensures inv(after, h),
        o.strong@ == 2 && o.inner.has_receiver ==> (o.inner.blocked_recv.parked() matches Some(w) ==> after.inner.blocked_recv.woken() == o.inner.blocked_recv.woken().push(w)),
{
}
//@end

//@lemma lemma_new_handle_step props=C16
pub proof fn lemma_new_handle_step<T>(o: ChanCell<T>, n: ChanCell<T>, hd: ChanCell<T>, h: Hist<T>)
    requires inv(o, h), new_handle_post(o, n, hd),
    ensures inv(n, h), inv(hd, h),
{
}
//@end


impl<T> SendError<T> {
//@extract file=local-channel/src/mpsc.rs item="impl<T> SendError<T> / fn into_inner" ret=r props=C16 name=mpsc::send_error_into_inner
//@spec
    ensures r == self.0,   // [C16] a rejected message is handed back intact
//@end
}

} // verus!
fn main() {}
