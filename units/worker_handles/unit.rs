// Unit `worker_handles`: the small pieces of actix-server/src/worker.rs that the accept-side and worker-side units use
// through stand-ins — WorkerHandleAccept::{idx,send,inc_counter}, WorkerCounter::{new,clone,guard,total},
// ServerWorkerConfig (defaults and setters), Default for WorkerState.  Their contracts here are the stand-ins' contracts.
use vstd::prelude::*;
verus! {
//@include ../common/core.rs

// ===================================================================== stand-ins (TRUSTED BASE)
//@once send, wake
#[verifier::external_body]
pub struct Conn { _p: () }
/// tokio mpsc: `send` succeeds iff the receiver is alive, otherwise it hands the value back inside SendError
#[verifier::reject_recursive_types(T)]
pub struct SendError<T>(pub T);
#[verifier::external_body]
#[verifier::reject_recursive_types(T)]
pub struct UnboundedSender<T> { _p: core::marker::PhantomData<T> }
impl<T> UnboundedSender<T> {
    pub uninterp spec fn alive(&self) -> bool;
    /// PROPHECY name for the `&self` effect: the value this sender transmits during the verified call
    pub uninterp spec fn sent_in_call(&self) -> Option<T>;
    #[verifier::external_body]
    pub fn send(&self, t: T) -> (r: Result<(), SendError<T>>)
        ensures r.is_ok() <==> self.alive(), r matches Err(e) ==> e.0 == t, r.is_ok() ==> self.sent_in_call() == Some(t),
    { unimplemented!() }
}
/// worker.rs Counter (the shared atomic; its `inc/dec/total` contracts are proved by Kani in unit server_counter)
#[verifier::external_body]
pub struct Counter { _p: () }
impl Counter {
    pub uninterp spec fn id(&self) -> int;
    pub uninterp spec fn inc_result(&self) -> bool;
    pub uninterp spec fn spec_total(&self) -> usize;
    #[verifier::external_body]
    pub fn inc(&self) -> (r: bool) ensures r == self.inc_result() { unimplemented!() }
    #[verifier::external_body]
    pub fn total(&self) -> (r: usize) ensures r == self.spec_total() { unimplemented!() }
    /// `dec_result()`: whether this decrement leaves the limit (Kani unit server_counter: exactly then)
    pub uninterp spec fn dec_result(&self) -> bool;
    #[verifier::external_body]
    pub fn dec(&self) -> (r: bool) ensures r == self.dec_result() { unimplemented!() }
}
/// waker_queue.rs (unit waker_queue proves `wake` queues the interest and then wakes the accept poll)
pub enum WakerInterest { WorkerAvailable(usize), Pause, Resume, Stop }
#[verifier::external_body]
pub struct WakerQueue { _p: () }
impl WakerQueue {
    /// PROPHECY name for the `&self` effect: the interest queued during the verified call
    pub uninterp spec fn woken_in_call(&self) -> Option<WakerInterest>;
    #[verifier::external_body]
    pub fn wake(&self, interest: WakerInterest) ensures self.woken_in_call() == Some(interest) { unimplemented!() }
}
#[verifier::external_body]
#[verifier::reject_recursive_types(T)]
pub struct Rc<T> { _p: core::marker::PhantomData<T> }
impl<T> Rc<T> {
    pub uninterp spec fn view(&self) -> T;
    #[verifier::external_body]
    pub fn new(t: T) -> (r: Rc<T>) ensures r@ == t { unimplemented!() }
}
impl<T> Clone for Rc<T> { #[verifier::external_body] fn clone(&self) -> (r: Rc<T>) ensures r@ == self@ { unimplemented!() } }
impl<T> core::ops::Deref for Rc<T> {
    type Target = T;
    #[verifier::external_body]
    fn deref(&self) -> (r: &T) ensures *r == self@ { unimplemented!() }
}

/// std::thread::panicking(): whether this thread is unwinding — either answer is possible wherever a guard is dropped
pub assume_specification[ ::std::thread::panicking ]() -> (r: bool);

// ===================================================================== WorkerHandleAccept (C01, C02, C08)
//@check_struct file=actix-server/src/worker.rs name=WorkerHandleAccept fields=idx,conn_tx,counter
//@extract_type file=actix-server/src/worker.rs item="struct WorkerHandleAccept"
impl WorkerHandleAccept {
//@extract file=actix-server/src/worker.rs item="impl WorkerHandleAccept / fn idx" ret=r props=C08,C04 name=worker::WorkerHandleAccept::idx
//@spec
    ensures r == self.idx,
//@end
//@extract file=actix-server/src/worker.rs item="impl WorkerHandleAccept / fn send" ret=r props=C01,C08 name=worker::WorkerHandleAccept::send closure_ty="Conn"
//@spec
    requires true,
    ensures
        // the connection is handed to the worker's channel iff the worker is alive; otherwise THE SAME connection is
        // handed back (never dropped, never duplicated)   [C01,C08]
        r.is_ok() <==> self.conn_tx.alive(),
        r matches Err(c) ==> c == conn,
        r.is_ok() ==> self.conn_tx.sent_in_call() == Some(conn),
//@end
//@extract file=actix-server/src/worker.rs item="impl WorkerHandleAccept / fn inc_counter" ret=r props=C02,C03,C04 name=worker::WorkerHandleAccept::inc_counter
//@spec
    ensures r == self.counter.inc_result(),   // [C02] it is THIS worker's counter that is incremented
//@end
}

// ===================================================================== WorkerCounter (C02)
//@check_struct file=actix-server/src/worker.rs name=WorkerCounter fields=idx,inner
//@extract_type file=actix-server/src/worker.rs item="struct WorkerCounter"
/// worker.rs `pub(crate) struct WorkerCounterGuard(WorkerCounter);` (tuple struct: re-declared)
pub struct WorkerCounterGuard(pub WorkerCounter);
impl WorkerCounter {
//@extract file=actix-server/src/worker.rs item="impl WorkerCounter / fn new" ret=r props=C02 name=worker::WorkerCounter::new
//@spec
    ensures r.idx == idx, r.inner@.0 == waker_queue, r.inner@.1 == counter,   // [C02] the worker counts on the counter it was given
//@end
//@extract file=actix-server/src/worker.rs item="impl Clone for WorkerCounter / fn clone" ret=r props=C02 name=worker::WorkerCounter::clone sig_replace="fn clone(=>fn clone_("
//@spec
    ensures r.idx == self.idx, r.inner@ == self.inner@,
//@end
//@extract file=actix-server/src/worker.rs item="impl WorkerCounter / fn guard" ret=r props=C02 name=worker::WorkerCounter::guard
//@replace pattern="self.clone()" rule=R15
self.clone_()
//@spec
    ensures r.0.idx == self.idx, r.0.inner@ == self.inner@,   // [C02] a guard releases on the counter it was taken from
//@end
//@extract file=actix-server/src/worker.rs item="impl WorkerCounter / fn total" ret=r props=C02,C06 name=worker::WorkerCounter::total
//@spec
    ensures r == self.inner@.1.spec_total(),
//@end
}

impl WorkerCounterGuard {
//@extract file=actix-server/src/worker.rs item="impl Drop for WorkerCounterGuard / fn drop" props=C02,C03,C08,C04 name=worker::WorkerCounterGuard::drop trace_calls=wake
//@spec
    requires true,
//@insert fn_exit=1
        // a finished connection decrements ITS worker's counter once; the accept thread is notified — with this worker's
        // index — exactly when that decrement leaves the limit   [C03]
        assert(old(self).0.inner@.1.dec_result() ==> r24_trace == seq![0int]
            && old(self).0.inner@.0.woken_in_call() == Some(WakerInterest::WorkerAvailable(old(self).0.idx)));   // [C03]
        assert(!old(self).0.inner@.1.dec_result() ==> r24_trace.len() == 0);   // [C02,C03]
//@end
}

// ===================================================================== configuration (C02, C06)
#[derive(Clone, Copy)]
//@extract_type file=actix-server/src/worker.rs item="struct ServerWorkerConfig"
impl ServerWorkerConfig {
//@extract file=actix-server/src/worker.rs item="impl ServerWorkerConfig / fn max_blocking_threads" props=C02 name=worker::config::max_blocking_threads
//@spec
    ensures final(self).max_blocking_threads == num, final(self).max_concurrent_connections == old(self).max_concurrent_connections,
            final(self).shutdown_timeout == old(self).shutdown_timeout,
//@end
//@extract file=actix-server/src/worker.rs item="impl ServerWorkerConfig / fn max_concurrent_connections" props=C02 name=worker::config::max_concurrent_connections
//@spec
    ensures final(self).max_concurrent_connections == num, final(self).max_blocking_threads == old(self).max_blocking_threads,   // [C02]
            final(self).shutdown_timeout == old(self).shutdown_timeout,
//@end
//@extract file=actix-server/src/worker.rs item="impl ServerWorkerConfig / fn shutdown_timeout" props=C06 name=worker::config::shutdown_timeout
//@spec
    ensures final(self).shutdown_timeout == dur, final(self).max_blocking_threads == old(self).max_blocking_threads,   // [C06]
            final(self).max_concurrent_connections == old(self).max_concurrent_connections,
//@end
}

/// std::thread::available_parallelism / NonZeroUsize / std::cmp::max (stand-ins: the real ones are generic std items)
#[verifier::external_body]
pub struct NonZeroUsize { _p: () }
impl NonZeroUsize { #[verifier::external_body] pub fn get(self) -> (r: usize) ensures r >= 1 { unimplemented!() } }
pub mod std {
    pub mod thread {
        use vstd::prelude::*;
        pub use ::std::thread::panicking;
        #[verifier::external_body]
        pub fn available_parallelism() -> (r: Result<crate::NonZeroUsize, crate::IoError>) { unimplemented!() }
    }
    pub mod cmp {
        use vstd::prelude::*;
        pub fn max(a: usize, b: usize) -> (r: usize) ensures r == (if a >= b { a } else { b }) { if a >= b { a } else { b } }
    }
}
pub assume_specification<T, E, U, F: FnOnce(T) -> U>[ Result::<T, E>::map_or ](x: Result<T, E>, default: U, f: F) -> (r: U)
    requires x matches Ok(t) ==> f.requires((t,)),
    ensures x is Err ==> r == default, x matches Ok(t) ==> f.ensures((t,), r);

impl Default for ServerWorkerConfig {
//@extract file=actix-server/src/worker.rs item="impl Default for ServerWorkerConfig / fn default" ret=r props=C02 name=worker::config::default
//@spec
    ensures
        // a runtime with zero blocking threads cannot be built (tokio panics): the division never rounds down to 0.
        // (the VALUES of the documented defaults — 25600 connections, 30 s — are not part of any property)
        1 <= r.max_blocking_threads <= 512,
//@end
}

} // verus!
fn main() {}
