// Unit `utils_ready`: actix-utils/src/future/ready.rs — the `Ready<T>` future and its constructors `ready`, `ok`, `err`.
//
// The other units use a stand-in `FutReady<T> { val: Option<T> }` with the contract `ready(t).val == Some(t)` for the
// futures that `Service::call` / `ServiceFactory::new_service` return (actix-server service.rs, the actix-tls acceptor
// and connector factories).  This unit discharges that contract on the real text: a `Ready` resolves at its first poll
// with exactly the value it was built from, and never yields anything else.
use vstd::prelude::*;
use core::task::Poll;
verus! {
//@include ../common/core.rs
//@include ../common/poll.rs

//@check_struct file=${FILE} name=Ready fields=val
#[verifier::reject_recursive_types(T)]
pub struct Ready<T> { pub val: Option<T> }

impl<T> Ready<T> {
//@extract file=${FILE} item="impl<T> Ready<T> / fn into_inner" ret=r props=C01,C11,C12,C18,C19 name=ready::into_inner intended_panics mut_self
//@spec
    requires self.val is Some,    // documented: panics when the future was already polled to completion
    ensures Some(r) == self.val,  // [C01,C11,C12,C18,C19]
//@end
}

impl<T> Ready<T> {
//@extract file=${FILE} item="impl<T> Future for Ready<T> / fn poll" ret=r props=C01,C11,C12,C18,C19 name=ready::poll intended_panics
//@spec
    requires old(self).val is Some,   // documented: "Ready polled after completion" panics
    ensures
        // resolves at the first poll, with exactly the value it holds; afterwards it is spent   [C01,C18,C19]
        r matches Poll::Ready(v) && Some(v) == old(self).val,
        final(self).val is None,
//@end
}

//@extract file=${FILE} item="fn ready" ret=r props=C01,C11,C12,C18,C19 name=ready::ready
//@spec
    ensures r.val == Some(val),   // [C01,C11,C12,C18,C19]
//@end

//@extract file=${FILE} item="fn ok" ret=r props=C11,C12,C18,C19 name=ready::ok
//@spec
    ensures r.val == Some(Ok::<T, E>(val)),   // [C11,C12,C18,C19]
//@end

//@extract file=${FILE} item="fn err" ret=r props=C11,C12,C18,C19 name=ready::err sig_replace="fn err<T, E>(err: E)=>fn err_fn<T, E>(err: E)"
//@spec
    ensures r.val == Some(Err::<T, E>(err)),   // [C11,C12,C18,C19]
//@end

} // verus!
fn main() {}
