// ===== actix-tls acceptor environment (TRUSTED BASE) =====
pub assume_specification<T, U, F: FnOnce(T) -> U>[ Poll::<T>::map ](p: Poll<T>, f: F) -> (r: Poll<U>)
    requires p matches Poll::Ready(t) ==> f.requires((t,)),
    ensures p is Pending ==> r is Pending,
            p matches Poll::Ready(t) ==> (r matches Poll::Ready(u) && f.ensures((t,), u));

/// tokio Sleep: ready iff the (frozen, A-CLOCK) clock has reached the deadline
#[verifier::external_body]
pub struct Sleep { _p: () }
impl Sleep {
    pub uninterp spec fn deadline(&self) -> int;
    /// `parked()`: the most recent poll returned Pending — only then does the timer hold the task's waker
    pub uninterp spec fn parked(&self) -> bool;
    #[verifier::external_body]
    pub fn poll(&mut self, cx: &mut Context<'_>) -> (r: Poll<()>)
        ensures final(self).deadline() == old(self).deadline(), (r is Ready) <==> now_spec() >= old(self).deadline(),
                final(self).parked() == (r is Pending),
    { unimplemented!() }
    /// Sleep::is_elapsed: true only once the timer driver has FIRED this entry — so `true` implies the deadline has
    /// passed, but `false` says nothing (a Sleep that was never polled is not registered and reports `false` however
    /// late it is).  A pure query: it registers nobody.
    #[verifier::external_body]
    pub fn is_elapsed(&self) -> (r: bool) ensures r ==> now_spec() >= self.deadline() { unimplemented!() }
}
#[verifier::external_body]
pub fn sleep(d: Duration) -> (r: Sleep)
    ensures r.deadline() == now_spec() + d.ns(),
{ unimplemented!() }

/// actix_utils::counter::{Counter, CounterGuard}: the contracts unit kani/utils_counter proves of the real crate.
/// `available` (through `&self`) also registers the caller's waker when it answers false — proved there, not visible here.
#[verifier::external_body]
pub struct Counter { _p: () }
#[verifier::external_body]
pub struct CounterGuard { _p: () }
impl Counter {
    pub uninterp spec fn id(&self) -> int;
    pub uninterp spec fn count(&self) -> nat;
    pub uninterp spec fn capacity(&self) -> nat;
    #[verifier::external_body]
    pub fn available(&self, cx: &Context<'_>) -> (r: bool)
        ensures r == (self.count() < self.capacity()),
    { unimplemented!() }
    /// one more live guard on this counter; the guard releases it when dropped (one slot per handshake: `//@once`)
//@once get
    #[verifier::external_body]
    pub fn get(&self) -> (g: CounterGuard)
        ensures g.of() == self.id(),
    { unimplemented!() }
}
impl CounterGuard { pub uninterp spec fn of(&self) -> int; }

pub struct Pin { }
impl Pin {
    /// Pin::new(&mut x) for an Unpin future: the identity
    pub fn new<T>(t: T) -> (r: T) ensures r == t { t }
}

pub use core::convert::Infallible;
/// rule R5d: a zero-arm `match x {}` — `x` has no values, the call is never reached; nothing is said about the result
#[verifier::external_body]
pub fn vabsurd<T>(x: Infallible) -> T { match x {} }
