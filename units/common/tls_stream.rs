// ===== the data path of an accepted TLS stream (TRUSTED BASE: the TLS session itself) =====
// `INNER<IO>` (declared by the including unit as `InnerTls<IO>`) is the TLS library's stream.  Ghost state: `plain_out()`
// = the plaintext handed to the session so far (what the peer will read), `plain_in()` = the plaintext still to be
// delivered by the session (what the peer wrote).  That the session carries both intact is the library's job.
#[verifier::external_body]
pub struct ReadBuf<'a> { _p: core::marker::PhantomData<&'a ()> }
impl<'a> ReadBuf<'a> { pub uninterp spec fn filled(&self) -> Seq<u8>; }
#[verifier::external_body]
pub struct IoSlice<'a> { _p: core::marker::PhantomData<&'a ()> }
pub uninterp spec fn io_slices_bytes(b: &[IoSlice<'_>]) -> Seq<u8>;
/// tokio::io::Ready
#[verifier::external_body]
pub struct Ready { _p: () }
/// actix_rt::net::ActixStream: readiness of the underlying socket (prophecy names for what the next query answers)
pub trait ActixStream: Sized {
    spec fn next_read_ready(&self) -> Poll<io::Result<Ready>>;
    spec fn next_write_ready(&self) -> Poll<io::Result<Ready>>;
    fn poll_read_ready(&self, cx: &mut Context<'_>) -> (r: Poll<io::Result<Ready>>) ensures r == self.next_read_ready();
    fn poll_write_ready(&self, cx: &mut Context<'_>) -> (r: Poll<io::Result<Ready>>) ensures r == self.next_write_ready();
    /// the socket's own AsyncWrite side (reached when code goes AROUND the TLS session through `get_mut()`): it moves
    /// bytes of the transport, it does nothing for the session's buffered records
    fn poll_flush(&mut self, cx: &mut Context<'_>) -> (r: Poll<io::Result<()>>);
    fn poll_shutdown(&mut self, cx: &mut Context<'_>) -> (r: Poll<io::Result<()>>);
    fn poll_write(&mut self, cx: &mut Context<'_>, buf: &[u8]) -> (r: Poll<io::Result<usize>>);
}
impl<IO> InnerTls<IO> {
    pub uninterp spec fn plain_out(&self) -> Seq<u8>;
    pub uninterp spec fn plain_in(&self) -> Seq<u8>;
    pub uninterp spec fn flushed(&self) -> bool;
    pub uninterp spec fn shut(&self) -> bool;
    pub uninterp spec fn vectored(&self) -> bool;
    pub uninterp spec fn sock(&self) -> IO;
    #[verifier::external_body]
    pub fn poll_read(&mut self, cx: &mut Context<'_>, buf: &mut ReadBuf<'_>) -> (r: Poll<io::Result<()>>)
        ensures
            r matches Poll::Ready(Ok(_)) ==> exists|n: int| 0 <= n <= old(self).plain_in().len()
                && final(buf).filled() == old(buf).filled() + #[trigger] old(self).plain_in().subrange(0, n)
                && final(self).plain_in() == old(self).plain_in().subrange(n, old(self).plain_in().len() as int),
            !(r matches Poll::Ready(Ok(_))) ==> final(buf).filled() == old(buf).filled() && final(self).plain_in() == old(self).plain_in(),
            final(self).plain_out() == old(self).plain_out(),
    { unimplemented!() }
    #[verifier::external_body]
    pub fn poll_write(&mut self, cx: &mut Context<'_>, buf: &[u8]) -> (r: Poll<io::Result<usize>>)
        ensures
            r matches Poll::Ready(Ok(n)) ==> n <= buf@.len() && final(self).plain_out() == old(self).plain_out() + buf@.subrange(0, n as int),
            !(r matches Poll::Ready(Ok(_))) ==> final(self).plain_out() == old(self).plain_out(),
            final(self).plain_in() == old(self).plain_in(),
    { unimplemented!() }
    #[verifier::external_body]
    pub fn poll_write_vectored(&mut self, cx: &mut Context<'_>, bufs: &[IoSlice<'_>]) -> (r: Poll<io::Result<usize>>)
        ensures
            r matches Poll::Ready(Ok(n)) ==> n <= io_slices_bytes(bufs).len() && final(self).plain_out() == old(self).plain_out() + io_slices_bytes(bufs).subrange(0, n as int),
            !(r matches Poll::Ready(Ok(_))) ==> final(self).plain_out() == old(self).plain_out(),
            final(self).plain_in() == old(self).plain_in(),
    { unimplemented!() }
    #[verifier::external_body]
    pub fn poll_flush(&mut self, cx: &mut Context<'_>) -> (r: Poll<io::Result<()>>)
        ensures final(self).plain_out() == old(self).plain_out(), final(self).plain_in() == old(self).plain_in(),
                r matches Poll::Ready(Ok(_)) ==> final(self).flushed(),
    { unimplemented!() }
    #[verifier::external_body]
    pub fn poll_shutdown(&mut self, cx: &mut Context<'_>) -> (r: Poll<io::Result<()>>)
        ensures final(self).plain_out() == old(self).plain_out(), final(self).plain_in() == old(self).plain_in(),
                r matches Poll::Ready(Ok(_)) ==> final(self).shut(),
    { unimplemented!() }
    #[verifier::external_body]
    pub fn is_write_vectored(&self) -> (r: bool) ensures r == self.vectored() { unimplemented!() }
}
/// impl_more::impl_deref_and_mut!(<IO> in TlsStream<IO> => INNER<IO>)
impl<IO> core::ops::Deref for TlsStream<IO> {
    type Target = InnerTls<IO>;
    fn deref(&self) -> (r: &InnerTls<IO>) ensures *r == self.0 { &self.0 }
}
impl<IO> core::ops::DerefMut for TlsStream<IO> {
    fn deref_mut(&mut self) -> (r: &mut InnerTls<IO>) ensures *r == old(self).0, *final(r) == final(self).0 { &mut self.0 }
}
