// ===== actix-server environment shared by the accept and worker units (TRUSTED BASE, DESIGN.md §3.2) =====

/// number of listeners (= service factories) configured at build time: a ghost constant of the server
pub uninterp spec fn n_listeners() -> usize;

/// An accepted stream.  `origin()` is a ghost tag: the token of the listener it was accepted from.
#[verifier::external_body]
pub struct MioStream { _p: () }

impl MioStream {
    pub uninterp spec fn origin(&self) -> int;
}

impl Conn {
    /// the invariant carried by every `Conn` in flight: its token names the listener its stream came from
    pub open spec fn wf(&self) -> bool { self.io.origin() == self.token as int }
}

/// Accept-side handle of one worker (worker.rs).  `alive()` abstracts "the worker's receiver still exists";
/// it is fixed for the duration of one verified call (a worker that dies during the call is indistinguishable
/// from one that was already dead).  Handles never carry an index >= 512 (`Availability` would panic at start).
#[verifier::external_body]
pub struct WorkerHandleAccept { _p: () }

impl WorkerHandleAccept {
    pub uninterp spec fn spec_idx(&self) -> usize;
    pub uninterp spec fn alive(&self) -> bool;

    #[verifier::external_body]
    pub fn idx(&self) -> (r: usize)
        ensures r == self.spec_idx(), r < 512,
    { unimplemented!() }

    /// tokio unbounded channel: succeeds iff the receiver is alive, otherwise hands the value back
    #[verifier::external_body]
    pub fn send(&self, conn: Conn) -> (r: Result<(), Conn>)
        requires conn.wf(), conn.token < n_listeners(),
        ensures r.is_ok() <==> self.alive(),
                r matches Err(c) ==> c == conn,
    { unimplemented!() }

    /// the value the next `inc_counter()` on this handle returns.  It depends on the other thread (`Counter::inc`
    /// on the shared atomic, contract proved by Kani in unit server_counter), so it is an arbitrary but named value;
    /// naming it lets a postcondition say which way the caller branched on it.  (A function that called
    /// `inc_counter` twice would see the same value twice — and count the connection twice: `//@once` refuses that.)
    pub uninterp spec fn inc_result(&self) -> bool;

//@once inc_counter
    #[verifier::external_body]
    pub fn inc_counter(&self) -> (r: bool)
        ensures r == self.inc_result(),
    { unimplemented!() }
}
