// ===== common prelude: std / tokio-time / io stand-ins (TRUSTED BASE, DESIGN.md §3.2) =====
pub assume_specification<T>[ core::mem::drop::<T> ](x: T);

/// rule R5: a panic site that must be unreachable
#[verifier::external_body]
pub fn vpanic() -> !
    requires false,
{ panic!() }

/// rule R5: a panic that is intended behaviour of the function under contract (execution stops)
#[verifier::external_body]
pub fn vpanic_intended() -> !
{ panic!() }

/// rule R5c: `res.unwrap_or_else(|_| panic!(..))`
pub trait VResultExt<T, E>: Sized {
    spec fn as_result(self) -> Result<T, E>;

    /// the panic is intended behaviour: execution continues only in the Ok case
    fn vunwrap_or_panic(self) -> (t: T)
        ensures self.as_result() == Ok::<T, E>(t);

    /// the panic must be unreachable
    fn vunwrap_or_vpanic(self) -> (t: T)
        requires self.as_result() is Ok,
        ensures self.as_result() == Ok::<T, E>(t);
}

impl<T, E> VResultExt<T, E> for Result<T, E> {
    open spec fn as_result(self) -> Result<T, E> { self }

    #[verifier::external_body]
    fn vunwrap_or_panic(self) -> (t: T) { match self { Ok(t) => t, Err(_) => panic!() } }

    #[verifier::external_body]
    fn vunwrap_or_vpanic(self) -> (t: T) { match self { Ok(t) => t, Err(_) => panic!() } }
}

#[derive(PartialEq, Eq, Clone, Copy, Structural)]
pub enum ErrorKind { NotFound, PermissionDenied, ConnectionRefused, ConnectionReset, ConnectionAborted, NotConnected,
    AddrInUse, AddrNotAvailable, BrokenPipe, AlreadyExists, WouldBlock, InvalidInput, InvalidData, TimedOut, WriteZero,
    Interrupted, Unsupported, UnexpectedEof, OutOfMemory, Other }

#[verifier::external_body]
#[derive(Debug)]
pub struct IoError { _p: () }

impl IoError {
    pub uninterp spec fn spec_kind(&self) -> ErrorKind;

    #[verifier::external_body]
    pub fn kind(&self) -> (r: ErrorKind)
        ensures r == self.spec_kind(),
    { unimplemented!() }
}

pub mod io {
    pub use super::ErrorKind;
    pub use super::IoError as Error;
    pub type Result<T> = core::result::Result<T, Error>;
}

/// std::time::Duration: only its length in nanoseconds is modelled (mathematical integer, A-INT exception:
/// Duration/Instant arithmetic overflow is not modelled)
#[verifier::external_body]
#[derive(Clone, Copy)]
pub struct Duration { _p: () }

impl Duration {
    pub uninterp spec fn ns(&self) -> nat;

    #[verifier::external_body]
    pub const fn from_millis(ms: u64) -> (r: Duration)
        ensures r.ns() == ms as nat * 1_000_000,
    { Duration { _p: () } }

    #[verifier::external_body]
    pub const fn from_secs(s: u64) -> (r: Duration)
        ensures r.ns() == s as nat * 1_000_000_000,
    { Duration { _p: () } }

    /// `Ord::max` / `Ord::min` on Durations (the longer / the shorter of the two)
    #[verifier::external_body]
    pub fn max(self, other: Duration) -> (r: Duration)
        ensures r.ns() == (if self.ns() >= other.ns() { self.ns() } else { other.ns() }),
    { Duration { _p: () } }
    #[verifier::external_body]
    pub fn min(self, other: Duration) -> (r: Duration)
        ensures r.ns() == (if self.ns() <= other.ns() { self.ns() } else { other.ns() }),
    { Duration { _p: () } }
}

impl vstd::std_specs::cmp::PartialEqSpecImpl for Duration {
    open spec fn obeys_eq_spec() -> bool { true }
    open spec fn eq_spec(&self, other: &Duration) -> bool { self.ns() == other.ns() }
}
impl PartialEq for Duration {
    #[verifier::external_body]
    fn eq(&self, other: &Duration) -> bool { unimplemented!() }
}
impl vstd::std_specs::cmp::PartialOrdSpecImpl for Duration {
    open spec fn obeys_partial_cmp_spec() -> bool { true }
    open spec fn partial_cmp_spec(&self, other: &Duration) -> Option<core::cmp::Ordering> {
        if self.ns() < other.ns() { Some(core::cmp::Ordering::Less) }
        else if self.ns() == other.ns() { Some(core::cmp::Ordering::Equal) }
        else { Some(core::cmp::Ordering::Greater) }
    }
}
impl PartialOrd for Duration {
    #[verifier::external_body]
    fn partial_cmp(&self, other: &Duration) -> Option<core::cmp::Ordering> { unimplemented!() }
}

pub uninterp spec fn now_spec() -> int;

/// largest representable instant (i64::MAX seconds, in ns)
pub open spec fn instant_max() -> int { 0x7FFF_FFFF_FFFF_FFFFint * 1_000_000_000int }

/// tokio::time::Instant (re-exported as actix_rt::time::Instant): a point on a ghost clock
#[verifier::external_body]
#[derive(Clone, Copy)]
pub struct Instant { _p: () }

impl Instant {
    pub uninterp spec fn t(&self) -> int;

    /// the clock is read from the environment.  `now_spec()` is an arbitrary but fixed value: time is frozen for
    /// the duration of one verified call (assumption A-CLOCK); nothing relates it to earlier calls.
    #[verifier::external_body]
    pub fn now() -> (r: Instant)
        ensures r.t() == now_spec(), 0 <= r.t() <= 0x4000_0000_0000_0000,   // the clock is ~centuries away from the end of the representable range
    { unimplemented!() }

    #[verifier::external_body]
    pub fn elapsed(&self) -> (r: Duration)
        ensures r.ns() == (if now_spec() >= self.t() { now_spec() - self.t() } else { 0 }),
    { unimplemented!() }
}

impl vstd::std_specs::cmp::PartialEqSpecImpl for Instant {
    open spec fn obeys_eq_spec() -> bool { true }
    open spec fn eq_spec(&self, other: &Instant) -> bool { self.t() == other.t() }
}
impl PartialEq for Instant {
    #[verifier::external_body]
    fn eq(&self, other: &Instant) -> bool { unimplemented!() }
}
impl vstd::std_specs::cmp::PartialOrdSpecImpl for Instant {
    open spec fn obeys_partial_cmp_spec() -> bool { true }
    open spec fn partial_cmp_spec(&self, other: &Instant) -> Option<core::cmp::Ordering> {
        if self.t() < other.t() { Some(core::cmp::Ordering::Less) }
        else if self.t() == other.t() { Some(core::cmp::Ordering::Equal) }
        else { Some(core::cmp::Ordering::Greater) }
    }
}
impl PartialOrd for Instant {
    #[verifier::external_body]
    fn partial_cmp(&self, other: &Instant) -> Option<core::cmp::Ordering> { unimplemented!() }
}
impl vstd::std_specs::ops::AddSpecImpl<Duration> for Instant {
    open spec fn obeys_add_spec() -> bool { false }
    /// std/tokio `Instant + Duration` PANICS on overflow: the sum must stay representable
    open spec fn add_req(self, rhs: Duration) -> bool { self.t() + rhs.ns() <= instant_max() }
    uninterp spec fn add_spec(self, rhs: Duration) -> Instant;
}
impl core::ops::Add<Duration> for Instant {
    type Output = Instant;
    #[verifier::external_body]
    fn add(self, d: Duration) -> (r: Instant)
        ensures r.t() == self.t() + d.ns(),
    { unimplemented!() }
}
impl vstd::std_specs::ops::SubSpecImpl<Instant> for Instant {
    open spec fn obeys_sub_spec() -> bool { false }
    open spec fn sub_req(self, rhs: Instant) -> bool { true }
    uninterp spec fn sub_spec(self, rhs: Instant) -> Duration;
}
impl core::ops::Sub<Instant> for Instant {
    type Output = Duration;
    #[verifier::external_body]
    fn sub(self, o: Instant) -> (r: Duration)
        ensures self.t() >= o.t() ==> r.ns() == self.t() - o.t(),
                self.t() < o.t() ==> r.ns() == 0,
    { unimplemented!() }
}

pub mod actix_rt { pub mod time { pub use super::super::Instant; } }

/// rule R24 (`f?` events): 1 if the traced call returned Ok, 0 otherwise
pub open spec fn r24_bit(b: bool) -> int { if b { 1 } else { 0 } }

/// std::cell::Cell: interior mutability through `&self`.  Nothing links what `get` returns to an earlier `set` — a
/// shared reference carries no history here — so code that DECIDES something from a Cell is verified for every value
/// the cell might hold (sound: a superset of the real behaviours; a contract that needs the link fails, undecided never).
#[verifier::external_body]
#[verifier::reject_recursive_types(T)]
pub struct Cell<T> { _p: core::marker::PhantomData<T> }
impl<T> Cell<T> {
    #[verifier::external_body] pub fn new(v: T) -> (r: Cell<T>) { unimplemented!() }
    #[verifier::external_body] pub fn set(&self, v: T) { unimplemented!() }
    #[verifier::external_body] pub fn replace(&self, v: T) -> (r: T) { unimplemented!() }
    #[verifier::external_body] pub fn into_inner(self) -> (r: T) { unimplemented!() }
}
impl<T: Copy> Cell<T> { #[verifier::external_body] pub fn get(&self) -> (r: T) { unimplemented!() } }
impl<T: Default> Cell<T> { #[verifier::external_body] pub fn take(&self) -> (r: T) { unimplemented!() } }
