// ===== std::sync stand-ins (TRUSTED BASE): shared flags and reference counting, as far as a function that READS them needs =====
/// std::sync::Arc / std::rc::Rc of a value reached through `&`: `view()` is the shared value; a clone shares it
#[verifier::external_body]
#[verifier::reject_recursive_types(T)]
pub struct Arc<T> { _p: core::marker::PhantomData<T> }
impl<T> Arc<T> {
    pub uninterp spec fn view(&self) -> T;
    #[verifier::external_body]
    pub fn new(t: T) -> (r: Arc<T>) ensures r@ == t { unimplemented!() }
}
impl<T> Clone for Arc<T> { #[verifier::external_body] fn clone(&self) -> (r: Arc<T>) ensures r@ == self@ { unimplemented!() } }
impl<T> core::ops::Deref for Arc<T> {
    type Target = T;
    #[verifier::external_body]
    fn deref(&self) -> (r: &T) ensures *r == self@ { unimplemented!() }
}
/// std::sync::atomic::{AtomicBool, AtomicUsize, Ordering}: a flag shared between handles/threads.  Nothing links what a
/// read returns to an earlier write (no history through `&self`, other threads may write): code that DECIDES something
/// from an atomic is verified for every value it might hold.
pub enum Ordering { Relaxed, Release, Acquire, AcqRel, SeqCst }
#[verifier::external_body]
pub struct AtomicBool { _p: () }
impl AtomicBool {
    #[verifier::external_body] pub fn new(v: bool) -> (r: AtomicBool) { unimplemented!() }
    #[verifier::external_body] pub fn load(&self, o: Ordering) -> (r: bool) { unimplemented!() }
    #[verifier::external_body] pub fn store(&self, v: bool, o: Ordering) { unimplemented!() }
    #[verifier::external_body] pub fn swap(&self, v: bool, o: Ordering) -> (r: bool) { unimplemented!() }
    #[verifier::external_body] pub fn fetch_or(&self, v: bool, o: Ordering) -> (r: bool) { unimplemented!() }
    #[verifier::external_body] pub fn fetch_and(&self, v: bool, o: Ordering) -> (r: bool) { unimplemented!() }
    #[verifier::external_body] pub fn compare_exchange(&self, cur: bool, new: bool, s: Ordering, f: Ordering) -> (r: Result<bool, bool>) { unimplemented!() }
}
