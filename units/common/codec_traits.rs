// ===== tokio_util::codec traits as state transformers (TRUSTED BASE: the shape of the traits; impls are verified) =====
/// tokio_util::codec::Encoder.  `enc(item)` are the bytes an accepted item contributes.
pub trait Encoder<I>: Sized {
    type Error: From<io::Error>;
    spec fn enc(item: I) -> Seq<u8>;

    /// an encoder only APPENDS to `dst` (also when it fails half-way): assumption A-ENC about user codecs, proved of
    /// the crate's own codecs
    fn encode(&mut self, item: I, dst: &mut BytesMut) -> (r: Result<(), Self::Error>)
        ensures r is Ok ==> final(dst)@ == old(dst)@ + Self::enc(item),
                old(dst)@.is_prefix_of(final(dst)@);
}

/// tokio_util::codec::Decoder as a state transformer: `dec(c, b)` / `dec_eof(c, b)` give the result, the buffer that
/// is left and the codec state afterwards.
pub enum Dec<T> { Frame(T), NeedMore, Error }

pub trait Decoder: Sized {
    type Item;
    type Error: From<io::Error>;
    spec fn dec(c: Self, buf: Seq<u8>) -> (Dec<Self::Item>, Seq<u8>, Self);
    spec fn dec_eof(c: Self, buf: Seq<u8>) -> (Dec<Self::Item>, Seq<u8>, Self);

    fn decode(&mut self, src: &mut BytesMut) -> (r: Result<Option<Self::Item>, Self::Error>)
        ensures
            (match r { Ok(Some(f)) => Dec::Frame(f), Ok(None) => Dec::NeedMore, Err(_) => Dec::Error }, final(src)@, *final(self))
                == Self::dec(*old(self), old(src)@);

    fn decode_eof(&mut self, src: &mut BytesMut) -> (r: Result<Option<Self::Item>, Self::Error>)
        ensures
            (match r { Ok(Some(f)) => Dec::Frame(f), Ok(None) => Dec::NeedMore, Err(_) => Dec::Error }, final(src)@, *final(self))
                == Self::dec_eof(*old(self), old(src)@);
}


/// "need more data" neither consumes bytes nor changes the codec
pub open spec fn need_more_is_noop<U: Decoder>() -> bool {
    forall|c: U, b: Seq<u8>| (#[trigger] U::dec(c, b)).0 is NeedMore ==> U::dec(c, b).1 == b && U::dec(c, b).2 == c
}

/// a frame decoded from a prefix of the stream is not changed by bytes that arrive later, and those bytes stay behind it
pub open spec fn frame_is_prefix_stable<U: Decoder>() -> bool {
    forall|c: U, b: Seq<u8>, t: Seq<u8>| #![trigger U::dec(c, b), U::dec(c, b + t)]
        U::dec(c, b).0 is Frame ==> U::dec(c, b + t) == (U::dec(c, b).0, U::dec(c, b).1 + t, U::dec(c, b).2)
}
