// ===== core::task stand-ins (TRUSTED BASE): the real `core::task::Poll`, an opaque `Context` =====
#[verifier::reject_recursive_types(T)]
#[verifier::external_type_specification]
pub struct ExPoll<T>(core::task::Poll<T>);

#[verifier::external_body]
pub struct Context<'a> { _p: core::marker::PhantomData<&'a ()> }

// `?` on a Result inside a fn returning Poll<Result<..>> / Poll<Option<Result<..>>> (core's FromResidual impls)
pub assume_specification<T, E, F: From<E>>[ <Poll<Result<T, F>> as core::ops::FromResidual<Result<core::convert::Infallible, E>>>::from_residual ](
    x: Result<core::convert::Infallible, E>) -> (r: Poll<Result<T, F>>)
    ensures x matches Err(e) ==> (r matches Poll::Ready(Err(f)) && call_ensures(<F as From<E>>::from, (e,), f));

pub assume_specification<T, E, F: From<E>>[ <Poll<Option<Result<T, F>>> as core::ops::FromResidual<Result<core::convert::Infallible, E>>>::from_residual ](
    x: Result<core::convert::Infallible, E>) -> (r: Poll<Option<Result<T, F>>>)
    ensures x matches Err(e) ==> (r matches Poll::Ready(Some(Err(f))) && call_ensures(<F as From<E>>::from, (e,), f));

// `?` applied directly to a Poll<Result<T, E>> (core's `impl Try for Poll<Result<T, E>>`): an error leaves the function,
// Ready(Ok(x)) continues as Ready(x), Pending continues as Pending
pub assume_specification<T, E>[ <Poll<Result<T, E>> as core::ops::Try>::branch ](p: Poll<Result<T, E>>)
    -> (r: core::ops::ControlFlow<<Poll<Result<T, E>> as core::ops::Try>::Residual, <Poll<Result<T, E>> as core::ops::Try>::Output>)
    ensures match p {
        Poll::Ready(Ok(x)) => r == core::ops::ControlFlow::<Result<core::convert::Infallible, E>, Poll<T>>::Continue(Poll::Ready(x)),
        Poll::Ready(Err(e)) => r == core::ops::ControlFlow::<Result<core::convert::Infallible, E>, Poll<T>>::Break(Err(e)),
        Poll::Pending => r == core::ops::ControlFlow::<Result<core::convert::Infallible, E>, Poll<T>>::Continue(Poll::Pending),
    };

// core's reflexive conversion `impl<T> From<T> for T`
pub assume_specification<T>[ <T as From<T>>::from ](t: T) -> (r: T)
    ensures r == t;
