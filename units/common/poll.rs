// ===== core::task stand-ins (TRUSTED BASE): the real `core::task::Poll`, an opaque `Context` =====
#[verifier::reject_recursive_types(T)]
#[verifier::external_type_specification]
pub struct ExPoll<T>(core::task::Poll<T>);

#[verifier::external_body]
pub struct Context<'a> { _p: core::marker::PhantomData<&'a ()> }
