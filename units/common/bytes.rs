// ===== bytes / memchr / String stand-ins (TRUSTED BASE).  A buffer is its byte sequence; capacity is a separate ghost
// number that only `reserve`/`with_capacity` talk about. =====
#[verifier::external_body]
pub struct BytesMut { _p: () }

#[verifier::external_body]
pub struct Bytes { _p: () }

impl Bytes {
    pub uninterp spec fn view(&self) -> Seq<u8>;

    #[verifier::external_body]
    pub fn to_vec(&self) -> (r: Vec<u8>)
        ensures r@ == self@,
    { unimplemented!() }

    #[verifier::external_body]
    pub fn len(&self) -> (r: usize)
        ensures r == self@.len(),
    { unimplemented!() }

    /// Buf::chunk of a `Bytes`: the whole remaining content
    #[verifier::external_body]
    pub fn chunk(&self) -> (r: &[u8])
        ensures r@ == self@,
    { unimplemented!() }
}

/// a buffer handed out by `split()` is determined by its content
pub uninterp spec fn bytesmut_of(b: Seq<u8>) -> BytesMut;

impl BytesMut {
    pub uninterp spec fn view(&self) -> Seq<u8>;
    pub uninterp spec fn cap(&self) -> nat;

    #[verifier::external_body]
    pub fn is_empty(&self) -> (r: bool)
        ensures r == (self@.len() == 0),
    { unimplemented!() }

    #[verifier::external_body]
    pub fn len(&self) -> (r: usize)
        ensures r == self@.len(),
    { unimplemented!() }

    #[verifier::external_body]
    pub fn capacity(&self) -> (r: usize)
        ensures r == self.cap(), r >= self@.len(),
    { unimplemented!() }

    /// grows the capacity; the content is untouched.  (bytes panics on capacity overflow: not modelled)
    #[verifier::external_body]
    pub fn reserve(&mut self, additional: usize)
        ensures final(self)@ == old(self)@, final(self).cap() >= old(self)@.len() + additional,
    { unimplemented!() }

    /// panics if `at > len`
    #[verifier::external_body]
    pub fn split_to(&mut self, at: usize) -> (r: BytesMut)
        requires at <= old(self)@.len(),
        ensures r@ == old(self)@.subrange(0, at as int),
                final(self)@ == old(self)@.subrange(at as int, old(self)@.len() as int),
    { unimplemented!() }

    #[verifier::external_body]
    pub fn split(&mut self) -> (r: BytesMut)
        ensures r@ == old(self)@, final(self)@ == Seq::<u8>::empty(), r == bytesmut_of(old(self)@),
    { unimplemented!() }

    /// Buf::advance; panics if `cnt > len`
    #[verifier::external_body]
    pub fn advance(&mut self, cnt: usize)
        requires cnt <= old(self)@.len(),
        ensures final(self)@ == old(self)@.subrange(cnt as int, old(self)@.len() as int),
    { unimplemented!() }

    #[verifier::external_body]
    pub fn clear(&mut self)
        ensures final(self)@.len() == 0,
    { unimplemented!() }
    #[verifier::external_body]
    pub fn truncate(&mut self, len: usize)
        ensures final(self)@ == (if len <= old(self)@.len() { old(self)@.subrange(0, len as int) } else { old(self)@ }),
    { unimplemented!() }

    /// <[u8]>::last through Deref
    #[verifier::external_body]
    pub fn last(&self) -> (r: Option<&u8>)
        ensures self@.len() == 0 ==> r.is_none(),
                self@.len() > 0 ==> r == Some(&self@[self@.len() - 1]),
    { unimplemented!() }

    #[verifier::external_body]
    pub fn freeze(self) -> (r: Bytes)
        ensures r@ == self@,
    { unimplemented!() }

    #[verifier::external_body]
    pub fn put_slice(&mut self, src: &[u8])
        ensures final(self)@ == old(self)@ + src@,
    { unimplemented!() }

    #[verifier::external_body]
    pub fn extend_from_slice(&mut self, src: &[u8])
        ensures final(self)@ == old(self)@ + src@,
    { unimplemented!() }

    #[verifier::external_body]
    pub fn put_u8(&mut self, b: u8)
        ensures final(self)@ == old(self)@.push(b),
    { unimplemented!() }

    #[verifier::external_body]
    pub fn with_capacity(n: usize) -> (r: BytesMut)
        ensures r@.len() == 0, r.cap() >= n,
    { unimplemented!() }

    #[verifier::external_body]
    pub fn new() -> (r: BytesMut)
        ensures r@.len() == 0,
    { unimplemented!() }
}

/// anything that derefs to a byte slice (`&BytesMut`, `&[u8]`, `&buf[a..]`)
pub trait ByteView { spec fn bv(&self) -> Seq<u8>; }
impl ByteView for BytesMut { open spec fn bv(&self) -> Seq<u8> { self@ } }
impl ByteView for [u8] { open spec fn bv(&self) -> Seq<u8> { self@ } }

// `&buf[..k]` / `&buf[a..b]` (panic when out of range)
impl vstd::std_specs::core::IndexSpecImpl<core::ops::RangeTo<usize>> for BytesMut {
    open spec fn index_req(&self, r: &core::ops::RangeTo<usize>) -> bool { r.end <= self@.len() }
}
impl core::ops::Index<core::ops::RangeTo<usize>> for BytesMut {
    type Output = [u8];
    #[verifier::external_body]
    fn index(&self, r: core::ops::RangeTo<usize>) -> (o: &[u8])
        ensures o@ == self@.subrange(0, r.end as int)
    { unimplemented!() }
}
impl vstd::std_specs::core::IndexSpecImpl<core::ops::Range<usize>> for BytesMut {
    open spec fn index_req(&self, r: &core::ops::Range<usize>) -> bool { r.start <= r.end && r.end <= self@.len() }
}
impl core::ops::Index<core::ops::Range<usize>> for BytesMut {
    type Output = [u8];
    #[verifier::external_body]
    fn index(&self, r: core::ops::Range<usize>) -> (o: &[u8])
        ensures o@ == self@.subrange(r.start as int, r.end as int)
    { unimplemented!() }
}
// `&buf[k..]` (slicing through Deref<Target=[u8]>; panics when k > len)
impl vstd::std_specs::core::IndexSpecImpl<core::ops::RangeFrom<usize>> for BytesMut {
    open spec fn index_req(&self, r: &core::ops::RangeFrom<usize>) -> bool { r.start <= self@.len() }
}
impl core::ops::Index<core::ops::RangeFrom<usize>> for BytesMut {
    type Output = [u8];
    #[verifier::external_body]
    fn index(&self, r: core::ops::RangeFrom<usize>) -> (o: &[u8])
        ensures o@ == self@.subrange(r.start as int, self@.len() as int)
    { unimplemented!() }
}

/// memchr::memchr: index of the first occurrence
#[verifier::external_body]
pub fn memchr<B: ByteView + ?Sized>(needle: u8, hay: &B) -> (r: Option<usize>)
    ensures
        r matches Some(i) ==> i < hay.bv().len() && hay.bv()[i as int] == needle && forall|j: int| 0 <= j < i ==> hay.bv()[j] != needle,
        r matches Some(i) ==> i < isize::MAX as usize,      // a Rust slice is at most isize::MAX bytes long
        r is None ==> forall|j: int| 0 <= j < hay.bv().len() ==> hay.bv()[j] != needle,
{ unimplemented!() }

/// UTF-8 validity is an uninterpreted predicate tied to the std validators (which are trusted)
pub uninterp spec fn is_utf8(s: Seq<u8>) -> bool;

/// the empty string is valid UTF-8 (std fact)
#[verifier::external_body]
pub proof fn axiom_utf8_empty()
    ensures is_utf8(Seq::<u8>::empty()),
{ }

/// std String, shadowed inside the unit: only its UTF-8 bytes are modelled
#[verifier::external_body]
pub struct String { _p: () }

#[verifier::external_body]
pub struct FromUtf8Error { _p: () }
impl FromUtf8Error {
    /// FromUtf8Error::utf8_error: the underlying Utf8Error (its `error_len()` is arbitrary: None for a truncated
    /// sequence, Some(n) otherwise — nothing more is modelled)
    #[verifier::external_body]
    pub fn utf8_error(&self) -> (r: str::Utf8Error) { unimplemented!() }
}

impl String {
    pub uninterp spec fn bytes(&self) -> Seq<u8>;

    #[verifier::external_body]
    pub fn new() -> (r: String)
        ensures r.bytes() == Seq::<u8>::empty(), r == string_of(Seq::<u8>::empty()),
    { unimplemented!() }

    #[verifier::external_body]
    pub fn from_utf8(v: Vec<u8>) -> (r: Result<String, FromUtf8Error>)
        ensures r.is_ok() <==> is_utf8(v@),
                r matches Ok(s) ==> s.bytes() == v@ && s == string_of(v@),
    { unimplemented!() }
}

/// a String is determined by its bytes
pub uninterp spec fn string_of(b: Seq<u8>) -> String;

impl ByteView for Bytes { open spec fn bv(&self) -> Seq<u8> { self@ } }

/// the primitive `str` as far as this unit needs it: its UTF-8 bytes (always valid UTF-8 — language guarantee)
#[verifier::external_body]
pub struct Str { _p: () }

impl Str {
    pub uninterp spec fn bytes(&self) -> Seq<u8>;

    #[verifier::external_body]
    pub fn to_owned(&self) -> (r: String)
        ensures r.bytes() == self.bytes(), r == string_of(self.bytes()),
    { unimplemented!() }
    #[verifier::external_body]
    pub fn to_string(&self) -> (r: String)
        ensures r.bytes() == self.bytes(), r == string_of(self.bytes()),
    { unimplemented!() }
    #[verifier::external_body]
    pub fn len(&self) -> (r: usize)
        ensures r == self.bytes().len(), r <= isize::MAX as usize,   // Rust slices never exceed isize::MAX bytes
    { unimplemented!() }
    #[verifier::external_body]
    pub fn as_bytes(&self) -> (r: &[u8]) ensures r@ == self.bytes(), is_utf8(r@) { unimplemented!() }
}

/// core::str validators (paths `std::str::` / `core::str::` are mapped here by rule R15d)
pub mod str {
    use vstd::prelude::*;
    use super::{ByteView, Str, is_utf8};
    #[verifier::external_body]
    pub struct Utf8Error { _p: () }
    impl Utf8Error {
        /// None = the input ends inside a code point; Some(n) = n unexpected bytes.  Nothing else is modelled.
        #[verifier::external_body]
        pub fn error_len(&self) -> (r: Option<usize>) { unimplemented!() }
        #[verifier::external_body]
        pub fn valid_up_to(&self) -> (r: usize) { unimplemented!() }
    }
    /// core::str::from_utf8: the reference validator
    #[verifier::external_body]
    pub fn from_utf8<B: ByteView + ?Sized>(v: &B) -> (r: Result<&Str, Utf8Error>)
        ensures r.is_ok() <==> is_utf8(v.bv()), r matches Ok(s) ==> s.bytes() == v.bv(),
    { unimplemented!() }
}

#[verifier::external_body]
pub proof fn axiom_string_of(b: Seq<u8>)
    ensures string_of(b).bytes() == b,
{ }

#[verifier::external_body]
pub proof fn axiom_string_ext(s: String)
    ensures string_of(s.bytes()) == s,
{ }

impl IoError {
    #[verifier::external_body]
    pub fn new<E>(kind: ErrorKind, e: E) -> (r: IoError)
        ensures r.spec_kind() == kind,
    { unimplemented!() }
}
