// ===== actix-tls acceptor FACTORY environment (TRUSTED BASE): configuration reaches the service (C18) =====
pub mod std { pub mod time { pub use crate::Duration; } }
//@extract_const file=actix-tls/src/accept/mod.rs name=DEFAULT_TLS_HANDSHAKE_TIMEOUT dur_spec=default_hs_timeout_ns
impl Clone for Counter { #[verifier::external_body] fn clone(&self) -> (r: Counter) ensures r.id() == self.id() { unimplemented!() } }
/// accept/mod.rs `thread_local! { static MAX_CONN_COUNTER: Counter = .. }`: this thread's counter (rule R23)
pub struct MaxConnCounterKey { }
pub const MAX_CONN_COUNTER: MaxConnCounterKey = MaxConnCounterKey { };
pub uninterp spec fn thread_counter_id() -> int;
impl MaxConnCounterKey {
    #[verifier::external_body]
    pub fn tls_ref(&self) -> (r: &Counter) ensures r.id() == thread_counter_id() { unimplemented!() }
}
/// actix_utils::future::{ready, Ready}
#[verifier::reject_recursive_types(T)]
pub struct FutReady<T> { pub val: Option<T> }
pub fn ready<T>(t: T) -> (r: FutReady<T>) ensures r.val == Some(t) { FutReady { val: Some(t) } }
/// accept/mod.rs `static MAX_CONN: AtomicUsize` (the configured per-thread limit) and `Counter::new`: a NEW counter is
/// not this thread's shared counter
pub struct MaxConn { }
pub const MAX_CONN: MaxConn = MaxConn { };
pub enum Ordering { Relaxed, SeqCst }
/// the value of `MAX_CONN` at the time of the (one) load made during the verified call; PROPHECY name `stored_in_call`:
/// the value the (one) store made during the verified call writes
//@once store
pub uninterp spec fn max_conn_configured() -> usize;
impl MaxConn {
    pub uninterp spec fn stored_in_call(&self) -> Option<usize>;
    #[verifier::external_body] pub fn load(&self, o: Ordering) -> (r: usize) ensures r == max_conn_configured() { unimplemented!() }
    #[verifier::external_body] pub fn store(&self, v: usize, o: Ordering) ensures self.stored_in_call() == Some(v) { unimplemented!() }
}
pub uninterp spec fn fresh_counter_id(n: usize) -> int;
#[verifier::external_body]
pub proof fn axiom_fresh_counter(n: usize) ensures fresh_counter_id(n) != thread_counter_id() { }
impl Counter {
    #[verifier::external_body]
    pub fn new(n: usize) -> (r: Counter) ensures r.id() == fresh_counter_id(n), r.capacity() == n, r.count() == 0 { unimplemented!() }
}
