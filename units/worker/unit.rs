// Unit `worker`: actix-server/src/worker.rs — ServerWorker::poll and its helpers (C01 worker side, C06, C07).
//@assumes unit=server_service fns=worker::wrap_worker_services,service::create,service::create_block,service::StreamNewService::create
//@assumes unit=worker_start fns=worker::start,worker::start_block_create,worker::start_block_sys
use vstd::prelude::*;
use core::task::Poll;
use std::mem;

// futures_core::ready! (3 lines, reproduced: macros cannot be extracted)
macro_rules! ready {
    ($e:expr $(,)?) => {
        match $e {
            core::task::Poll::Ready(t) => t,
            core::task::Poll::Pending => return core::task::Poll::Pending,
        }
    };
}

verus! {

//@include ../common/core.rs
//@include ../common/poll.rs
//@extract_type file=actix-server/src/worker.rs item="struct Conn"
//@check_no_derive file=actix-server/src/worker.rs name=Conn forbid=Clone,Copy
//@include ../common/server_env.rs

pub assume_specification<T>[ core::mem::take::<T> ](dest: &mut T) -> (r: T)
    where T: Default
    ensures r == *old(dest);

// ===================================================================== tokio channels / timers (TRUSTED BASE)
/// tokio::sync::mpsc::UnboundedReceiver.  `received()` is a ghost log of everything taken out of the channel.
/// Other threads push concurrently, so nothing is known about what is still queued; what *is* known about a value
/// that comes out is the sender-side precondition it was sent under (Conn: `wf()` and a token below the number of
/// configured listeners — `WorkerHandleAccept::send`'s `requires` in unit accept).
#[verifier::external_body]
#[verifier::reject_recursive_types(T)]
pub struct UnboundedReceiver<T> { _p: core::marker::PhantomData<T> }

impl<T> UnboundedReceiver<T> {
    pub uninterp spec fn received(&self) -> Seq<T>;
    /// `parked()`: the most recent poll_recv returned Pending (the channel holds the worker's waker)
    pub uninterp spec fn parked(&self) -> bool;
}

impl UnboundedReceiver<Conn> {
    #[verifier::external_body]
    pub fn poll_recv(&mut self, cx: &mut Context<'_>) -> (r: Poll<Option<Conn>>)
        ensures
            final(self).parked() == (r is Pending),
            r matches Poll::Ready(Some(v)) ==> final(self).received() == old(self).received().push(v) && v.wf() && v.token < n_listeners(),
            !(r matches Poll::Ready(Some(_))) ==> final(self).received() == old(self).received(),
    { unimplemented!() }
}

impl UnboundedReceiver<Stop> {
    #[verifier::external_body]
    pub fn poll_recv(&mut self, cx: &mut Context<'_>) -> (r: Poll<Option<Stop>>)
        ensures
            final(self).parked() == (r is Pending),
            r matches Poll::Ready(Some(v)) ==> final(self).received() == old(self).received().push(v),
            !(r matches Poll::Ready(Some(_))) ==> final(self).received() == old(self).received(),
    { unimplemented!() }
}

pub mod oneshot {
    use vstd::prelude::*;
    #[verifier::external_body]
    #[verifier::reject_recursive_types(T)]
    pub struct Sender<T> { _p: core::marker::PhantomData<T> }
    impl<T> Sender<T> {
        #[verifier::external_body]
        pub fn send(self, t: T) -> (r: Result<(), T>)
        { unimplemented!() }
    }
}

/// tokio Sleep behind Pin<Box<_>>.  `Box`/`Pin` are shadowed by these stand-ins inside this unit (the extracted
/// functions use them only for the shutdown timer).  The timer is ready iff the (frozen, A-CLOCK) clock has reached
/// its deadline.
#[verifier::external_body]
pub struct Sleep { _p: () }
#[verifier::external_body]
#[verifier::reject_recursive_types(T)]
pub struct Box<T> { _p: core::marker::PhantomData<T> }
#[verifier::external_body]
#[verifier::reject_recursive_types(P)]
pub struct Pin<P> { _p: core::marker::PhantomData<P> }

impl Sleep {
    pub uninterp spec fn deadline(&self) -> int;
}

#[verifier::external_body]
pub fn sleep(d: Duration) -> (r: Sleep)
    ensures r.deadline() == now_spec() + d.ns(),
{ unimplemented!() }

impl Box<Sleep> {
    #[verifier::external_body]
    pub fn pin(x: Sleep) -> (r: Pin<Box<Sleep>>)
        ensures r.deadline() == x.deadline(),
    { unimplemented!() }
}

impl Pin<Box<Sleep>> {
    pub uninterp spec fn deadline(&self) -> int;

    #[verifier::external_body]
    pub fn as_mut(&mut self) -> (r: &mut Pin<Box<Sleep>>)
        ensures *r == *old(self), *final(r) == *final(self),
    { unimplemented!() }

    /// `parked()`: the most recent poll returned Pending, i.e. the timer holds this task's waker
    pub uninterp spec fn parked(&self) -> bool;

    #[verifier::external_body]
    pub fn poll(&mut self, cx: &mut Context<'_>) -> (r: Poll<()>)
        ensures final(self).deadline() == old(self).deadline(),
                (r is Ready) <==> now_spec() >= old(self).deadline(),
                final(self).parked() == (r is Pending),
    { unimplemented!() }

    #[verifier::external_body]
    pub fn reset(&mut self, deadline: Instant)
        ensures final(self).deadline() == deadline.t(), final(self).parked() == old(self).parked(),
    { unimplemented!() }
}

// ===================================================================== services and factories (TRUSTED BASE)
#[verifier::external_body]
pub struct WorkerCounterGuard { _p: () }

/// worker.rs WorkerCounter.  `guard` is declared `&mut self` (receiver strengthening: every call site is
/// `this.counter.guard()` with `this: &mut ServerWorker`) so that the number of guards created can be counted.
/// `total()` reads the shared atomic; its value is fixed for the duration of one verified call.
#[verifier::external_body]
pub struct WorkerCounter { _p: () }

impl WorkerCounter {
    pub uninterp spec fn guards(&self) -> nat;
    pub uninterp spec fn spec_total(&self) -> usize;

    #[verifier::external_body]
    pub fn guard(&mut self) -> (g: WorkerCounterGuard)
        ensures final(self).guards() == old(self).guards() + 1, final(self).spec_total() == old(self).spec_total(),
    { unimplemented!() }

    #[verifier::external_body]
    pub fn total(&self) -> (r: usize)
        ensures r == self.spec_total(),
    { unimplemented!() }
}

/// service.rs BoxedServerService (Box<dyn Service<(WorkerCounterGuard, MioStream)>>).  Ghost state:
/// `token()` the listener token the instance was created for, `calls()` the streams it has been called with,
/// `polls()` the number of readiness polls, `last_ready()` = its most recent `poll_ready` answered Ready(Ok) and it
/// has not been called since.  Both methods are declared `&mut self` (receiver strengthening).
#[verifier::external_body]
pub struct BoxedServerService { _p: () }

#[verifier::external_body]
pub struct ReadyFut { _p: () }

impl ReadyFut {
    #[verifier::external_body]
    pub fn into_inner(self) -> (r: Result<(), ()>)
    { unimplemented!() }
}

impl BoxedServerService {
    pub uninterp spec fn token(&self) -> int;
    pub uninterp spec fn calls(&self) -> Seq<MioStream>;
    pub uninterp spec fn polls(&self) -> nat;
    pub uninterp spec fn last_ready(&self) -> bool;
    /// `parked()`: the most recent poll_ready returned Pending (the service holds the worker's waker)
    pub uninterp spec fn parked(&self) -> bool;

    #[verifier::external_body]
    pub fn poll_ready(&mut self, cx: &mut Context<'_>) -> (r: Poll<Result<(), ()>>)
        ensures final(self).token() == old(self).token(),
                final(self).parked() == (r is Pending),
                final(self).calls() == old(self).calls(),
                final(self).polls() == old(self).polls() + 1,
                final(self).last_ready() == (r matches Poll::Ready(Ok(_))),
    { unimplemented!() }

    /// [C07] only right after it reported ready; [C01] only with a stream accepted on its own listener
    #[verifier::external_body]
    pub fn call(&mut self, req: (WorkerCounterGuard, MioStream)) -> (r: ReadyFut)
        requires old(self).last_ready(),   // [C07]
                 req.1.origin() == old(self).token(),   // [C01]
        ensures final(self).token() == old(self).token(),
                final(self).calls() == old(self).calls().push(req.1),
                final(self).polls() == old(self).polls(),
                !final(self).last_ready(), final(self).parked() == old(self).parked(),
    { unimplemented!() }
}

/// Box<dyn InternalServiceFactory>: `create()` builds a new instance of the service for the factory's own token
#[verifier::external_body]
pub struct BoxedFactory { _p: () }

#[verifier::external_body]
#[verifier::reject_recursive_types(T)]
pub struct LocalBoxFuture<'a, T> { _p: core::marker::PhantomData<&'a T> }

impl BoxedFactory {
    pub uninterp spec fn token(&self) -> int;

    #[verifier::external_body]
    pub fn create(&self) -> (r: LocalBoxFuture<'static, Result<(usize, BoxedServerService), ()>>)
        ensures r.yields_token() == self.token(),
    { unimplemented!() }
}

impl<'a> LocalBoxFuture<'a, Result<(usize, BoxedServerService), ()>> {
    pub uninterp spec fn yields_token(&self) -> int;
    pub uninterp spec fn parked(&self) -> bool;

    #[verifier::external_body]
    pub fn as_mut(&mut self) -> (r: &mut Self)
        ensures *r == *old(self), *final(r) == *final(self),
    { unimplemented!() }

    #[verifier::external_body]
    pub fn poll(&mut self, cx: &mut Context<'_>) -> (r: Poll<Result<(usize, BoxedServerService), ()>>)
        ensures final(self).yields_token() == old(self).yields_token(), final(self).parked() == (r is Pending),
                r matches Poll::Ready(Ok(p)) ==> p.0 as int == old(self).yields_token() && p.1.token() == old(self).yields_token()
                    && p.1.calls().len() == 0 && !p.1.last_ready(),
    { unimplemented!() }
}

// ===================================================================== real types of worker.rs
//@extract_type file=actix-server/src/worker.rs item="struct Stop"
//@extract_type file=actix-server/src/worker.rs item="enum WorkerServiceStatus" derive="PartialEq, Eq, Clone, Copy, Structural"
//@extract_type file=actix-server/src/worker.rs item="struct WorkerService"
//@extract_type file=actix-server/src/worker.rs item="struct Restart"
//@extract_type file=actix-server/src/worker.rs item="struct Shutdown"
//@extract_type file=actix-server/src/worker.rs item="enum WorkerState"

impl Default for WorkerServiceStatus {
//@extract file=actix-server/src/worker.rs item="impl Default for WorkerServiceStatus / fn default" ret=r props=C07 name=worker::status_default
//@spec
    ensures r is Unavailable,      // [C07] a service that has not been polled yet is not called
//@end
}

impl Default for WorkerState {
    fn default() -> Self { WorkerState::Unavailable }
}

/// ServerWorker is re-declared (its boxed-slice / dyn fields have stand-in types); the extractor checks on every run
/// that the real struct still has exactly these fields in this order — in particular that `conn_rx` is still the
/// first field, i.e. is dropped first (C08).
//@check_struct file=actix-server/src/worker.rs name=ServerWorker fields=conn_rx,stop_rx,counter,services,factories,state,shutdown_timeout
pub struct ServerWorker {
    pub conn_rx: UnboundedReceiver<Conn>,
    pub stop_rx: UnboundedReceiver<Stop>,
    pub counter: WorkerCounter,
    pub services: Vec<WorkerService>,
    pub factories: Vec<BoxedFactory>,
    pub state: WorkerState,
    pub shutdown_timeout: Duration,
}

impl ServerWorker {
    // rule R4: `self: Pin<&mut Self>` became `&mut self`; these two are the identity
    pub fn as_mut(&mut self) -> (r: &mut ServerWorker)
        ensures *r == *old(self), *final(r) == *final(self),
    { self }

    pub fn get_mut(&mut self) -> (r: &mut ServerWorker)
        ensures *r == *old(self), *final(r) == *final(self),
    { self }
}

/// actix_rt::{Arbiter, ArbiterHandle} as far as the worker's destructor uses them
#[verifier::external_body]
pub struct ArbiterHandle { _p: () }
pub struct Arbiter { }
impl Arbiter { #[verifier::external_body] pub fn try_current() -> (r: Option<ArbiterHandle>) { unimplemented!() } }
impl ArbiterHandle { #[verifier::external_body] pub fn stop(&self) -> (r: bool) { unimplemented!() } }

impl ServerWorker {
//@extract file=actix-server/src/worker.rs item="impl Drop for ServerWorker / fn drop" props=C01,C08 name=worker::drop_worker
//@spec
    ensures
        // The destructor BODY runs no user code and leaves every field as it is; the fields are dropped after it, in
        // declaration order — `conn_rx` first (checked above).  So the connection channel closes (the accept thread's
        // next send fails and the connection is re-routed) before any service instance's own Drop can run.   [C08]
        *final(self) == *old(self),
//@end
}

// ===================================================================== specification vocabulary
pub open spec fn pollable(s: WorkerServiceStatus) -> bool {
    s == WorkerServiceStatus::Available || s == WorkerServiceStatus::Unavailable
}

impl ServerWorker {
    /// table invariant: service k serves listener token k and was built by a factory for token k   [C01]
    pub open spec fn table_wf(&self) -> bool {
        &&& self.services@.len() == n_listeners()
        &&& forall|k: int| 0 <= k < self.services@.len() ==> {
            &&& (#[trigger] self.services@[k]).service.token() == k
            &&& self.services@[k].factory_idx < self.factories@.len()
            &&& self.factories@[self.services@[k].factory_idx as int].token() == k
        }
    }

    /// state / status coherence   [C07]
    pub open spec fn wf(&self) -> bool {
        &&& self.table_wf()
        &&& match self.state {
            WorkerState::Available | WorkerState::Unavailable =>
                forall|k: int| 0 <= k < self.services@.len() ==> pollable((#[trigger] self.services@[k]).status),
            WorkerState::Restarting(r) => {
                &&& r.token < self.services@.len()
                &&& r.factory_id == self.services@[r.token as int].factory_idx
                &&& r.fut.yields_token() == r.token
                &&& self.services@[r.token as int].status == WorkerServiceStatus::Restarting
                &&& forall|k: int| 0 <= k < self.services@.len() && k != r.token ==> pollable((#[trigger] self.services@[k]).status)
            },
            WorkerState::Shutdown(_) => true,
        }
    }

    /// the wake-up source of a pending worker, by state
    pub open spec fn parked_somewhere(&self) -> bool {
        match self.state {
            WorkerState::Available => self.conn_rx.parked(),
            WorkerState::Unavailable => exists|k: int| 0 <= k < self.services@.len() && (#[trigger] self.services@[k]).service.parked(),
            WorkerState::Restarting(r) => r.fut.parked(),
            WorkerState::Shutdown(s) => s.timer.parked(),
        }
    }

    pub open spec fn all_ready(&self) -> bool {
        forall|k: int| 0 <= k < self.services@.len() ==> (#[trigger] self.services@[k]).service.last_ready()
            && self.services@[k].status == WorkerServiceStatus::Available
    }

    pub open spec fn total_calls(&self) -> nat { calls_sum(self.services@) }
}

pub open spec fn calls_sum(s: Seq<WorkerService>) -> nat
    decreases s.len()
{
    if s.len() == 0 { 0 } else { calls_sum(s.drop_last()) + s.last().service.calls().len() }
}

/// service entries other than `i` are identical; entry `i` keeps identity (token, factory)
pub open spec fn only_changed(n: Seq<WorkerService>, o: Seq<WorkerService>, i: int) -> bool {
    &&& n.len() == o.len()
    &&& forall|k: int| 0 <= k < o.len() && k != i ==> (#[trigger] n[k]) == o[k]
}

// ===================================================================== contracts on the real functions
impl WorkerService {
//@extract file=actix-server/src/worker.rs item="impl WorkerService / fn created" props=C07
//@spec
    ensures
        final(self).service == service,
        final(self).status == WorkerServiceStatus::Unavailable,   // [C07] a rebuilt service must report ready before it is used
        final(self).factory_idx == old(self).factory_idx,
//@end
}

impl ServerWorker {

//@extract file=actix-server/src/worker.rs item="impl ServerWorker / fn restart_service" props=C07
//@spec
    requires
        old(self).table_wf(),
        idx < old(self).services@.len(),
        factory_id == old(self).services@[idx as int].factory_idx,
    ensures
        // exactly the failed service is marked and scheduled for re-creation from its own factory   [C07]
        final(self).state matches WorkerState::Restarting(r) && r.token == idx && r.factory_id == factory_id && r.fut.yields_token() == idx,
        final(self).services@[idx as int].status == WorkerServiceStatus::Restarting,
        final(self).services@[idx as int].service == old(self).services@[idx as int].service,
        final(self).services@[idx as int].factory_idx == old(self).services@[idx as int].factory_idx,
        only_changed(final(self).services@, old(self).services@, idx as int),
        final(self).conn_rx == old(self).conn_rx && final(self).stop_rx == old(self).stop_rx && final(self).counter == old(self).counter
            && final(self).factories == old(self).factories && final(self).shutdown_timeout == old(self).shutdown_timeout,
//@end

//@extract file=actix-server/src/worker.rs item="impl ServerWorker / fn shutdown" props=C06
//@spec
    ensures
        final(self).services@.len() == old(self).services@.len(),
        forall|k: int| 0 <= k < old(self).services@.len() ==> {
            &&& (#[trigger] final(self).services@[k]).service == old(self).services@[k].service
            &&& final(self).services@[k].factory_idx == old(self).services@[k].factory_idx
            &&& final(self).services@[k].status == (if old(self).services@[k].status == WorkerServiceStatus::Available {
                    if force { WorkerServiceStatus::Stopped } else { WorkerServiceStatus::Stopping } } else { old(self).services@[k].status })
        },
        final(self).conn_rx == old(self).conn_rx && final(self).stop_rx == old(self).stop_rx && final(self).counter == old(self).counter
            && final(self).factories == old(self).factories && final(self).shutdown_timeout == old(self).shutdown_timeout
            && final(self).state == old(self).state,
//@loop 1
        invariant
            r9_n <= self.services@.len(),
            self.services@.len() == old(self).services@.len(),
            self.conn_rx == old(self).conn_rx && self.stop_rx == old(self).stop_rx && self.counter == old(self).counter
                && self.factories == old(self).factories && self.shutdown_timeout == old(self).shutdown_timeout && self.state == old(self).state,
            forall|k: int| r9_n <= k < self.services@.len() ==> (#[trigger] self.services@[k]) == old(self).services@[k],
            forall|k: int| 0 <= k < r9_n ==> {
                &&& (#[trigger] self.services@[k]).service == old(self).services@[k].service
                &&& self.services@[k].factory_idx == old(self).services@[k].factory_idx
                &&& self.services@[k].status == (if old(self).services@[k].status == WorkerServiceStatus::Available {
                        if force { WorkerServiceStatus::Stopped } else { WorkerServiceStatus::Stopping } } else { old(self).services@[k].status })
            },
        decreases self.services@.len() - r9_n,
//@end

//@extract file=actix-server/src/worker.rs item="impl ServerWorker / fn check_readiness" ret=r props=C07
//@spec
    requires
        old(self).table_wf(),
    ensures
        final(self).table_wf(),
        final(self).services@.len() == old(self).services@.len(),
        final(self).conn_rx == old(self).conn_rx && final(self).stop_rx == old(self).stop_rx && final(self).counter == old(self).counter
            && final(self).factories == old(self).factories && final(self).shutdown_timeout == old(self).shutdown_timeout
            && final(self).state == old(self).state,
        // no service is called, none changes identity
        forall|k: int| 0 <= k < old(self).services@.len() ==> {
            &&& (#[trigger] final(self).services@[k]).service.calls() == old(self).services@[k].service.calls()
            &&& final(self).services@[k].factory_idx == old(self).services@[k].factory_idx
            &&& (!pollable(old(self).services@[k].status) ==> final(self).services@[k] == old(self).services@[k])
        },
        // Ok(true): every pollable service was polled in this round, answered ready, and is Available   [C07]
        r matches Ok(true) ==> forall|k: int| 0 <= k < old(self).services@.len() && pollable(old(self).services@[k].status) ==> {
            &&& (#[trigger] final(self).services@[k]).status == WorkerServiceStatus::Available
            &&& final(self).services@[k].service.last_ready()
            &&& final(self).services@[k].service.polls() == old(self).services@[k].service.polls() + 1
        },
        // Ok(false): some service is pending; statuses stay pollable
        r matches Ok(false) ==> {
            &&& exists|k: int| 0 <= k < old(self).services@.len() && (#[trigger] final(self).services@[k]).status == WorkerServiceStatus::Unavailable
                    && final(self).services@[k].service.parked()    // a pending service holds the worker's waker
            &&& forall|k: int| 0 <= k < old(self).services@.len() && pollable(old(self).services@[k].status) ==> pollable((#[trigger] final(self).services@[k]).status)
        },
        // Err((i, f)): exactly service i failed; it is marked Failed, f names its factory, services behind it untouched  [C07]
        r matches Err(p) ==> {
            &&& p.0 < old(self).services@.len()
            &&& pollable(old(self).services@[p.0 as int].status)
            &&& final(self).services@[p.0 as int].status == WorkerServiceStatus::Failed
            &&& p.1 == old(self).services@[p.0 as int].factory_idx
            &&& forall|k: int| p.0 < k < old(self).services@.len() ==> (#[trigger] final(self).services@[k]) == old(self).services@[k]
            &&& forall|k: int| 0 <= k < p.0 && pollable(old(self).services@[k].status) ==> pollable((#[trigger] final(self).services@[k]).status)
        },
//@insert after="let mut ready = true;"
        let ghost mut wit: int = 0;
//@insert after="Poll::Pending => {"
                        proof { wit = idx as int; }
//@insert after="let idx = r9_n;"
            let ghost it_s = self.services@;
//@insert arm_end="while r9_n < self.services.len()"
            assert(forall|k: int| 0 <= k < self.services@.len() && k != idx ==> (#[trigger] self.services@[k]) == it_s[k]);
//@loop 1
        invariant
            r9_n <= self.services@.len(),
            self.services@.len() == old(self).services@.len(),
            self.table_wf(),
            self.conn_rx == old(self).conn_rx && self.stop_rx == old(self).stop_rx && self.counter == old(self).counter
                && self.factories == old(self).factories && self.shutdown_timeout == old(self).shutdown_timeout && self.state == old(self).state,
            forall|k: int| r9_n <= k < self.services@.len() ==> (#[trigger] self.services@[k]) == old(self).services@[k],
            forall|k: int| 0 <= k < r9_n ==> {
                &&& (#[trigger] self.services@[k]).service.calls() == old(self).services@[k].service.calls()
                &&& self.services@[k].service.token() == old(self).services@[k].service.token()
                &&& self.services@[k].factory_idx == old(self).services@[k].factory_idx
                &&& (!pollable(old(self).services@[k].status) ==> self.services@[k] == old(self).services@[k])
                &&& (pollable(old(self).services@[k].status) ==> pollable(self.services@[k].status)
                        && self.services@[k].service.polls() == old(self).services@[k].service.polls() + 1)
                &&& (pollable(old(self).services@[k].status) && ready ==> self.services@[k].status == WorkerServiceStatus::Available
                        && self.services@[k].service.last_ready())
            },
            !ready ==> 0 <= wit < r9_n && self.services@[wit].status == WorkerServiceStatus::Unavailable && self.services@[wit].service.parked(),
        decreases self.services@.len() - r9_n,
//@end


#[verifier::exec_allows_no_decreases_clause]
#[verifier::loop_isolation(false)]
//@extract file=actix-server/src/worker.rs item="impl Future for ServerWorker / fn poll" ret=r props=C01,C06,C07,C02,C03 intended_panics alias_this name=worker::poll
//@spec
    requires
        old(self).wf(),
    ensures
        !(r is Ready) ==> final(self).wf(),   // [C07]
        // the Future contract: Pending is returned only with a wake-up arranged by the source the worker is waiting for
        // in its final state (next connection / a pending service / the restart future / the shutdown tick)   [C03,C06,C07]
        r is Pending ==> final(self).parked_somewhere(),   // [C03,C06,C07]
        final(self).table_wf(),   // [C01,C07]
        final(self).factories == old(self).factories && final(self).shutdown_timeout == old(self).shutdown_timeout,
        final(self).counter.spec_total() == old(self).counter.spec_total(),
        // every connection taken from the channel gets exactly one guard (it is served or released, never leaked) [C01,C02]
        final(self).counter.guards() - old(self).counter.guards()   // [C01,C02]
            == final(self).conn_rx.received().len() - old(self).conn_rx.received().len(),
        old(self).conn_rx.received().len() <= final(self).conn_rx.received().len(),
        old(self).stop_rx.received().len() <= final(self).stop_rx.received().len(),
        // a worker that is shutting down never serves: queued connections are released, not served   [C01,C06]
        old(self).state is Shutdown ==> forall|k: int| 0 <= k < old(self).services@.len() ==>   // [C01,C06]
            (#[trigger] final(self).services@[k]).service.calls() == old(self).services@[k].service.calls(),
        // Stop on an idle worker, or a forced Stop, completes at once: no waiting for connections   [C06]
        got_stop(old(self), final(self)) && (old(self).counter.spec_total() == 0 || !first_stop(old(self), final(self)).graceful)   // [C06]
            ==> r is Ready,
        // a graceful Stop with connections in progress waits: the worker enters Shutdown and stays pending   [C06]
        got_stop(old(self), final(self)) && old(self).counter.spec_total() > 0 && first_stop(old(self), final(self)).graceful   // [C06]
            ==> r is Pending && final(self).state is Shutdown,
        // a worker in graceful shutdown completes only at a timer tick at which it is idle or its shutdown_timeout
        // has elapsed   [C06]
        old(self).state is Shutdown && !got_stop(old(self), final(self)) && r is Ready ==> {   // [C06]
            &&& now_spec() >= sh_deadline(old(self).state)
            &&& (old(self).counter.spec_total() == 0 || elapsed_since(sh_start(old(self).state)) >= old(self).shutdown_timeout.ns())
        },
        old(self).state is Shutdown && !got_stop(old(self), final(self)) && now_spec() >= sh_deadline(old(self).state)   // [C06]
            && (old(self).counter.spec_total() == 0 || elapsed_since(sh_start(old(self).state)) >= old(self).shutdown_timeout.ns()) ==> r is Ready,
//@insert after="Some(msg) => {"
                        let ghost pre_sv = self.services@;
                        let ghost io0 = msg.io;
                        let ghost tok0 = msg.token as int;
                        assert(self.all_ready());   // [C07] called only right after every service reported ready
//@insert arm_end="Some(msg) =>"
                        // exactly one call, on the service registered for the connection's listener, with its stream  [C01]
                        assert(self.services@[tok0].service.calls() == pre_sv[tok0].service.calls().push(io0));   // [C01]
                        assert(only_changed(self.services@, pre_sv, tok0));   // [C01]
//@loop head="while let Poll::Ready(Some(conn)) = self.conn_rx.poll_recv(cx)"
        invariant
            self.services == sv_after && self.factories == old(self).factories && self.shutdown_timeout == old(self).shutdown_timeout,
            WorkerState::Shutdown(*shutdown) == st_sh,
            self.stop_rx == stop_after,
            self.counter.spec_total() == old(self).counter.spec_total(),
            self.counter.guards() - old(self).counter.guards() == self.conn_rx.received().len() - old(self).conn_rx.received().len(),   // [C01,C02]
            old(self).conn_rx.received().len() <= self.conn_rx.received().len(),
//@loop head="loop"
        invariant
            self.wf(), self.state is Available,
            self.factories == old(self).factories && self.shutdown_timeout == old(self).shutdown_timeout,
            self.stop_rx == stop_after,
            old(self).state is Available || old(self).state is Unavailable || old(self).state is Restarting,
            self.counter.spec_total() == old(self).counter.spec_total(),
            self.counter.guards() - old(self).counter.guards() == self.conn_rx.received().len() - old(self).conn_rx.received().len(),   // [C01,C02]
            old(self).conn_rx.received().len() <= self.conn_rx.received().len(),
//@insert before="match self.state {"
        let ghost stop_after = self.stop_rx;
        let ghost st_sh = self.state;
        let ghost sv_after = self.services;
        assert(!got_stop(old(self), self) ==> self.state == old(self).state);
//@end

} // impl ServerWorker

/// time elapsed since `start` on the (frozen) clock, saturating at zero like `Instant::elapsed`
pub open spec fn elapsed_since(start: int) -> int {
    if now_spec() >= start { now_spec() - start } else { 0 }
}

pub open spec fn sh_deadline(st: WorkerState) -> int {
    match st { WorkerState::Shutdown(sh) => sh.timer.deadline(), _ => 0 }
}

pub open spec fn sh_start(st: WorkerState) -> int {
    match st { WorkerState::Shutdown(sh) => sh.start_from.t(), _ => 0 }
}

pub open spec fn got_stop(o: &ServerWorker, n: &ServerWorker) -> bool {
    n.stop_rx.received().len() > o.stop_rx.received().len()
}

/// the first Stop message taken during the call
pub open spec fn first_stop(o: &ServerWorker, n: &ServerWorker) -> Stop {
    n.stop_rx.received()[o.stop_rx.received().len() as int]
}

} // verus!
fn main() {}
