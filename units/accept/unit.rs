// Unit `accept`: actix-server/src/accept.rs — every method of `Accept` on the dispatch and control path.
//@assumes unit=server_cmd fns=server::run_sync
// Text between `//@extract` and `//@end` is only the *contract*; signature and body are copied from /repo on every run.
use vstd::prelude::*;
verus! {

//@include ../common/core.rs
//@extract_type file=actix-server/src/worker.rs item="struct Conn"
//@check_no_derive file=actix-server/src/worker.rs name=Conn forbid=Clone,Copy
//@include ../common/server_env.rs

// ===================================================================== mio (TRUSTED BASE)
#[derive(PartialEq, Eq, Clone, Copy, Structural)]
pub struct MioToken(pub usize);

impl vstd::std_specs::convert::FromSpecImpl<MioToken> for usize {
    open spec fn obeys_from_spec() -> bool { true }
    open spec fn from_spec(t: MioToken) -> usize { t.0 }
}
impl From<MioToken> for usize {
    fn from(t: MioToken) -> (r: usize) { t.0 }
}

#[derive(Clone, Copy)]
pub struct Interest { pub p: u8 }
impl Interest { pub const READABLE: Interest = Interest { p: 1 }; }

/// socket.rs `MioListener`.  Ghost state: `id()` = the token this listener was created for, `registered()` = it
/// is currently registered with the poll instance, `accepts()` = number of `accept()` calls made on it.
/// `accept` is declared `&mut self` (receiver strengthening, DESIGN §3.2): the real method takes `&self`, every
/// call site in accept.rs reaches the listener through `&mut ServerSocketInfo`.
#[verifier::external_body]
pub struct MioListener { _p: () }

impl MioListener {
    pub uninterp spec fn id(&self) -> int;
    pub uninterp spec fn registered(&self) -> bool;
    pub uninterp spec fn accepts(&self) -> nat;
    /// the most recent `accept()` on this listener answered WouldBlock: its backlog has been drained
    pub uninterp spec fn drained(&self) -> bool;

    #[verifier::external_body]
    pub fn accept(&mut self) -> (r: io::Result<MioStream>)
        ensures final(self).id() == old(self).id(),
                final(self).registered() == old(self).registered(),
                final(self).accepts() == old(self).accepts() + 1,
                final(self).drained() <==> (r matches Err(e) && e.spec_kind() == ErrorKind::WouldBlock),
                r matches Ok(s) ==> s.origin() == old(self).id(),
    { unimplemented!() }
}

/// mio::Registry.  `token_bound()` is a ghost constant of the poll instance: an upper bound on every listener token
/// ever registered with it.  `register` *requires* the bound and that a listener is registered under its own token;
/// in exchange `Events` promise that every non-waker token they carry is below the bound (mio returns the token
/// supplied at registration).  OS-level failures of epoll_ctl other than "already registered" are not modelled.
#[verifier::external_body]
pub struct Registry { _p: () }

impl Registry {
    pub uninterp spec fn token_bound(&self) -> usize;

    #[verifier::external_body]
    pub fn register(&self, src: &mut MioListener, token: MioToken, interest: Interest) -> (r: io::Result<()>)
        requires token.0 < self.token_bound(), token.0 as int == old(src).id(),
        ensures final(src).registered(), final(src).id() == old(src).id(), final(src).accepts() == old(src).accepts(),
                final(src).drained() == old(src).drained(),
    { unimplemented!() }

    #[verifier::external_body]
    pub fn deregister(&self, src: &mut MioListener) -> (r: io::Result<()>)
        ensures !final(src).registered(), final(src).id() == old(src).id(), final(src).accepts() == old(src).accepts(),
                final(src).drained() == old(src).drained(),
    { unimplemented!() }
}

#[verifier::external_body]
pub struct Poll { _p: () }

impl Poll {
    pub uninterp spec fn spec_registry(&self) -> Registry;

    #[verifier::external_body]
    pub fn registry(&self) -> (r: &Registry)
        ensures *r == self.spec_registry(),
    { unimplemented!() }

    /// blocks; afterwards `events` holds an arbitrary batch of tokens (see `Events::get`)
    #[verifier::external_body]
    pub fn poll(&mut self, events: &mut Events, timeout: Option<Duration>) -> (r: io::Result<()>)
        ensures final(self).spec_registry() == old(self).spec_registry(),
                final(events).bound() == old(self).spec_registry().token_bound(),
    { unimplemented!() }
}

pub mod mio { pub use super::Events; }

#[verifier::external_body]
pub struct Events { _p: () }

#[verifier::external_body]
pub struct Event { _p: () }

impl Events {
    pub uninterp spec fn bound(&self) -> usize;
    pub uninterp spec fn spec_len(&self) -> usize;

    #[verifier::external_body]
    pub fn with_capacity(n: usize) -> (r: Events)
        ensures r.spec_len() == 0,
    { unimplemented!() }

    #[verifier::external_body]
    pub fn is_empty(&self) -> (r: bool)
        ensures r == (self.spec_len() == 0),
    { unimplemented!() }

    // `len`/`get` are the index form of `events.iter()` (rewrite R9d)
    #[verifier::external_body]
    pub fn len(&self) -> (r: usize)
        ensures r == self.spec_len(),
    { unimplemented!() }

    #[verifier::external_body]
    pub fn get(&self, i: usize) -> (r: &Event)
        requires i < self.spec_len(),
        ensures r.spec_token() == WAKER_TOKEN || r.spec_token().0 < self.bound(),
    { unimplemented!() }
}
/// `events[i]`: the index form of `events.iter()` (rule R9f)
impl vstd::std_specs::core::IndexSpecImpl<usize> for Events {
    open spec fn index_req(&self, i: &usize) -> bool { *i < self.spec_len() }
}
impl core::ops::Index<usize> for Events {
    type Output = Event;
    #[verifier::external_body]
    fn index(&self, i: usize) -> (r: &Event)
        ensures r.spec_token() == WAKER_TOKEN || r.spec_token().0 < self.bound(),
    { unimplemented!() }
}

impl Event {
    pub uninterp spec fn spec_token(&self) -> MioToken;

    #[verifier::external_body]
    pub fn token(&self) -> (r: MioToken)
        ensures r == self.spec_token(),
    { unimplemented!() }
}

// ===================================================================== waker queue (TRUSTED BASE)
//@extract_type file=actix-server/src/waker_queue.rs item="enum WakerInterest"
//@extract_const file=actix-server/src/waker_queue.rs name=WAKER_TOKEN

/// The queue is shared with other threads: `guard()` yields an *arbitrary* content (havoc); `pop_front` and `reset`
/// act on that locked snapshot.  `reset` requires the queue to be empty: it is the statement "the queue is only reset
/// once it has been drained".
#[verifier::external_body]
pub struct WakerQueue { _p: () }

#[verifier::external_body]
pub struct QueueGuard { _p: () }

impl WakerQueue {
    /// the content seen by the most recent `guard()` was empty
    pub uninterp spec fn last_empty(&self) -> bool;

    /// declared `&mut self` (receiver strengthening): the only call site is `self.waker_queue.guard()` in
    /// `handle_waker(&mut self)`; the ghost flag records whether this lock observed an empty queue.
    #[verifier::external_body]
    pub fn guard(&mut self) -> (g: QueueGuard)
        ensures final(self).last_empty() == (g@.len() == 0), g.at_lock() == g@,
    { unimplemented!() }

    #[verifier::external_body]
    pub fn reset(queue: &mut QueueGuard)
        requires old(queue)@.len() == 0,
        ensures final(queue)@.len() == 0,
    { unimplemented!() }
}

impl QueueGuard {
    pub uninterp spec fn view(&self) -> Seq<WakerInterest>;
    /// the queue as it was when this guard was taken (ghost)
    pub uninterp spec fn at_lock(&self) -> Seq<WakerInterest>;

    #[verifier::external_body]
    pub fn pop_front(&mut self) -> (r: Option<WakerInterest>)
        ensures old(self)@.len() == 0 ==> r.is_none() && final(self)@ == old(self)@,
                old(self)@.len() > 0 ==> r == Some(old(self)@[0]) && final(self)@ == old(self)@.subrange(1, old(self)@.len() as int),
                final(self).at_lock() == old(self).at_lock(),
    { unimplemented!() }
    #[verifier::external_body]
    pub fn pop_back(&mut self) -> (r: Option<WakerInterest>)
        ensures old(self)@.len() == 0 ==> r.is_none() && final(self)@ == old(self)@,
                old(self)@.len() > 0 ==> r == Some(old(self)@.last()) && final(self)@ == old(self)@.drop_last(),
                final(self).at_lock() == old(self).at_lock(),
    { unimplemented!() }
}

// ===================================================================== server handle, availability (TRUSTED BASE)
/// handle.rs.  `worker_faulted` is declared `&mut self` (receiver strengthening): its single call site is
/// `self.srv.worker_faulted(idx)` with `self: &mut Accept`; the ghost log records every notification.
#[verifier::external_body]
pub struct ServerHandle { _p: () }

impl ServerHandle {
    pub uninterp spec fn faulted(&self) -> Seq<usize>;

    #[verifier::external_body]
    pub fn worker_faulted(&mut self, idx: usize)
        ensures final(self).faulted() == old(self).faulted().push(idx),
    { unimplemented!() }
}

/// availability.rs: abstract view = the set of worker indices whose bit is set.  These five contracts are exactly
/// what unit `kani_availability` proves about the real bit-twiddling code for all [u128; 4] and all indices.
#[verifier::external_body]
pub struct Availability { _p: () }

impl Availability {
    pub uninterp spec fn view(&self) -> Set<usize>;

    #[verifier::external_body]
    pub fn available(&self) -> (r: bool)
        ensures r <==> exists|i: usize| self@.contains(i),
    { unimplemented!() }

    #[verifier::external_body]
    pub fn get_available(&self, idx: usize) -> (r: bool)
        requires idx < 512,
        ensures r == self@.contains(idx),
    { unimplemented!() }

    #[verifier::external_body]
    pub fn set_available(&mut self, idx: usize, avail: bool)
        requires idx < 512,
        ensures final(self)@ == (if avail { old(self)@.insert(idx) } else { old(self)@.remove(idx) }),
                (avail <==> old(self)@.contains(idx)) ==> final(self)@ == old(self)@,   // setting a bit to its current value
    { unimplemented!() }

    /// `#[derive(Default)]`: no bit set (Kani unit availability: the all-zero array has no available worker)
    #[verifier::external_body]
    pub fn default() -> (r: Availability) ensures r@ == Set::<usize>::empty() { unimplemented!() }

//@extract file=actix-server/src/availability.rs item="impl Availability / fn set_available_all" props=C02,C04,C03 name=availability::set_available_all
//@spec
    requires forall|i: int| 0 <= i < handles@.len() ==> (#[trigger] handles@[i]).spec_idx() < 512,
    ensures
        // exactly the given workers' bits are added   [C02,C04]
        forall|x: usize| final(self)@.contains(x) <==> (old(self)@.contains(x) || exists|k: int| 0 <= k < handles@.len() && (#[trigger] handles@[k]).spec_idx() == x),
//@loop 1
        invariant
            r9_n <= handles@.len(),
            forall|i: int| 0 <= i < handles@.len() ==> (#[trigger] handles@[i]).spec_idx() < 512,
            forall|x: usize| self@.contains(x) <==> (old(self)@.contains(x) || exists|k: int| 0 <= k < r9_n && (#[trigger] handles@[k]).spec_idx() == x),
        decreases handles@.len() - r9_n,
//@end
}

// ===================================================================== real types of accept.rs
/// "the roughly 500 ms back-off" of the property (C05), read with a factor of two: the contracts do not pin the crate's
/// 500 / 510 ms
pub open spec fn backoff_lo() -> nat { 250 * 1_000_000 }
pub open spec fn backoff_hi() -> nat { 1000 * 1_000_000 }
//@extract_const file=actix-server/src/accept.rs name=TIMEOUT_DURATION_ON_ERROR ensures="backoff_lo() <= TIMEOUT_DURATION_ON_ERROR.ns() <= backoff_hi()"
//@extract_type file=actix-server/src/accept.rs item="struct ServerSocketInfo"
//@extract_type file=actix-server/src/accept.rs item="struct Accept"

// ===================================================================== specification vocabulary
impl Accept {
    /// some handle answers to worker index `x`
    pub open spec fn has_idx(&self, x: usize) -> bool {
        exists|k: int| 0 <= k < self.handles@.len() && (#[trigger] self.handles@[k]).spec_idx() == x
    }

    /// representation invariant of the dispatch state
    pub open spec fn wf(&self) -> bool {
        &&& (self.next < self.handles@.len() || (self.handles@.len() == 0 && self.next == 0))
        &&& (forall|i: int| 0 <= i < self.handles@.len() ==> (#[trigger] self.handles@[i]).spec_idx() < 512)
        &&& (forall|x: usize| #[trigger] self.avail@.contains(x) ==> self.has_idx(x))   // [C08] no set bit without a handle
    }

    /// everything the dispatch functions must not touch
    pub open spec fn same_ctl(&self, o: &Accept) -> bool {
        &&& self.poll == o.poll
        &&& self.waker_queue == o.waker_queue
        &&& self.timeout == o.timeout
        &&& self.paused == o.paused
    }

    pub open spec fn reg(&self) -> Registry { self.poll.spec_registry() }
}

impl Accept {
    /// some worker is marked available
    pub open spec fn has_capacity(&self) -> bool { exists|i: usize| self.avail@.contains(i) }
}

pub open spec fn all_alive(a: &Accept) -> bool {
    forall|k: int| 0 <= k < a.handles@.len() ==> (#[trigger] a.handles@[k]).alive()
}

/// the handle `j` positions after `next` in rotation order
pub open spec fn rot_handle(a: &Accept, j: int) -> WorkerHandleAccept {
    a.handles@[(a.next + j) % (a.handles@.len() as int)]
}

/// the first available worker in rotation order from `next` is `steps` positions away   [C04]
pub open spec fn first_avail_at(a: &Accept, steps: int) -> bool {
    &&& a.avail@.contains(rot_handle(a, steps).spec_idx())
    &&& forall|j: int| 0 <= j < steps ==> !a.avail@.contains((#[trigger] rot_handle(a, j)).spec_idx())
}

/// some position whose handle is marked available (termination witness)
pub open spec fn pick(h: Seq<WorkerHandleAccept>, av: Set<usize>) -> int {
    choose|k: int| 0 <= k < h.len() && av.contains((#[trigger] h[k]).spec_idx())
}

pub open spec fn rotdist(h: Seq<WorkerHandleAccept>, av: Set<usize>, next: int) -> int {
    let k = pick(h, av);
    if !(0 <= k < h.len() && av.contains(h[k].spec_idx())) { 0 }
    else if k >= next { k - next } else { k + h.len() - next }
}

impl Accept {
    /// equal in everything but the waker queue's ghost lock record
    pub open spec fn same_state(&self, o: &Accept) -> bool {
        self.same_dispatch(o) && self.poll == o.poll && self.timeout == o.timeout && self.paused == o.paused
    }

    pub open spec fn same_dispatch(&self, o: &Accept) -> bool {
        self.handles == o.handles && self.avail == o.avail && self.srv == o.srv && self.next == o.next
    }
}

/// a listener entry is unchanged except possibly for its registration
pub open spec fn info_same_but_reg(n: &ServerSocketInfo, o: &ServerSocketInfo) -> bool {
    &&& n.token == o.token
    &&& n.timeout == o.timeout
    &&& n.lst.id() == o.lst.id()
    &&& n.lst.accepts() == o.lst.accepts()
    &&& n.lst.drained() == o.lst.drained()
}

pub open spec fn swap_removed<T>(s: Seq<T>, i: int) -> Seq<T> {
    s.update(i, s.last()).drop_last()
}

/// listener table: position k holds token k and the listener created for token k  [C01]
pub open spec fn sockets_wf(s: Seq<ServerSocketInfo>, bound: usize) -> bool {
    &&& s.len() == bound
    &&& s.len() == n_listeners()
    &&& forall|k: int| 0 <= k < s.len() ==> (#[trigger] s[k]).token == k && s[k].lst.id() == k
}

/// [C05] no listener is stranded: a listener is unregistered only while paused or while it waits for its own
/// back-off deadline, and in the latter case the poll timeout is armed.
pub open spec fn i5(a: &Accept, s: Seq<ServerSocketInfo>) -> bool {
    forall|k: int| 0 <= k < s.len() ==> {
        &&& ((#[trigger] s[k]).timeout.is_some() ==> !s[k].lst.registered() && a.timeout.is_some())
        &&& (a.paused ==> !s[k].lst.registered() && s[k].timeout.is_none())
        &&& (!a.paused && s[k].timeout.is_none() ==> s[k].lst.registered())
    }
}

/// identity and accept counters of the listeners are untouched
pub open spec fn same_listeners(s: Seq<ServerSocketInfo>, o: Seq<ServerSocketInfo>) -> bool {
    &&& s.len() == o.len()
    &&& forall|k: int| 0 <= k < s.len() ==> (#[trigger] s[k]).token == o[k].token && s[k].lst.id() == o[k].lst.id()
}

/// ----- stand-ins for Accept::start -----
#[verifier::external_body]
pub struct BoxedFactory { _p: () }
impl BoxedFactory { #[verifier::external_body] pub fn clone_factory(&self) -> (r: BoxedFactory) { unimplemented!() } }
#[verifier::external_body]
#[derive(Clone, Copy)]
pub struct ServerWorkerConfig { _p: () }
#[verifier::external_body]
pub struct CmdSender { _p: () }
impl Clone for CmdSender { #[verifier::external_body] fn clone(&self) -> (r: CmdSender) { unimplemented!() } }
/// builder.rs ServerBuilder: the fields Accept::start reads (names checked in unit server_misc)
pub struct ServerBuilder { pub threads: usize, pub factories: Vec<BoxedFactory>, pub worker_config: ServerWorkerConfig, pub cmd_tx: CmdSender }
impl ServerHandle { #[verifier::external_body] pub fn new(tx: CmdSender) -> (r: ServerHandle) { unimplemented!() } }
impl Poll {
    /// a fresh poll instance; its ghost token bound is the number of listeners this server has (a ghost constant)
    #[verifier::external_body]
    pub fn new() -> (r: io::Result<Poll>) ensures r matches Ok(p) ==> p.spec_registry().token_bound() == n_listeners() { unimplemented!() }
}
impl WakerQueue { #[verifier::external_body] pub fn new(registry: &Registry) -> (r: io::Result<WakerQueue>) { unimplemented!() } }
impl Clone for WakerQueue { #[verifier::external_body] fn clone(&self) -> (r: WakerQueue) { unimplemented!() } }
pub struct WorkerHandleServer { pub idx: usize }
pub struct ServerWorker { }
impl ServerWorker {
    /// worker.rs ServerWorker::start (contract proved in unit worker_start): both handle ends carry the index
    #[verifier::external_body]
    pub fn start(idx: usize, factories: Vec<BoxedFactory>, waker_queue: WakerQueue, config: ServerWorkerConfig)
        -> (r: io::Result<(WorkerHandleAccept, WorkerHandleServer)>)
        ensures r matches Ok(p) ==> p.0.spec_idx() == idx && p.1.idx == idx,
    { unimplemented!() }
}
#[verifier::external_body]
pub struct Str { _p: () }
#[verifier::external_body]
pub struct String { _p: () }
impl Str { #[verifier::external_body] pub fn to_owned(&self) -> (r: String) { unimplemented!() } }
#[verifier::external_body]
pub fn vstr_lit(s: &'static str) -> (r: &'static Str) { unimplemented!() }
#[verifier::external_body]
pub struct ThreadBodyDone { _p: () }
/// R11e
#[verifier::external_body]
pub fn vthread_body_done() -> (r: ThreadBodyDone) { unimplemented!() }
pub mod thread {
    use vstd::prelude::*;
    use super::*;
    #[verifier::external_body]
    #[verifier::reject_recursive_types(T)]
    pub struct JoinHandle<T> { _p: core::marker::PhantomData<T> }
    #[verifier::external_body]
    pub struct Builder { _p: () }
    impl Builder {
        #[verifier::external_body] pub fn new() -> (r: Builder) { unimplemented!() }
        #[verifier::external_body] pub fn name(self, n: String) -> (r: Builder) { unimplemented!() }
        #[verifier::external_body] pub fn spawn(self, f: ThreadBodyDone) -> (r: io::Result<JoinHandle<()>>) { unimplemented!() }
    }
}
impl IoError {
    #[verifier::external_body]
    pub fn new<E>(kind: ErrorKind, e: E) -> (r: IoError) ensures r.spec_kind() == kind { unimplemented!() }
}

/// rule R9t: consuming iteration takes the elements from the front
#[verifier::external_body]
pub fn vec_take_first<T>(v: &mut Vec<T>) -> (r: T)
    requires old(v)@.len() > 0,
    ensures r == old(v)@[0], final(v)@ == old(v)@.subrange(1, old(v)@.len() as int),
{ unimplemented!() }

// ===================================================================== contracts on the real functions
impl Accept {
//@extract file=actix-server/src/accept.rs item="impl Accept / fn start" ret=r props=C01,C04,C05,C08,C03 name=accept::start inline_thread_body str_lits closures=1
//@replace pattern="let mut r9_a = Vec::new(); let mut r9_b = Vec::new();" rule=R9u
let mut r9_a: Vec<WorkerHandleAccept> = Vec::new(); let mut r9_b: Vec<WorkerHandleServer> = Vec::new();
//@replace pattern="let mut r9_out = Vec::new();" rule=R9l
let mut r9_out: Vec<BoxedFactory> = Vec::new();
//@spec
    requires
        // what ServerBuilder guarantees (unit server_misc): one listener per token, in token order; at most 512 workers
        // (more make `Availability` panic: documented)
        sockets@.len() == n_listeners(),
        forall|k: int| 0 <= k < sockets@.len() ==> (#[trigger] sockets@[k]).0 == k && sockets@[k].1.id() == k,
        builder.threads <= 512,
    ensures
        // one server-side handle per worker, worker i having index i   [C04,C08]
        r matches Ok(p) ==> p.1@.len() == builder.threads && forall|i: int| 0 <= i < p.1@.len() ==> (#[trigger] p.1@[i]).idx == i,
//@loop head="while idx < builder.threads"
        invariant
            idx <= builder.threads, builder.threads <= 512, r9_a@.len() == idx, r9_b@.len() == idx,
            forall|i: int| 0 <= i < idx ==> (#[trigger] r9_a@[i]).spec_idx() == i,
            forall|i: int| 0 <= i < idx ==> (#[trigger] r9_b@[i]).idx == i,
        decreases builder.threads - idx,
//@loop head="while r9_n < builder.factories.len()"
        invariant r9_n <= builder.factories@.len(),
        decreases builder.factories@.len() - r9_n,
//@end

//@extract file=actix-server/src/accept.rs item="impl Accept / fn new_with_sockets" ret=r props=C01,C04,C05,C08,C03 name=accept::new_with_sockets sig_replace="Box<[ServerSocketInfo]>=>Vec<ServerSocketInfo>"
//@replace pattern="let mut r9_out = Vec::new();" rule=R9t
let mut r9_out: Vec<ServerSocketInfo> = Vec::new();
//@spec
    requires
        // the builder's pairing (unit server_misc): listener k was created for token k; there is one per listener token
        sockets@.len() == n_listeners(), n_listeners() == poll.spec_registry().token_bound(),
        forall|k: int| 0 <= k < sockets@.len() ==> (#[trigger] sockets@[k]).0 == k && sockets@[k].1.id() == k,
        forall|i: int| 0 <= i < accept_handles@.len() ==> (#[trigger] accept_handles@[i]).spec_idx() < 512,
    ensures
        // the accept loop STARTS in a state satisfying every invariant the loop functions preserve   [C01,C04,C05]
        r matches Ok(p) ==> p.0.wf() && sockets_wf(p.1@, p.0.reg().token_bound()),   // [C01,C08]
        r matches Ok(p) ==> i5(&p.0, p.1@) && !p.0.paused && p.0.timeout is None,   // [C05]
        r matches Ok(p) ==> p.0.next == 0 && p.0.handles == accept_handles,   // [C04]
        r matches Ok(p) ==> (forall|x: usize| p.0.avail@.contains(x) <==> p.0.has_idx(x)),      // [C04] every worker starts available
        r matches Ok(p) ==> (forall|k: int| 0 <= k < p.1@.len() ==> (#[trigger] p.1@[k]).lst.registered() && p.1@[k].timeout is None),   // [C05] every listener starts registered
//@loop 1
        invariant
            r9_out@.len() + r9_q@.len() == all.len(), r9_q@ == all.subrange(r9_out@.len() as int, all.len() as int),
            all.len() == n_listeners(), n_listeners() == poll.spec_registry().token_bound(),
            forall|k: int| 0 <= k < all.len() ==> (#[trigger] all[k]).0 == k && all[k].1.id() == k,
            forall|k: int| 0 <= k < r9_out@.len() ==> (#[trigger] r9_out@[k]).token == k && r9_out@[k].lst.id() == k
                && r9_out@[k].lst.registered() && r9_out@[k].timeout is None,
        decreases r9_q@.len(),
//@insert before="let sockets = ({ let mut r9_q = sockets;"
        let ghost all = sockets@;
//@end
}


//@extract file=actix-server/src/accept.rs item="fn connection_error" ret=r props=C05
//@spec
    ensures
        r <==> (e.spec_kind() == io::ErrorKind::ConnectionRefused
             || e.spec_kind() == io::ErrorKind::ConnectionAborted
             || e.spec_kind() == io::ErrorKind::ConnectionReset),   // [C05]
//@end

impl Accept {

//@extract file=actix-server/src/accept.rs item="impl Accept / fn next" ret=r props=C04,C08,C06,C01,C02,C03
//@spec
    requires
        self.next < self.handles@.len(),
    ensures
        *r == self.handles@[self.next as int],
//@end

//@extract file=actix-server/src/accept.rs item="impl Accept / fn set_next" props=C04,C06,C01,C02,C03,C08
//@spec
    requires
        old(self).next < old(self).handles@.len(),
    ensures
        final(self).next == (old(self).next + 1) % (old(self).handles@.len() as int),   // [C04,C08] the cursor visits every position in turn: a replacement appended to the list rejoins the rotation
        final(self).handles == old(self).handles,
        final(self).avail == old(self).avail,
        final(self).srv == old(self).srv,
        final(self).same_ctl(old(self)),
//@end

//@extract file=actix-server/src/accept.rs item="impl Accept / fn remove_next" props=C01,C08,C06,C04,C02,C03
//@spec
    requires
        old(self).wf(),
        old(self).next < old(self).handles@.len(),
    ensures
        final(self).handles@ == swap_removed(old(self).handles@, old(self).next as int),   // [C01,C08]
        final(self).avail@ == old(self).avail@.remove(old(self).handles@[old(self).next as int].spec_idx()),   // [C01,C03,C04,C08] exactly the removed worker's bit is cleared: no live worker loses its availability
        final(self).srv.faulted() == old(self).srv.faulted().push(old(self).handles@[old(self).next as int].spec_idx()),   // [C01,C04,C08] the WORKER INDEX is reported (a wrong index gets a second worker started under an index in use)
        final(self).next == old(self).next,
        final(self).same_ctl(old(self)),
//@end

//@extract file=actix-server/src/accept.rs item="impl Accept / fn send_connection" ret=r props=C01,C02,C04,C08,C06,C03
//@spec
    requires
        old(self).wf(),
        old(self).handles@.len() > 0,
        conn.wf(), conn.token < n_listeners(),
    ensures
        final(self).wf(),
        final(self).same_ctl(old(self)),
        final(self).avail@.subset_of(old(self).avail@),   // [C02] dispatching never marks a worker available
        // handed to a live worker: nothing removed, rotation advanced, at most that worker's bit cleared
        r.is_ok() && old(self).handles@[old(self).next as int].alive() ==> {
            &&& final(self).handles == old(self).handles
            &&& final(self).next == (old(self).next + 1) % (old(self).handles@.len() as int)   // [C04]
            // the worker's bit is cleared exactly when recording the dispatch reported "limit reached"   [C02,C04]
            &&& final(self).avail@ == (if old(self).handles@[old(self).next as int].inc_result() { old(self).avail@ }
                    else { old(self).avail@.remove(old(self).handles@[old(self).next as int].spec_idx()) })
            &&& final(self).srv == old(self).srv
        },
        // the connection is given up only when the last handle has just been removed   [C01]
        r.is_ok() && !old(self).handles@[old(self).next as int].alive() ==> {
            &&& final(self).handles@.len() == 0 && old(self).handles@.len() == 1
            &&& final(self).srv.faulted() == old(self).srv.faulted().push(old(self).handles@[old(self).next as int].spec_idx())
        },
        r.is_ok() ==> old(self).handles@[old(self).next as int].alive() || final(self).handles@.len() == 0,   // [C01,C08]
        // refused by a dead worker: the same connection comes back, exactly that handle is gone   [C01,C08]
        r matches Err(c) ==> {
            &&& c == conn
            &&& !old(self).handles@[old(self).next as int].alive()
            &&& final(self).handles@ == swap_removed(old(self).handles@, old(self).next as int)
            &&& final(self).handles@.len() > 0
            &&& final(self).avail@ == old(self).avail@.remove(old(self).handles@[old(self).next as int].spec_idx())
            &&& final(self).srv.faulted() == old(self).srv.faulted().push(old(self).handles@[old(self).next as int].spec_idx())
            // membership form of "exactly that handle is gone"
            &&& forall|i: int| 0 <= i < final(self).handles@.len() ==> old(self).handles@.contains(#[trigger] final(self).handles@[i])
            &&& forall|j: int| 0 <= j < old(self).handles@.len() && j != old(self).next ==> final(self).handles@.contains(#[trigger] old(self).handles@[j])
        },
//@insert after="self.remove_next();"
                proof {
                    lemma_wf_after_remove(*old(self), *self);
                    lemma_swap_remove_contains(old(self).handles@, old(self).next as int);
                }
//@end


//@extract file=actix-server/src/accept.rs item="impl Accept / fn accept_one" props=C01,C04,C08,C06,C02,C03 trace_calls="send_connection?"
//@spec
    requires
        old(self).wf(),
        old(self).handles@.len() > 0,
        conn.wf(), conn.token < n_listeners(),
    ensures
        final(self).wf(),
        final(self).same_ctl(old(self)),
        final(self).avail@.subset_of(old(self).avail@),   // [C02] dispatching never marks a worker available
        // no handle is invented, and only dead workers are ever removed   [C08]
        forall|i: int| 0 <= i < final(self).handles@.len() ==> old(self).handles@.contains(#[trigger] final(self).handles@[i]),
        forall|k: int| 0 <= k < old(self).handles@.len() && (#[trigger] old(self).handles@[k]).alive() ==> final(self).handles@.contains(old(self).handles@[k]),   // [C08]
        // one fault notification per removed handle   [C08]
        final(self).srv.faulted().len() - old(self).srv.faulted().len() == old(self).handles@.len() - final(self).handles@.len(),
        // the call ends with a successful hand-over to a live worker, or with no worker left   [C01,C08]
        final(self).handles@.len() == 0 || exists|k: int| 0 <= k < final(self).handles@.len() && (#[trigger] final(self).handles@[k]).alive(),
        // round robin over available workers (no fault, some capacity): the connection goes to the first available
        // worker in rotation order starting at `next`, and `next` moves just past it   [C04]
        (forall|k: int| 0 <= k < old(self).handles@.len() ==> (#[trigger] old(self).handles@[k]).alive())
          && old(self).has_capacity() ==> {
            &&& final(self).handles == old(self).handles
            &&& final(self).srv == old(self).srv
            &&& exists|steps: int| 0 <= steps && first_avail_at(old(self), steps)
                  && final(self).next == (old(self).next + steps + 1) % (old(self).handles@.len() as int)
                  && (final(self).avail@ == old(self).avail@
                      || final(self).avail@ == old(self).avail@.remove(old(self).handles@[(old(self).next + steps) % (old(self).handles@.len() as int)].spec_idx()))
        },
//@insert after="{"
        let ghost mut steps: int = 0;
        proof { vstd::arithmetic::div_mod::lemma_small_mod(self.next as nat, self.handles@.len() as nat); }
//@insert loop_start=1
            let ghost avail0 = self.avail@;
            let ghost next0 = self.next as int;
//@insert fn_end=1 guard
        // (unreachable on the unchanged tree: the `loop` only leaves through `return`)
        // the function does not end before a hand-over has succeeded (or the last worker is gone): an accepted
        // connection is never dropped on the floor   [C01]
        assert(r24_trace.len() > 0 && r24_trace.last() == 1int);   // [C01]
//@insert after="if self.avail.get_available(idx) {"
                proof {
                    lemma_mod_step(old(self).next + steps, old(self).handles@.len() as int);
                    if all_alive(old(self)) && old(self).has_capacity() {
                        assert(rot_handle(old(self), steps) == self.handles@[self.next as int]);
                        assert(first_avail_at(old(self), steps));
                    }
                }
//@insert block_end_of="self.set_next();"
                proof {
                    lemma_mod_step(old(self).next + steps, old(self).handles@.len() as int);
                    if all_alive(old(self)) && old(self).has_capacity() {
                        assert(rot_handle(old(self), steps).spec_idx() == idx);
                    }
                    steps = steps + 1;
                    // the worker at the previous `next` is not available but some worker is: one step closer to it
                    lemma_rotdist_dec(self.handles@, self.avail@, avail0, idx, next0);
                }
//@loop head="loop" alt_head="while r9_n < r9_end"
        invariant
            self.wf(),
            self.handles@.len() > 0,
            conn.wf(), conn.token < n_listeners(),
            self.same_ctl(old(self)),
            self.avail@.subset_of(old(self).avail@),
            forall|i: int| 0 <= i < self.handles@.len() ==> old(self).handles@.contains(#[trigger] self.handles@[i]),
            forall|k: int| 0 <= k < old(self).handles@.len() && (#[trigger] old(self).handles@[k]).alive() ==> self.handles@.contains(old(self).handles@[k]),
            self.srv.faulted().len() - old(self).srv.faulted().len() == old(self).handles@.len() - self.handles@.len(),
            0 <= steps,
            all_alive(old(self)) && old(self).has_capacity() ==> {
                &&& self.handles == old(self).handles
                &&& self.srv == old(self).srv
                &&& self.avail@ == old(self).avail@
                &&& self.next == (old(self).next + steps) % (old(self).handles@.len() as int)
                &&& forall|j: int| 0 <= j < steps ==> !old(self).avail@.contains((#[trigger] rot_handle(old(self), j)).spec_idx())
            },
        decreases self.handles@.len(), rotdist(self.handles@, self.avail@, self.next as int),
//@loop head="while let Err(c) =" optional
        invariant_except_break
            self.handles@.len() > 0,
            conn.wf(), conn.token < n_listeners(),
        invariant
            self.wf(),
            self.same_ctl(old(self)),
            self.avail@.subset_of(old(self).avail@),
            !(all_alive(old(self)) && old(self).has_capacity()),
            forall|i: int| 0 <= i < self.handles@.len() ==> old(self).handles@.contains(#[trigger] self.handles@[i]),
            forall|k: int| 0 <= k < old(self).handles@.len() && (#[trigger] old(self).handles@[k]).alive() ==> self.handles@.contains(old(self).handles@[k]),
            self.srv.faulted().len() - old(self).srv.faulted().len() == old(self).handles@.len() - self.handles@.len(),
        ensures
            self.handles@.len() == 0 || exists|k: int| 0 <= k < self.handles@.len() && (#[trigger] self.handles@[k]).alive(),
        decreases self.handles@.len(),
//@end


//@extract file=actix-server/src/accept.rs item="impl Accept / fn set_timeout" props=C05,C06,C03
//@spec
    ensures
        final(self).timeout.is_some(),
        old(self).timeout.is_none() ==> final(self).timeout.unwrap().ns() == duration.ns(),
        old(self).timeout.is_some() ==> final(self).timeout.unwrap().ns()
            == (if old(self).timeout.unwrap().ns() > duration.ns() { duration.ns() } else { old(self).timeout.unwrap().ns() }),   // [C05] the shortest wins
        final(self).same_dispatch(old(self)),
        final(self).poll == old(self).poll && final(self).waker_queue == old(self).waker_queue && final(self).paused == old(self).paused,
//@end

//@extract file=actix-server/src/accept.rs item="impl Accept / fn register" ret=r props=C05,C06,C03
//@spec
    requires
        old(info).token < self.reg().token_bound(),
        old(info).lst.id() == old(info).token,
    ensures
        final(info).lst.registered(),   // [C05]
        info_same_but_reg(final(info), old(info)),
//@end

//@extract file=actix-server/src/accept.rs item="impl Accept / fn register_logged" props=C05,C06,C03
//@spec
    requires
        old(info).token < self.reg().token_bound(),
        old(info).lst.id() == old(info).token,
    ensures
        final(info).lst.registered(),   // [C05]
        info_same_but_reg(final(info), old(info)),
//@end

//@extract file=actix-server/src/accept.rs item="impl Accept / fn deregister_logged" props=C05,C06
//@spec
    ensures
        !final(info).lst.registered(),   // [C05]
        info_same_but_reg(final(info), old(info)),
//@end

//@extract file=actix-server/src/accept.rs item="impl Accept / fn deregister_all" props=C05,C06
//@spec
    ensures
        final(sockets)@.len() == old(sockets)@.len(),
        forall|k: int| 0 <= k < final(sockets)@.len() ==> {
            &&& (#[trigger] final(sockets)@[k]).timeout.is_none()   // [C05] pending back-off deadlines are dropped
            &&& (old(sockets)@[k].timeout.is_none() ==> !final(sockets)@[k].lst.registered())   // [C05,C06]
            &&& (old(sockets)@[k].timeout.is_some() ==> final(sockets)@[k].lst.registered() == old(sockets)@[k].lst.registered())
            &&& final(sockets)@[k].token == old(sockets)@[k].token
            &&& final(sockets)@[k].lst.id() == old(sockets)@[k].lst.id()
            &&& final(sockets)@[k].lst.drained() == old(sockets)@[k].lst.drained()
        },
//@loop 1
        invariant
            r9_n <= sockets@.len(),
            sockets@.len() == old(sockets)@.len(),
            forall|k: int| r9_n <= k < sockets@.len() ==> (#[trigger] sockets@[k]) == old(sockets)@[k],
            forall|k: int| 0 <= k < r9_n ==> {
                &&& (#[trigger] sockets@[k]).timeout.is_none()
                &&& (old(sockets)@[k].timeout.is_none() ==> !sockets@[k].lst.registered())
                &&& (old(sockets)@[k].timeout.is_some() ==> sockets@[k].lst.registered() == old(sockets)@[k].lst.registered())
                &&& sockets@[k].token == old(sockets)@[k].token
                &&& sockets@[k].lst.id() == old(sockets)@[k].lst.id()
                &&& sockets@[k].lst.drained() == old(sockets)@[k].lst.drained()
            },
        decreases sockets@.len() - r9_n,
//@end

#[verifier::exec_allows_no_decreases_clause]
//@extract file=actix-server/src/accept.rs item="impl Accept / fn accept" props=C01,C03,C05,C06,C02,C04,C08 trace_calls="accept_one"
//@spec
    requires
        old(self).wf(),
        sockets_wf(old(sockets)@, old(self).reg().token_bound()),
        i5(old(self), old(sockets)@),
        token < old(sockets)@.len(),
        !old(self).paused,   // [C05] never dispatch while paused
    ensures
        final(self).wf(),
        sockets_wf(final(sockets)@, final(self).reg().token_bound()),
        i5(final(self), final(sockets)@),
        final(self).paused == old(self).paused && final(self).poll == old(self).poll && final(self).waker_queue == old(self).waker_queue,
        final(self).avail@.subset_of(old(self).avail@),   // [C02]
        // only the listener the event belongs to is touched   [C05]
        forall|k: int| 0 <= k < old(sockets)@.len() && k != token ==> (#[trigger] final(sockets)@[k]) == old(sockets)@[k],
        // accepting stops only when no worker has capacity, the backlog is drained, or the listener has just been
        // put into back-off (so a per-connection error never ends the loop)   [C03,C05]
        !final(self).has_capacity() || final(sockets)@[token as int].lst.drained() || final(sockets)@[token as int].timeout.is_some(),
        // a back-off that starts here arms the poll timeout with "roughly 500 ms" at most and deregisters the listener  [C05]
        final(sockets)@[token as int].timeout.is_some() ==> final(self).timeout.is_some() && !final(sockets)@[token as int].lst.registered(),
        old(sockets)@[token as int].timeout.is_none() && final(sockets)@[token as int].timeout.is_some()
            ==> final(self).timeout.unwrap().ns() <= backoff_hi(),
        final(sockets)@[token as int].timeout.is_none() ==> old(sockets)@[token as int].timeout.is_none() && final(self).timeout == old(self).timeout
            && final(sockets)@[token as int].lst.registered() == old(sockets)@[token as int].lst.registered(),
//@insert after="Ok(io) => {"
                    assert(io.origin() == token as int);   // [C01] the stream is tagged with the listener it came from
                    let ghost t0 = r24_trace.len();
//@insert arm_end="Ok(io) =>"
                    // an accepted connection is handed to the dispatcher, exactly once — never dropped on the floor   [C01]
                    assert(r24_trace.len() == t0 + 1);   // [C01]
//@insert after="self.set_timeout(TIMEOUT_DURATION_ON_ERROR);"
                    assert(info.timeout.is_some() && now_spec() + backoff_lo() <= info.timeout.unwrap().t() <= now_spec() + backoff_hi());   // [C05] "roughly 500 ms" back-off
                    assert(!info.lst.registered());   // [C05]
                    assert(self.timeout.is_some() && self.timeout.unwrap().ns() <= backoff_hi());   // [C05] the poll wakes up in time
//@loop 1
        invariant
            self.wf(),
            sockets_wf(sockets@, self.reg().token_bound()),
            i5(self, sockets@),
            token < sockets@.len(),
            sockets@.len() == old(sockets)@.len(),
            self.paused == old(self).paused && self.poll == old(self).poll && self.waker_queue == old(self).waker_queue,
            !self.paused,
            self.avail@.subset_of(old(self).avail@),
            forall|k: int| 0 <= k < old(sockets)@.len() && k != token ==> (#[trigger] sockets@[k]) == old(sockets)@[k],
            sockets@[token as int].timeout == old(sockets)@[token as int].timeout,
            sockets@[token as int].lst.registered() == old(sockets)@[token as int].lst.registered(),
            self.timeout == old(self).timeout,
        ensures
            !self.has_capacity(),
//@end

#[verifier::exec_allows_no_decreases_clause]
//@extract file=actix-server/src/accept.rs item="impl Accept / fn accept_all" props=C03,C04,C05,C06,C01,C02,C08
//@spec
    requires
        old(self).wf(),
        sockets_wf(old(sockets)@, old(self).reg().token_bound()),
        i5(old(self), old(sockets)@),
        !old(self).paused,   // [C05]
    ensures
        final(self).wf(),
        sockets_wf(final(sockets)@, final(self).reg().token_bound()),
        i5(final(self), final(sockets)@),
        final(self).paused == old(self).paused && final(self).poll == old(self).poll && final(self).waker_queue == old(self).waker_queue,
        final(self).avail@.subset_of(old(self).avail@),   // [C02,C04] dispatching never marks a worker available
        // every listener has been tried: spare capacity remains only if every backlog is drained or backing off  [C03]
        !final(self).has_capacity() || forall|k: int| 0 <= k < final(sockets)@.len() ==>
            (#[trigger] final(sockets)@[k]).lst.drained() || final(sockets)@[k].timeout.is_some(),
//@loop 1
        invariant
            r9_n <= sockets@.len(),
            r9_v@.len() == r9_n,
            forall|j: int| 0 <= j < r9_n ==> r9_v@[j] == j,
            sockets_wf(sockets@, self.reg().token_bound()),
        decreases sockets@.len() - r9_n,
//@loop 2
        invariant
            r9_m <= r9_v@.len(),
            r9_v@.len() == sockets@.len(),
            forall|j: int| 0 <= j < r9_v@.len() ==> r9_v@[j] == j,
            self.wf(),
            sockets_wf(sockets@, self.reg().token_bound()),
            i5(self, sockets@),
            !self.paused,
            self.paused == old(self).paused && self.poll == old(self).poll && self.waker_queue == old(self).waker_queue,
            self.avail@.subset_of(old(self).avail@),
            !self.has_capacity() || forall|k: int| 0 <= k < r9_m ==>
                (#[trigger] sockets@[k]).lst.drained() || sockets@[k].timeout.is_some(),
        decreases r9_v@.len() - r9_m,
//@end


//@extract file=actix-server/src/accept.rs item="impl Accept / fn process_timeout" props=C05,C06,C03
//@spec
    requires
        old(self).wf(),
        sockets_wf(old(sockets)@, old(self).reg().token_bound()),
        i5(old(self), old(sockets)@),
    ensures
        final(self).wf(),
        final(self).same_dispatch(old(self)),
        sockets_wf(final(sockets)@, final(self).reg().token_bound()),
        i5(final(self), final(sockets)@),   // [C05]
        final(self).paused == old(self).paused && final(self).poll == old(self).poll && final(self).waker_queue == old(self).waker_queue,
        // per listener: an expired back-off re-registers it (unless paused), an unexpired one stays armed   [C05]
        forall|k: int| 0 <= k < old(sockets)@.len() ==> {
            &&& ((#[trigger] old(sockets)@[k]).timeout.is_none() ==> final(sockets)@[k] == old(sockets)@[k])
            &&& (old(sockets)@[k].timeout.is_some() && now_spec() >= old(sockets)@[k].timeout.unwrap().t() && !old(self).paused
                    ==> final(sockets)@[k].lst.registered() && final(sockets)@[k].timeout.is_none())
            &&& (old(sockets)@[k].timeout.is_some() && now_spec() < old(sockets)@[k].timeout.unwrap().t()
                    ==> final(sockets)@[k].timeout == old(sockets)@[k].timeout && final(self).timeout.is_some()
                        && final(self).timeout.unwrap().ns() <= old(sockets)@[k].timeout.unwrap().t() - now_spec())
        },
//@loop 1
        invariant
            r9_n <= sockets@.len(),
            sockets@.len() == old(sockets)@.len(),
            now.t() == now_spec(),
            old(self).timeout.is_some(),
            self.wf(),
            self.same_dispatch(old(self)),
            self.paused == old(self).paused && self.poll == old(self).poll && self.waker_queue == old(self).waker_queue,
            sockets_wf(sockets@, self.reg().token_bound()),
            i5(old(self), old(sockets)@),
            forall|k: int| r9_n <= k < sockets@.len() ==> (#[trigger] sockets@[k]) == old(sockets)@[k],
            forall|k: int| 0 <= k < r9_n ==> {
                &&& ((#[trigger] sockets@[k]).timeout.is_some() ==> !sockets@[k].lst.registered() && self.timeout.is_some())
                &&& (self.paused ==> !sockets@[k].lst.registered() && sockets@[k].timeout.is_none())
                &&& (!self.paused && sockets@[k].timeout.is_none() ==> sockets@[k].lst.registered())
                &&& (old(sockets)@[k].timeout.is_none() ==> sockets@[k] == old(sockets)@[k])
                &&& (old(sockets)@[k].timeout.is_some() && now_spec() >= old(sockets)@[k].timeout.unwrap().t() && !old(self).paused
                        ==> sockets@[k].lst.registered() && sockets@[k].timeout.is_none())
                &&& (old(sockets)@[k].timeout.is_some() && now_spec() < old(sockets)@[k].timeout.unwrap().t()
                        ==> sockets@[k].timeout == old(sockets)@[k].timeout && self.timeout.is_some()
                            && self.timeout.unwrap().ns() <= old(sockets)@[k].timeout.unwrap().t() - now_spec())
            },
        decreases sockets@.len() - r9_n,
//@end

#[verifier::exec_allows_no_decreases_clause]
//@extract file=actix-server/src/accept.rs item="impl Accept / fn handle_waker" ret=exit props=C02,C03,C04,C05,C06,C08,C01
//@spec
    requires
        old(self).wf(),
        sockets_wf(old(sockets)@, old(self).reg().token_bound()),
        i5(old(self), old(sockets)@),
    ensures
        final(self).wf(),   // [C08,C06]
        sockets_wf(final(sockets)@, final(self).reg().token_bound()),
        !exit ==> i5(final(self), final(sockets)@),   // [C05]
        final(self).poll == old(self).poll,
        // the loop is left without Stop only after a lock that found the queue empty: everything queued before
        // that lock has been processed   [C03]
        !exit ==> final(self).waker_queue.last_empty(),
        // Stop: every listener is deregistered before the loop exits   [C06]
        exit ==> forall|k: int| 0 <= k < final(sockets)@.len() ==> !(#[trigger] final(sockets)@[k]).lst.registered(),
//@insert after="loop {"
            let ghost pre = *self;
            let ghost pre_s = sockets@;
//@insert after_block_of="self.avail.set_available(idx, true);"
                    // the bit is set exactly when a handle answers to the index, and nothing else is touched  [C03,C08]
                    assert(pre.has_idx(idx) ==> self.avail@ == pre.avail@.insert(idx));
                    assert(!pre.has_idx(idx) ==> self.avail@ == pre.avail@);
                    assert(self.handles == pre.handles && self.next == pre.next && self.paused == pre.paused);
//@insert arm_end="Some(WakerInterest::WorkerAvailable(idx)) =>"
                    // a notification that arrives WHILE PAUSED is recorded all the same (the worker sends it once, when it
                    // drops below its limit: if it were only consumed, the worker would stay unavailable after resume).
                    // Stated at the end of the arm, not next to the statement: it must hold on every path through it   [C01,C03,C05]
                    assert(self.paused && pre.has_idx(idx) ==> self.avail@ == pre.avail@.insert(idx));   // [C01,C03,C05]
                    assert(self.paused ==> self.handles == pre.handles && self.next == pre.next);   // [C03]
                    // a worker became available: unless paused every listener has been offered the capacity  [C03]
                    assert(!self.paused ==> (!self.has_capacity() || forall|k: int| 0 <= k < sockets@.len() ==>
                        (#[trigger] sockets@[k]).lst.drained() || sockets@[k].timeout.is_some()));
//@insert after="self.handles.push(handle);"
                    // the replacement worker joins the rotation and is marked available   [C08]
                    assert(self.handles@.len() == pre.handles@.len() + 1);
                    assert(self.handles@.subrange(0, pre.handles@.len() as int) == pre.handles@);
                    assert(self.avail@ == pre.avail@.insert(self.handles@.last().spec_idx()));
                    assert(self.has_idx(self.handles@.last().spec_idx()));
                    assert forall|x: usize| #[trigger] self.avail@.contains(x) implies self.has_idx(x) by {
                        if x != self.handles@.last().spec_idx() {
                            assert(pre.has_idx(x));
                            let k = choose|k: int| 0 <= k < pre.handles@.len() && (#[trigger] pre.handles@[k]).spec_idx() == x;
                            assert(self.handles@[k] == pre.handles@[k]);
                        }
                    }
//@insert arm_end="Some(WakerInterest::Worker(handle)) =>"
                    // while paused too the replacement joins the rotation and is marked available (end of the arm: every path)   [C08]
                    assert(self.paused ==> self.handles@.len() == pre.handles@.len() + 1
                        && self.avail@ == pre.avail@.insert(self.handles@.last().spec_idx()));   // [C08]
                    assert(!self.paused ==> (!self.has_capacity() || forall|k: int| 0 <= k < sockets@.len() ==>
                        (#[trigger] sockets@[k]).lst.drained() || sockets@[k].timeout.is_some()));   // [C03,C08]
//@insert arm_end="Some(WakerInterest::Pause) =>"
                    assert(self.paused);   // [C05]
                    assert(pre.paused ==> self.same_state(&pre) && sockets@ == pre_s);   // [C05] idempotent
                    assert(forall|k: int| 0 <= k < sockets@.len() ==> !(#[trigger] sockets@[k]).lst.registered() && sockets@[k].timeout.is_none());   // [C05]
                    assert(self.same_dispatch(&pre));
//@insert arm_end="Some(WakerInterest::Resume) =>"
                    assert(!self.paused);   // [C05]
                    assert(!pre.paused ==> self.same_state(&pre) && sockets@ == pre_s);   // [C05] idempotent
                    assert(forall|k: int| 0 <= k < sockets@.len() ==> (#[trigger] sockets@[k]).lst.registered() || sockets@[k].timeout.is_some());   // [C05] every listener accepts again
                    assert(pre.paused ==> (!self.has_capacity() || forall|k: int| 0 <= k < sockets@.len() ==>
                        (#[trigger] sockets@[k]).lst.drained() || sockets@[k].timeout.is_some()));   // [C05] including connections that arrived meanwhile
                    // resuming marks no worker available: a saturated worker stays unavailable until it releases   [C02,C04]
                    assert(self.avail@.subset_of(pre.avail@));   // [C02,C04]
//@insert arms_of="match guard."
                // interests are handled OLDEST FIRST: what is left under the lock is the queue without its front element
                // (a Pause queued before a Resume is acted upon before it)   [C05,C06,C08]
                assert(guard.at_lock().len() == 0 || guard@ =~= guard.at_lock().subrange(1, guard.at_lock().len() as int));   // [C05,C06,C08]
//@loop 1
        invariant
            self.wf(),
            sockets_wf(sockets@, self.reg().token_bound()),
            i5(self, sockets@),
            self.poll == old(self).poll,
//@loop head="while r9_k < self.handles.len()" optional
        invariant
            r9_k <= self.handles@.len(),
            self.same_state(&pre),
            r9_any ==> self.has_idx(idx),
            !r9_any ==> forall|j: int| 0 <= j < r9_k ==> (#[trigger] self.handles@[j]).spec_idx() != idx,
        decreases self.handles@.len() - r9_k, if r9_any { 0int } else { 1int },
//@loop head="while r9_n < sockets.len()"
        invariant
            r9_n <= sockets@.len(),
            sockets@.len() == pre_s.len(),
            !self.paused,
            self.wf(),
            self.poll == old(self).poll,
            self.same_dispatch(&pre) && self.timeout == pre.timeout,
            sockets_wf(sockets@, self.reg().token_bound()),
            forall|k: int| 0 <= k < sockets@.len() ==> (#[trigger] sockets@[k]).timeout.is_none(),
            forall|k: int| 0 <= k < r9_n ==> (#[trigger] sockets@[k]).lst.registered(),
        decreases sockets@.len() - r9_n,
//@end

#[verifier::exec_allows_no_decreases_clause]
//@extract file=actix-server/src/accept.rs item="impl Accept / fn poll_with" props=C05,C06,C01,C03,C02,C04,C08 intended_panics noreach trace_calls="poll.poll,process_timeout,accept,handle_waker"
//@spec
    requires
        old(self).wf(),
        sockets_wf(old(sockets)@, old(self).reg().token_bound()),
        i5(old(self), old(sockets)@),
    ensures
        // the accept thread ends only through Stop, with every listener deregistered   [C06]
        forall|k: int| 0 <= k < final(sockets)@.len() ==> !(#[trigger] final(sockets)@[k]).lst.registered(),
//@loop 1
        invariant
            self.wf(),
            sockets_wf(sockets@, self.reg().token_bound()),
            i5(self, sockets@),
            self.reg() == old(self).reg(),
            // every wake-up of the accept loop ends with the back-off check (process_timeout): whatever woke the poll,
            // an expired back-off is noticed in the same iteration   [C05]
            r24_trace.len() == 0 || r24_trace.last() == 1int,   // [C05]
//@insert loop_start=2
                let ghost e0 = r24_trace.len();
//@insert arm_end="_ =>" nth=2
                        // a listener event is acted upon (unless the server is paused: the listener is registered again on
                        // resume): readiness reported by the poll is never silently dropped   [C01,C03]
                        assert(self.paused || r24_trace.len() == e0 + 1 && r24_trace.last() == 2int);   // [C01,C03]
//@loop 2
        invariant
            r9_n <= events.spec_len(),
            events.bound() == self.reg().token_bound(),
            r24_trace.len() > 0,
            self.wf(),
            sockets_wf(sockets@, self.reg().token_bound()),
            i5(self, sockets@),
            self.reg() == old(self).reg(),
//@end

} // impl Accept

//@lemma lemma_wf_after_remove props=C08
pub proof fn lemma_wf_after_remove(o: Accept, n: Accept)
    requires
        o.wf(),
        o.next < o.handles@.len(),
        n.handles@ == swap_removed(o.handles@, o.next as int),
        n.avail@ == o.avail@.remove(o.handles@[o.next as int].spec_idx()),
    ensures
        forall|i: int| 0 <= i < n.handles@.len() ==> (#[trigger] n.handles@[i]).spec_idx() < 512,
        forall|x: usize| #[trigger] n.avail@.contains(x) ==> n.has_idx(x),
{
    let nx = o.next as int;
    let last = o.handles@.len() - 1;
    assert forall|x: usize| #[trigger] n.avail@.contains(x) implies n.has_idx(x) by {
        assert(o.avail@.contains(x));
        assert(o.has_idx(x));
        let k = choose|k: int| 0 <= k < o.handles@.len() && (#[trigger] o.handles@[k]).spec_idx() == x;
        assert(k != nx);
        if k == last {
            assert(n.handles@[nx].spec_idx() == x);
        } else {
            assert(n.handles@[k].spec_idx() == x);
        }
    }
}
//@end


//@lemma lemma_mod_step props=C04
pub proof fn lemma_mod_step(a: int, n: int)
    requires n > 0, a >= 0,
    ensures ((a % n) + 1) % n == (a + 1) % n,
{
    vstd::arithmetic::div_mod::lemma_add_mod_noop(a, 1, n);
    if n == 1 {
        assert((a % n) == 0) by { vstd::arithmetic::div_mod::lemma_mod_bound(a, n); }
    } else {
        vstd::arithmetic::div_mod::lemma_small_mod(1, n as nat);
    }
}
//@end

//@lemma lemma_swap_remove_contains props=C08
pub proof fn lemma_swap_remove_contains<T>(s: Seq<T>, i: int)
    requires 0 <= i < s.len(),
    ensures
        forall|j: int| 0 <= j < swap_removed(s, i).len() ==> s.contains(#[trigger] swap_removed(s, i)[j]),
        forall|j: int| 0 <= j < s.len() && j != i ==> swap_removed(s, i).contains(#[trigger] s[j]),
{
    let r = swap_removed(s, i);
    let last = s.len() - 1;
    assert forall|j: int| 0 <= j < r.len() implies s.contains(#[trigger] r[j]) by {
        if j == i { assert(r[j] == s[last]); } else { assert(r[j] == s[j]); }
    }
    assert forall|j: int| 0 <= j < s.len() && j != i implies r.contains(#[trigger] s[j]) by {
        if j == last { assert(r[i] == s[j]); } else { assert(r[j] == s[j]); }
    }
}
//@end

//@lemma lemma_rotdist_dec props=C08
/// termination witness of accept_one's scan: skipping an unavailable worker while some worker is available
/// strictly reduces the rotation distance to the picked available worker
pub proof fn lemma_rotdist_dec(h: Seq<WorkerHandleAccept>, av: Set<usize>, av0: Set<usize>, idx: usize, prev: int)
    requires
        h.len() > 0,
        0 <= prev < h.len(),
        av =~= av0,
        h[prev].spec_idx() == idx,
        !av.contains(idx),
        exists|i: usize| av.contains(i),
        forall|x: usize| #[trigger] av.contains(x) ==> exists|k: int| 0 <= k < h.len() && (#[trigger] h[k]).spec_idx() == x,
    ensures
        0 <= rotdist(h, av, (prev + 1) % (h.len() as int)) < rotdist(h, av0, prev),
{
    let n = h.len() as int;
    let x = choose|i: usize| av.contains(i);
    let kk = choose|k: int| 0 <= k < h.len() && (#[trigger] h[k]).spec_idx() == x;
    assert(0 <= kk < h.len() && av.contains(h[kk].spec_idx()));
    let k = pick(h, av);
    assert(0 <= k < h.len() && av.contains(h[k].spec_idx()));
    assert(k != prev);
    if prev + 1 < n {
        vstd::arithmetic::div_mod::lemma_small_mod((prev + 1) as nat, n as nat);
    } else {
        vstd::arithmetic::div_mod::lemma_mod_self_0(n);
    }
}
//@end

} // verus!
fn main() {}
