// Unit `tls_connect_dial`: actix-tls/src/connect/tcp.rs `async fn connect(addr, local_addr)` — the one dial attempt the
// TCP connector makes per address (C19): which address is dialled, and from which local address.
use vstd::prelude::*;
use vstd::future::*;
use core::task::Poll;
use core::future::Future;
verus! {
//@include ../common/core.rs
//@include ../common/poll.rs

// ===================================================================== std::net / tokio::net stand-ins (TRUSTED BASE)
#[verifier::external_body]
#[derive(Clone, Copy)]
pub struct Ipv4Addr { _p: () }
#[verifier::external_body]
#[derive(Clone, Copy)]
pub struct Ipv6Addr { _p: () }
#[derive(Clone, Copy)]
pub enum IpAddr { V4(Ipv4Addr), V6(Ipv6Addr) }
#[verifier::external_body]
#[derive(Clone, Copy)]
pub struct SocketAddrV4 { _p: () }
impl SocketAddrV4 {
    pub uninterp spec fn ip(&self) -> Ipv4Addr;
    pub uninterp spec fn port(&self) -> u16;
    #[verifier::external_body]
    pub fn new(ip: Ipv4Addr, port: u16) -> (r: SocketAddrV4) ensures r.ip() == ip, r.port() == port { unimplemented!() }
}
#[verifier::external_body]
#[derive(Clone, Copy)]
pub struct SocketAddrV6 { _p: () }
impl SocketAddrV6 {
    pub uninterp spec fn ip(&self) -> Ipv6Addr;
    pub uninterp spec fn port(&self) -> u16;
    #[verifier::external_body]
    pub fn new(ip: Ipv6Addr, port: u16, flowinfo: u32, scope_id: u32) -> (r: SocketAddrV6) ensures r.ip() == ip, r.port() == port { unimplemented!() }
}
#[derive(Clone, Copy)]
pub enum SocketAddr { V4(SocketAddrV4), V6(SocketAddrV6) }
impl SocketAddr {
    pub open spec fn ip(&self) -> IpAddr { match *self { SocketAddr::V4(a) => IpAddr::V4(a.ip()), SocketAddr::V6(a) => IpAddr::V6(a.ip()) } }
    pub open spec fn port(&self) -> u16 { match *self { SocketAddr::V4(a) => a.port(), SocketAddr::V6(a) => a.port() } }
}
/// a connected socket: the peer it is connected to and the local address it was bound to before connecting (None:
/// chosen by the OS)
#[verifier::external_body]
pub struct TcpStream { _p: () }
impl TcpStream {
    pub uninterp spec fn peer(&self) -> SocketAddr;
    pub uninterp spec fn bound(&self) -> Option<SocketAddr>;
}
/// the OS connect is NOT verified; what the OS guarantees of a successful dial is assumed in the two `connect` stubs
#[verifier::external_body]
pub struct DialFut { _p: () }
#[verifier::external]
impl Future for DialFut {
    type Output = io::Result<TcpStream>;
    fn poll(self: core::pin::Pin<&mut Self>, cx: &mut core::task::Context<'_>) -> Poll<Self::Output> { unimplemented!() }
}
impl TcpStream {
    #[verifier::external_body]
    pub fn connect(addr: SocketAddr) -> (r: DialFut) ensures r@ matches Ok(s) ==> s.peer() == addr && s.bound() is None { unimplemented!() }
}
/// tokio TcpSocket.  `bound_to()`: the address this socket is bound to (PROPHECY name for the `&self` effect of the
/// one `bind` a socket may receive; None if it never is), `v6()`: its address family
#[verifier::external_body]
pub struct TcpSocket { _p: () }
impl TcpSocket {
    pub uninterp spec fn bound_to(&self) -> Option<SocketAddr>;
    pub uninterp spec fn v6(&self) -> bool;
    #[verifier::external_body]
    pub fn new_v4() -> (r: io::Result<TcpSocket>) ensures r matches Ok(s) ==> !s.v6() { unimplemented!() }
    #[verifier::external_body]
    pub fn new_v6() -> (r: io::Result<TcpSocket>) ensures r matches Ok(s) ==> s.v6() { unimplemented!() }
    /// binding an address of the other family fails (EAFNOSUPPORT / EINVAL)
    #[verifier::external_body]
    pub fn bind(&self, addr: SocketAddr) -> (r: io::Result<()>)
        ensures r is Ok ==> self.bound_to() == Some(addr) && (addr is V6) == self.v6(),
    { unimplemented!() }
    #[verifier::external_body]
    pub fn connect(self, addr: SocketAddr) -> (r: DialFut) ensures r@ matches Ok(s) ==> s.peer() == addr && s.bound() == self.bound_to() { unimplemented!() }
}

//@extract file=actix-tls/src/connect/tcp.rs item="fn connect" ret=r props=C19 name=tcp::connect
//@spec
    requires true,
    ensures
        // a successful attempt is a socket connected to exactly the requested address; when the request names a local
        // address the socket was bound to that address (port 0: any) before connecting, otherwise the OS chooses   [C19]
        r matches Ok(s) ==> s.peer() == addr && (match local_addr {
            Some(ip) => s.bound() matches Some(b) && b.ip() == ip && b.port() == 0,
            None => s.bound() is None,
        }),
//@end

} // verus!
fn main() {}
