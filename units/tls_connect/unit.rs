// Unit `tls_connect`: actix-tls/src/connect — address bookkeeping and the TCP connector's ordered fallback (C19; partial).
use vstd::prelude::*;
use vstd::future::*;
use core::task::Poll;
use core::future::Future;
use core::mem;

macro_rules! ready {
    ($e:expr $(,)?) => {
        match $e {
            core::task::Poll::Ready(t) => t,
            core::task::Poll::Pending => return core::task::Poll::Pending,
        }
    };
}

verus! {

//@include ../common/core.rs
//@include ../common/poll.rs

// ===================================================================== std / tokio stand-ins (TRUSTED BASE)
#[verifier::external_body]
#[derive(Clone, Copy)]
pub struct SocketAddr { _p: () }
#[verifier::external_body]
#[derive(Clone, Copy)]
pub struct IpAddr { _p: () }
#[verifier::external_body]
pub struct TcpStream { _p: () }
impl TcpStream {
    /// the peer this socket is connected to
    pub uninterp spec fn peer(&self) -> SocketAddr;
}

#[verifier::external_body]
#[verifier::reject_recursive_types(T)]
pub struct VecDeque<T> { _p: core::marker::PhantomData<T> }
impl<T> VecDeque<T> {
    pub uninterp spec fn view(&self) -> Seq<T>;
    #[verifier::external_body]
    pub fn pop_front(&mut self) -> (r: Option<T>)
        ensures old(self)@.len() == 0 ==> r.is_none() && final(self)@ == old(self)@,
                old(self)@.len() > 0 ==> r == Some(old(self)@[0]) && final(self)@ == old(self)@.subrange(1, old(self)@.len() as int),
    { unimplemented!() }
    #[verifier::external_body]
    pub fn pop_back(&mut self) -> (r: Option<T>)
        ensures old(self)@.len() == 0 ==> r.is_none() && final(self)@ == old(self)@,
                old(self)@.len() > 0 ==> r == Some(old(self)@.last()) && final(self)@ == old(self)@.drop_last(),
    { unimplemented!() }
}

/// `deque[i]` (std: panics when out of range, so in range is the caller's obligation)
impl<T> vstd::std_specs::core::IndexSpecImpl<usize> for VecDeque<T> {
    open spec fn index_req(&self, i: &usize) -> bool { *i < self@.len() }
}
impl<T> core::ops::Index<usize> for VecDeque<T> {
    type Output = T;
    #[verifier::external_body]
    fn index(&self, i: usize) -> (r: &T)
        ensures *r == self@[i as int],
    { unimplemented!() }
}

/// the `async fn connect(addr, local_addr)` of tcp.rs (an async fn: NOT verified; sockets are the OS's).  Its future
/// carries the address it dials; its output, when Ok, is a socket connected to that address.
#[verifier::external_body]
pub struct DialAttempt { _p: () }
impl DialAttempt {
    pub uninterp spec fn target(&self) -> SocketAddr;
    pub uninterp spec fn local(&self) -> Option<IpAddr>;
}
#[verifier::external_body]
pub fn connect(addr: SocketAddr, local_addr: Option<IpAddr>) -> (r: DialAttempt)
    ensures r.target() == addr, r.local() == local_addr,
{ unimplemented!() }

/// tokio_util::sync::ReusableBoxFuture holding the connect attempt in flight.  `dialled()` is the ghost history of
/// every address an attempt has been started for, `errors()` the I/O errors of the attempts that have failed.
#[verifier::external_body]
#[verifier::reject_recursive_types(T)]
pub struct ReusableBoxFuture<'a, T> { _p: core::marker::PhantomData<&'a T> }
impl<'a> ReusableBoxFuture<'a, Result<TcpStream, io::Error>> {
    pub uninterp spec fn dialled(&self) -> Seq<SocketAddr>;
    pub uninterp spec fn local(&self) -> Option<IpAddr>;
    pub uninterp spec fn failed(&self) -> nat;
    /// the most recent poll returned Pending (the attempt in flight holds the task's waker)
    pub uninterp spec fn parked(&self) -> bool;

    #[verifier::external_body]
    pub fn new(f: DialAttempt) -> (r: Self)
        ensures r.dialled() == seq![f.target()], r.local() == f.local(), r.failed() == 0,
    { unimplemented!() }

    #[verifier::external_body]
    pub fn set(&mut self, f: DialAttempt)
        requires old(self).failed() == old(self).dialled().len(),     // the previous attempt has completed (with an error)
        ensures final(self).dialled() == old(self).dialled().push(f.target()), final(self).local() == f.local(), final(self).failed() == old(self).failed(),
    { unimplemented!() }

    #[verifier::external_body]
    pub fn poll(&mut self, cx: &mut Context<'_>) -> (r: Poll<Result<TcpStream, io::Error>>)
        requires old(self).failed() < old(self).dialled().len(),      // an attempt is in flight
        ensures final(self).dialled() == old(self).dialled(), final(self).local() == old(self).local(),
                r matches Poll::Ready(Ok(s)) ==> s.peer() == old(self).dialled().last() && final(self).failed() == old(self).failed(),
                r matches Poll::Ready(Err(_)) ==> final(self).failed() == old(self).failed() + 1,
                r is Pending ==> final(self).failed() == old(self).failed(),
                final(self).parked() == (r is Pending),
    { unimplemented!() }
}

/// the `Host` trait (host.rs): only what the connector needs
pub trait Host: Sized + 'static {
    spec fn spec_port(&self) -> Option<u16>;
    fn port(&self) -> (r: Option<u16>)
        ensures r == self.spec_port();
}

// ===================================================================== real types
//@extract_type file=actix-tls/src/connect/connect_addrs.rs item="enum ConnectAddrs"
//@extract_type file=actix-tls/src/connect/error.rs item="enum ConnectError"
pub struct Box<T: ?Sized> { pub t: core::marker::PhantomData<T> }
pub mod std { pub mod error { pub trait Error {} } }
#[verifier::reject_recursive_types(R)]
//@extract_type file=actix-tls/src/connect/info.rs item="struct ConnectInfo<R>"
#[verifier::reject_recursive_types(R)]
#[verifier::reject_recursive_types(IO)]
//@extract_type file=actix-tls/src/connect/connection.rs item="struct Connection<R, IO>"
#[verifier::reject_recursive_types(R)]
//@extract_type file=actix-tls/src/connect/tcp.rs item="enum TcpConnectorFut<R>"

impl ConnectAddrs {
    /// the addresses a request carries, in order
    pub open spec fn list(&self) -> Seq<SocketAddr> {
        match *self { ConnectAddrs::None => Seq::empty(), ConnectAddrs::One(a) => seq![a], ConnectAddrs::Multi(d) => d@ }
    }

//@extract file=actix-tls/src/connect/connect_addrs.rs item="impl ConnectAddrs / fn is_unresolved" ret=r props=C19
//@spec
    ensures r == (self is None),
//@replace pattern="matches!(self, Self::None)" rule=R19
(match self { Self::None => true, _ => false })
//@end

//@extract file=actix-tls/src/connect/connect_addrs.rs item="impl ConnectAddrs / fn is_resolved" ret=r props=C19
//@spec
    ensures r == !(self is None),
//@end
}

impl<R, IO> Connection<R, IO> {
//@extract file=actix-tls/src/connect/connection.rs item="impl<R, IO> Connection<R, IO> / fn new" ret=r props=C19 name=connection::new
//@spec
    ensures r.req == req, r.io == io,
//@end
//@extract file=actix-tls/src/connect/connection.rs item="impl<R, IO> Connection<R, IO> / fn into_parts" ret=r props=C19 name=connection::into_parts
//@spec
    ensures r.0 == self.io, r.1 == self.req,
//@end
//@extract file=actix-tls/src/connect/connection.rs item="impl<R, IO> Connection<R, IO> / fn replace_io" ret=r props=C19 name=connection::replace_io
//@spec
    ensures r.0 == self.io, r.1.io == io, r.1.req == self.req,    // [C19] the request travels on with the new stream
//@end
//@extract file=actix-tls/src/connect/connection.rs item="impl<R, IO> Connection<R, IO> / fn io_ref" ret=r props=C19 name=connection::io_ref
//@spec
    ensures *r == self.io,
//@end
//@extract file=actix-tls/src/connect/connection.rs item="impl<R, IO> Connection<R, IO> / fn io_mut" ret=r props=C19 name=connection::io_mut
//@spec
    ensures *r == old(self).io, final(self).io == *final(r), final(self).req == old(self).req,
//@end
//@extract file=actix-tls/src/connect/connection.rs item="impl<R, IO> Connection<R, IO> / fn request" ret=r props=C19 name=connection::request
//@spec
    ensures *r == self.req,
//@end
}

impl<R: Host> ConnectInfo<R> {
//@extract file=actix-tls/src/connect/info.rs item="impl<R: Host> ConnectInfo<R> / fn port" ret=r props=C19 name=info::port
//@spec
    ensures r == (match self.request.spec_port() { Some(p) => p, None => self.port }),   // [C19] the request's own port wins
//@end

//@extract file=actix-tls/src/connect/info.rs item="impl<R: Host> ConnectInfo<R> / fn with_addr" ret=r props=C19 name=info::with_addr
//@spec
    ensures r.request == request, r.addr == ConnectAddrs::One(addr), r.local_addr.is_none(),   // [C19] a pre-set address is kept as the only address
//@end
}

impl<R: Host> TcpConnectorFut<R> {

    pub fn get_mut(&mut self) -> (r: &mut Self)
        ensures *r == *old(self), *final(r) == *final(self),
    { self }

    /// the request's addresses are dialled in order: what has been dialled so far followed by what is still queued is
    /// always the original list   [C19]
    pub open spec fn plan(&self) -> Seq<SocketAddr> {
        match *self {
            TcpConnectorFut::Response { addrs, stream, .. } => stream.dialled() + (match addrs { Some(d) => d@, None => Seq::empty() }),
            TcpConnectorFut::Error(_) => Seq::empty(),
        }
    }

    pub open spec fn wf(&self) -> bool {
        match *self {
            TcpConnectorFut::Response { req, stream, .. } => req is Some && stream.dialled().len() == stream.failed() + 1,
            TcpConnectorFut::Error(e) => e matches Some(ConnectError::Unresolved),
        }
    }

//@extract file=actix-tls/src/connect/tcp.rs item="impl<R: Host> TcpConnectorFut<R> / fn new" ret=r props=C19 name=tcp::fut_new intended_panics
//@spec
    requires
        addr matches ConnectAddrs::Multi(d) ==> d@.len() >= 1,     // set_addrs only builds Multi from two or more addresses
    ensures
        r.wf(),
        // unresolved input to the TCP connector is an error   [C19]
        addr is None ==> r matches TcpConnectorFut::Error(Some(ConnectError::Unresolved)),
        // otherwise the first address is dialled first and the rest is kept in order   [C19]
        !(addr is None) ==> r is Response && r.plan() == addr.list(),
//@end

#[verifier::loop_isolation(false)]
//@extract file=actix-tls/src/connect/tcp.rs item="impl<R: Host> Future for TcpConnectorFut<R> / fn poll" ret=r props=C19 name=tcp::fut_poll alias_get_mut closures=1
//@spec
    requires
        old(self).wf(),
    ensures
        // addresses are tried strictly in the order of the request's list, none skipped, none repeated   [C19]
        final(self).plan() == old(self).plan(),
        // the first connection that succeeds is returned at once — to the most recently dialled address   [C19]
        r matches Poll::Ready(Ok(c)) ==> (*final(self) matches TcpConnectorFut::Response { stream, .. } && c.io.peer() == stream.dialled().last()),
        // failure only when every address has failed: nothing is left queued   [C19]
        r matches Poll::Ready(Err(ConnectError::Io(_))) ==> (*final(self) matches TcpConnectorFut::Response { addrs, stream, .. }
            && (match addrs { Some(d) => d@.len() == 0, None => true }) && stream.failed() == stream.dialled().len()),
        r is Pending ==> final(self).wf(),
        // Pending only while the attempt in flight has just answered Pending (and holds the waker)   [C19]
        r is Pending ==> (*final(self) matches TcpConnectorFut::Response { stream, .. } && stream.parked()),   // [C19]
        *old(self) is Error ==> r matches Poll::Ready(Err(ConnectError::Unresolved)),   // [C19]
//@loop head="loop"
        invariant
            *req is Some,
            stream.dialled().len() == stream.failed() + 1,
            stream.dialled() + (match *addrs { Some(d) => d@, None => Seq::<SocketAddr>::empty() }) == old(self).plan(),
        decreases (match *addrs { Some(d) => d@.len(), None => 0nat }),
//@end

}


// ===================================================================== TcpConnectorService::call, ResolverFut::poll
#[derive(Clone, Copy)]
pub struct TcpConnectorService;

impl TcpConnectorService {
//@extract file=actix-tls/src/connect/tcp.rs item="impl<R: Host> Service<ConnectInfo<R>> for TcpConnectorService / fn call" ret=r props=C19 name=tcp::service_call sig_replace="fn call(&self, req: ConnectInfo<R>)=>fn call<R: Host>(&self, req: ConnectInfo<R>)"
//@spec
    requires
        req.addr matches ConnectAddrs::Multi(d) ==> d@.len() >= 1,
    ensures
        r.wf(),
        req.addr is None ==> r matches TcpConnectorFut::Error(Some(ConnectError::Unresolved)),   // [C19]
        !(req.addr is None) ==> r is Response && r.plan() == req.addr.list(),   // [C19] the request's addresses, in order
//@end
}

/// actix_rt::task::JoinHandle of the blocking DNS lookup (tokio; NOT verified): it may answer anything
#[verifier::external_body]
pub struct JoinError { _p: () }
#[verifier::external_body]
#[verifier::reject_recursive_types(T)]
pub struct JoinHandle<T> { _p: core::marker::PhantomData<T> }
#[verifier::external_body]
#[verifier::reject_recursive_types(T)]
pub struct IntoIter<T> { _p: core::marker::PhantomData<T> }
impl<T> IntoIter<T> { pub uninterp spec fn view(&self) -> Seq<T>; }
impl JoinHandle<io::Result<IntoIter<SocketAddr>>> {
    /// PROPHECY name: what the next poll of the blocking lookup task answers — pending, the resolver's answer
    /// (`Ok(Ok(addrs))`), the resolver's failure (`Ok(Err(e))`), or the failure of the task itself (`Err(join error)`)
    pub uninterp spec fn next_poll(&self) -> Poll<Result<io::Result<IntoIter<SocketAddr>>, JoinError>>;
    #[verifier::external_body]
    pub fn poll(&mut self, cx: &mut Context<'_>) -> (r: Poll<Result<io::Result<IntoIter<SocketAddr>>, JoinError>>)
        ensures r == old(self).next_poll(),
    { unimplemented!() }
}
#[verifier::external_body]
#[verifier::reject_recursive_types(T)]
pub struct LocalBoxFuture<'a, T> { _p: core::marker::PhantomData<&'a T> }
impl<'a, T> LocalBoxFuture<'a, T> {
    #[verifier::external_body]
    pub fn as_mut(&mut self) -> (r: &mut Self) ensures *r == *old(self), *final(r) == *final(self) { unimplemented!() }
}
impl<'a, R: Host> LocalBoxFuture<'a, Result<ConnectInfo<R>, ConnectError>> {
    /// the only boxed future in this unit is `custom_lookup_block` (R11c, under contract below): ASSUMED to produce
    /// what that contract says of a success — a request whose addresses went through `set_addrs`
    #[verifier::external_body]
    pub fn poll(&mut self, cx: &mut Context<'_>) -> (r: Poll<Result<ConnectInfo<R>, ConnectError>>)
        ensures r matches Poll::Ready(Ok(c)) ==> c.addr_wf(),
    { unimplemented!() }
}
pub struct Pin { }
impl Pin { pub fn new<T>(t: T) -> (r: T) ensures r == t { t } }
impl<T> Box<T> { #[verifier::external_body] pub fn new(t: T) -> (r: Box<dyn std::error::Error>) { unimplemented!() } }
impl vstd::std_specs::convert::FromSpecImpl<JoinError> for io::Error {
    open spec fn obeys_from_spec() -> bool { false }
    uninterp spec fn from_spec(e: JoinError) -> io::Error;
}
impl From<JoinError> for io::Error { #[verifier::external_body] fn from(e: JoinError) -> (r: io::Error) { unimplemented!() } }

/// anything `set_addrs` accepts (`impl IntoIterator<Item = SocketAddr>`): only the sequence it yields is modelled
pub trait AddrSeq: Sized { spec fn addrs(&self) -> Seq<SocketAddr>; }
impl AddrSeq for IntoIter<SocketAddr> { open spec fn addrs(&self) -> Seq<SocketAddr> { self@ } }
impl AddrSeq for Vec<SocketAddr> { open spec fn addrs(&self) -> Seq<SocketAddr> { self@ } }
impl VecDeque<SocketAddr> {
    #[verifier::external_body]
    pub fn from_iter<I: AddrSeq>(i: I) -> (r: VecDeque<SocketAddr>) ensures r@ == i.addrs() { unimplemented!() }
    #[verifier::external_body]
    pub fn len(&self) -> (r: usize) ensures r == self@.len() { unimplemented!() }
}
impl<R: Host> ConnectInfo<R> {
//@extract file=actix-tls/src/connect/info.rs item="impl<R: Host> ConnectInfo<R> / fn set_addrs" ret=r props=C19 name=info::set_addrs mut_self sig_replace="I: IntoIterator<Item = SocketAddr>,=>I: AddrSeq,"
//@spec
    ensures
        // the request carries exactly the given addresses, in order; nothing else changes   [C19]
        r.addr.list() == addrs.addrs(), r.request == self.request, r.port == self.port, r.local_addr == self.local_addr,
        r.addr is None <==> addrs.addrs().len() == 0,
        r.addr matches ConnectAddrs::Multi(d) ==> d@.len() >= 2,
//@end
}

#[verifier::reject_recursive_types(R)]
//@extract_type file=actix-tls/src/connect/resolver.rs item="enum ResolverFut<R: Host>"

impl<R: Host> ConnectInfo<R> {
    /// `set_addrs` builds `Multi` only from two or more addresses (and users can only go through it)
    pub open spec fn addr_wf(&self) -> bool { self.addr matches ConnectAddrs::Multi(d) ==> d@.len() >= 2 }
}
impl<R: Host> ResolverFut<R> {
    /// the future has not completed yet (Future contract), and a request it was given is well-formed
    pub open spec fn pollable(&self) -> bool {
        match *self {
            ResolverFut::Resolved(c) => c matches Some(i) && i.addr_wf(),
            ResolverFut::LookUp(_, c) => c is Some,
            ResolverFut::LookupCustom(_) => true,
        }
    }
//@extract file=actix-tls/src/connect/resolver.rs item="impl<R: Host> Future for ResolverFut<R> / fn poll" ret=r props=C19 name=resolver::fut_poll alias_get_mut closure_ty="ConnectError"
//@spec
    requires
        old(self).pollable(),
    ensures
        r is Pending ==> final(self).pollable(),
        r matches Poll::Ready(Ok(c)) ==> c.addr_wf(),
        // a request that already carries addresses (or an IP-literal host) is handed back untouched, never re-resolved
        *old(self) matches ResolverFut::Resolved(Some(c)) ==> r == Poll::Ready(Ok::<ConnectInfo<R>, ConnectError>(c)),   // [C19]
        // DNS lookup: an empty answer is NoRecords, an answer is stored in order, a failure is Resolver / Io  [C19]
        *old(self) is LookUp ==> (r matches Poll::Ready(Ok(c)) ==> !(c.addr is None)),
        *old(self) is LookUp ==> (r matches Poll::Ready(Err(e)) ==> e is NoRecords || e is Resolver || e is Io),
        // WHICH error: a failure reported by the resolver is `Resolver`; only the failure of the lookup TASK is `Io`; an
        // answer without addresses is `NoRecords`   [C19]
        *old(self) matches ResolverFut::LookUp(f, _) ==> (match f.next_poll() {
            Poll::Pending => r is Pending,
            Poll::Ready(Ok(Err(_))) => r matches Poll::Ready(Err(e)) && e is Resolver,
            Poll::Ready(Err(_)) => r matches Poll::Ready(Err(e)) && e is Io,
            Poll::Ready(Ok(Ok(it))) => if it@.len() == 0 { r matches Poll::Ready(Err(e)) && e is NoRecords }
                                       else { r matches Poll::Ready(Ok(c)) && c.addr.list() == it@ },
        }),
//@end
}


// ===================================================================== ResolverService::call: resolution precedence (C19)
#[verifier::external_body]
pub struct Str { _p: () }
#[verifier::external_body]
pub struct AddrParseError { _p: () }
/// the request's host is an IP literal (std's FromStr for IpAddr): an uninterpreted fact about the host string
/// std::str::FromStr as far as `str::parse::<F>()` needs it: what a string parses to is a function of the string
pub trait FromStrLike: Sized { type Err; spec fn of_str(s: &Str) -> Option<Self>; }
impl FromStrLike for IpAddr { type Err = AddrParseError; open spec fn of_str(s: &Str) -> Option<IpAddr> { s.ip_literal() } }
impl Str {
    /// str::trim_end_matches(char): SOME prefix of the string (how much is trimmed is not modelled)
    #[verifier::external_body]
    pub fn trim_end_matches(&self, c: char) -> (r: &Str)
    { unimplemented!() }
    pub uninterp spec fn ip_literal(&self) -> Option<IpAddr>;
    #[verifier::external_body]
    pub fn parse<F: FromStrLike>(&self) -> (r: Result<F, F::Err>)
        ensures r is Ok <==> F::of_str(self) is Some, r matches Ok(v) ==> F::of_str(self) == Some(v),
    { unimplemented!() }
}
impl SocketAddr {
    pub uninterp spec fn ip(&self) -> IpAddr;
    pub uninterp spec fn port(&self) -> u16;
    #[verifier::external_body]
    pub fn new(ip: IpAddr, port: u16) -> (r: SocketAddr) ensures r.ip() == ip, r.port() == port { unimplemented!() }
}
pub trait HostName: Host {
    spec fn spec_hostname(&self) -> Str;
    fn hostname(&self) -> (r: &Str) ensures *r == self.spec_hostname();
}
/// the `dyn Resolve` of a custom resolver, and the opaque future an async block evaluates to (rule R11b)
#[verifier::external_body]
pub struct DynResolve { _p: () }
#[verifier::external_body]
#[verifier::reject_recursive_types(T)]
pub struct Rc<T> { _p: core::marker::PhantomData<T> }
impl<T> Rc<T> {
    /// the value the Rc points to
    pub uninterp spec fn inner(&self) -> T;
    #[verifier::external_body] pub fn new(t: T) -> (o: Rc<T>) ensures o.inner() == t { unimplemented!() }
    #[verifier::external_body] pub fn clone(r: &Rc<T>) -> (o: Rc<T>) ensures o.inner() == r.inner() { unimplemented!() }
}
#[verifier::external_body]
pub struct AsyncBlock { _p: () }
#[verifier::external_body]
pub fn vasync_block() -> (r: AsyncBlock) { unimplemented!() }
impl Box<AsyncBlock> {
    #[verifier::external_body]
    pub fn pin<R: Host>(b: AsyncBlock) -> (r: LocalBoxFuture<'static, Result<ConnectInfo<R>, ConnectError>>) { unimplemented!() }
}
/// a custom resolver's `lookup` (user code, NOT verified).  PROPHECY name `lookup_outcome(resolver, host, port)`: the
/// answer of THAT resolver.
pub uninterp spec fn lookup_outcome(resolver: DynResolve, host: Str, port: u16) -> Result<Vec<SocketAddr>, Box<dyn std::error::Error>>;
#[verifier::external_body]
pub struct LookupFut { _p: () }
#[verifier::external]
impl Future for LookupFut {
    type Output = Result<Vec<SocketAddr>, Box<dyn std::error::Error>>;
    fn poll(self: core::pin::Pin<&mut Self>, cx: &mut core::task::Context<'_>) -> Poll<Self::Output> { unimplemented!() }
}
impl Rc<DynResolve> {
    #[verifier::external_body]
    pub fn lookup(&self, host: &Str, port: u16) -> (r: LookupFut)
        ensures r@ == lookup_outcome(self.inner(), *host, port),
    { unimplemented!() }
}
pub enum ResolverKind { Default, Custom(Rc<DynResolve>) }
//@check_struct file=actix-tls/src/connect/resolver.rs name=ResolverService fields=kind
pub struct ResolverService { pub kind: ResolverKind }

impl<R: HostName> ConnectInfo<R> {
//@extract file=actix-tls/src/connect/info.rs item="impl<R: Host> ConnectInfo<R> / fn hostname" ret=r props=C19 name=info::hostname sig_replace="&str=>&Str"
//@spec
    ensures *r == self.request.spec_hostname(),     // [C19] the name that is resolved and verified is the request's own
//@end
}
/// the `impl Into<Option<SocketAddr>>` / `impl Into<IpAddr>` arguments of the builder methods: stand-in traits with a
/// spec for the conversion (identity for the types themselves)
pub trait IntoOptAddr: Sized { spec fn spec_into(self) -> Option<SocketAddr>; fn into(self) -> (r: Option<SocketAddr>) ensures r == self.spec_into(); }
impl IntoOptAddr for Option<SocketAddr> { open spec fn spec_into(self) -> Option<SocketAddr> { self } fn into(self) -> (r: Option<SocketAddr>) { self } }
pub trait IntoIp: Sized { spec fn spec_into(self) -> IpAddr; fn into(self) -> (r: IpAddr) ensures r == self.spec_into(); }
impl IntoIp for IpAddr { open spec fn spec_into(self) -> IpAddr { self } fn into(self) -> (r: IpAddr) { self } }
impl<R: HostName> ConnectInfo<R> {
//@extract file=actix-tls/src/connect/info.rs item="impl<R: Host> ConnectInfo<R> / fn set_addr" ret=r props=C19 name=info::set_addr mut_self sig_replace="pub fn set_addr(mut self, addr: impl Into<Option<SocketAddr>>)=>pub fn set_addr<A: IntoOptAddr>(mut self, addr: A)"
//@spec
    ensures r.addr == (match addr.spec_into() { Some(a) => ConnectAddrs::One(a), None => ConnectAddrs::None }),   // [C19]
            r.request == self.request && r.port == self.port && r.local_addr == self.local_addr,
//@end
//@extract file=actix-tls/src/connect/info.rs item="impl<R: Host> ConnectInfo<R> / fn set_port" ret=r props=C19 name=info::set_port mut_self
//@spec
    ensures r.port == port, r.request == self.request && r.addr == self.addr && r.local_addr == self.local_addr,   // [C19]
//@end
//@extract file=actix-tls/src/connect/info.rs item="impl<R: Host> ConnectInfo<R> / fn set_local_addr" ret=r props=C19 name=info::set_local_addr mut_self sig_replace="pub fn set_local_addr(mut self, addr: impl Into<IpAddr>)=>pub fn set_local_addr<A: IntoIp>(mut self, addr: A)"
//@spec
    ensures r.local_addr == Some(addr.spec_into()), r.request == self.request && r.addr == self.addr && r.port == self.port,   // [C19]
//@end
//@extract file=actix-tls/src/connect/info.rs item="impl<R: Host> ConnectInfo<R> / fn new" ret=r props=C19 name=info::new
//@spec
    ensures
        // a fresh request carries no addresses (it will be resolved) and remembers the host's own port   [C19]
        r.request == request, r.addr is None, r.local_addr is None,
        r.port == (match request.spec_port() { Some(p) => p, None => 0u16 }),
//@end
//@extract file=actix-tls/src/connect/info.rs item="impl<R: Host> ConnectInfo<R> / fn request" ret=r props=C19 name=info::request
//@spec
    ensures *r == self.request,
//@end
}

/// mem::take leaves `T::default()` behind — whatever the type's own `default` promises (here: the extracted
/// `impl Default for ConnectAddrs`)
pub assume_specification<T>[ core::mem::take::<T> ](dest: &mut T) -> (r: T)
    where T: Default
    ensures r == *old(dest), call_ensures(T::default, (), *final(dest));

// ---- the address iterators handed out by `addrs()` / `take_addrs()` (connect_addrs.rs)
pub mod vec_deque {
    use vstd::prelude::*;
    /// std::collections::vec_deque::Iter / IntoIter: only the elements still to come, front to back
    #[verifier::external_body]
    #[verifier::reject_recursive_types(T)]
    pub struct Iter<'a, T> { _p: core::marker::PhantomData<&'a T> }
    #[verifier::external_body]
    #[verifier::reject_recursive_types(T)]
    pub struct IntoIter<T> { _p: core::marker::PhantomData<T> }
    impl<'a, T> Iter<'a, T> {
        pub uninterp spec fn view(&self) -> Seq<T>;
        #[verifier::external_body]
        pub fn next(&mut self) -> (r: Option<&'a T>)
            ensures old(self)@.len() == 0 ==> r.is_none() && final(self)@ == old(self)@,
                    old(self)@.len() > 0 ==> r.is_some() && *r.unwrap() == old(self)@[0] && final(self)@ == old(self)@.subrange(1, old(self)@.len() as int),
        { unimplemented!() }
        #[verifier::external_body]
        pub fn size_hint(&self) -> (r: (usize, Option<usize>))
            ensures r.0 == self@.len(), r.1 == Some(r.0),
        { unimplemented!() }
    }
    impl<T> IntoIter<T> {
        pub uninterp spec fn view(&self) -> Seq<T>;
        #[verifier::external_body]
        pub fn next(&mut self) -> (r: Option<T>)
            ensures old(self)@.len() == 0 ==> r.is_none() && final(self)@ == old(self)@,
                    old(self)@.len() > 0 ==> r == Some(old(self)@[0]) && final(self)@ == old(self)@.subrange(1, old(self)@.len() as int),
        { unimplemented!() }
        #[verifier::external_body]
        pub fn size_hint(&self) -> (r: (usize, Option<usize>))
            ensures r.0 == self@.len(), r.1 == Some(r.0),
        { unimplemented!() }
    }
}
impl<T> VecDeque<T> {
    #[verifier::external_body]
    pub fn iter(&self) -> (r: vec_deque::Iter<'_, T>) ensures r@ == self@ { unimplemented!() }
    #[verifier::external_body]
    pub fn into_iter(self) -> (r: vec_deque::IntoIter<T>) ensures r@ == self@ { unimplemented!() }
}
pub assume_specification<'a, T: Copy>[ Option::<&'a T>::copied ](o: Option<&'a T>) -> (r: Option<T>)
    ensures o.is_none() ==> r.is_none(), o.is_some() ==> r == Some(*o.unwrap());

//@extract_type file=actix-tls/src/connect/connect_addrs.rs item="enum ConnectAddrsIter<'a>"

impl<'a> ConnectAddrsIter<'a> {
    /// the addresses the iterator will still yield, in order
    pub open spec fn rest(&self) -> Seq<SocketAddr> {
        match *self {
            ConnectAddrsIter::None => Seq::empty(),
            ConnectAddrsIter::One(a) => seq![a],
            ConnectAddrsIter::Multi(i) => i@,
            ConnectAddrsIter::MultiOwned(i) => i@,
        }
    }
//@extract file=actix-tls/src/connect/connect_addrs.rs item="impl Iterator for ConnectAddrsIter<'_> / fn next" ret=r props=C19 name=connect_addrs::iter_next
//@spec
    ensures
        // yields the addresses one by one, in order, each once   [C19]
        old(self).rest().len() == 0 ==> r.is_none() && final(self).rest().len() == 0,
        old(self).rest().len() > 0 ==> r == Some(old(self).rest()[0]) && final(self).rest() =~= old(self).rest().subrange(1, old(self).rest().len() as int),
//@end
//@extract file=actix-tls/src/connect/connect_addrs.rs item="impl Iterator for ConnectAddrsIter<'_> / fn size_hint" ret=r props=C19 name=connect_addrs::iter_size_hint
//@spec
    ensures r.0 == self.rest().len(), r.1 == Some(r.0),    // ExactSizeIterator's promise
//@end
}

impl Default for ConnectAddrs {
//@extract file=actix-tls/src/connect/connect_addrs.rs item="impl Default for ConnectAddrs / fn default" ret=r props=C19 name=connect_addrs::default
//@spec
    ensures r is None,
//@end
}

impl<R: Host> ConnectInfo<R> {
//@extract file=actix-tls/src/connect/info.rs item="impl<R: Host> ConnectInfo<R> / fn addrs" ret=r props=C19 name=info::addrs sig_replace="impl Iterator<Item = SocketAddr> + ExactSizeIterator + iter::FusedIterator + Clone + fmt::Debug + '_=>ConnectAddrsIter<'_>"
//@spec
    ensures r.rest() == self.addr.list(),     // [C19] exactly the request's addresses, in the order they were set
//@end
//@extract file=actix-tls/src/connect/info.rs item="impl<R: Host> ConnectInfo<R> / fn take_addrs" ret=r props=C19 name=info::take_addrs sig_replace="impl Iterator<Item = SocketAddr> + ExactSizeIterator + iter::FusedIterator + Clone + fmt::Debug + 'static=>ConnectAddrsIter<'static>"
//@spec
    ensures
        r.rest() == old(self).addr.list(),    // [C19] exactly the request's addresses, in order …
        final(self).addr is None,             // … and the request keeps none of them
        final(self).request == old(self).request, final(self).port == old(self).port, final(self).local_addr == old(self).local_addr,
//@end
}

impl<R: HostName> vstd::std_specs::convert::FromSpecImpl<R> for ConnectInfo<R> {
    open spec fn obeys_from_spec() -> bool { false }
    uninterp spec fn from_spec(a: R) -> ConnectInfo<R>;
}
impl<R: HostName> From<R> for ConnectInfo<R> {
//@extract file=actix-tls/src/connect/info.rs item="impl<R: Host> From<R> for ConnectInfo<R> / fn from" ret=r props=C19 name=info::from_request
//@spec
    ensures
        // `request.into()` is `ConnectInfo::new(request)`: no addresses yet, the host's own port   [C19]
        r.request == addr, r.addr is None, r.local_addr is None,
        r.port == (match addr.spec_port() { Some(p) => p, None => 0u16 }),
//@end
}

impl vstd::std_specs::convert::FromSpecImpl<Option<SocketAddr>> for ConnectAddrs {
    open spec fn obeys_from_spec() -> bool { false }
    uninterp spec fn from_spec(a: Option<SocketAddr>) -> ConnectAddrs;
}
impl From<Option<SocketAddr>> for ConnectAddrs {
//@extract file=actix-tls/src/connect/connect_addrs.rs item="impl From<Option<SocketAddr>> for ConnectAddrs / fn from" ret=r props=C19 name=connect_addrs::from_option
//@spec
    ensures r == (match addr { Some(a) => ConnectAddrs::One(a), None => ConnectAddrs::None }),
//@end
}

//@extract file=actix-tls/src/connect/resolver.rs item="impl<R: Host> Service<ConnectInfo<R>> for ResolverService / fn call" async_block=1 block_sig="async fn custom_lookup_block<R: HostName>(resolver: Rc<DynResolve>, req: ConnectInfo<R>) -> Result<ConnectInfo<R>, ConnectError>" ret=r props=C19 name=resolver::custom_lookup_block
//@spec
    requires true,
    ensures
        // the custom resolver is asked for the request's host and port; its failure is `Resolver`, an empty answer is
        // `NoRecords`, otherwise the request goes on carrying exactly the answer, in order   [C19]
        match lookup_outcome(resolver.inner(), req.request.spec_hostname(), (match req.request.spec_port() { Some(p) => p, None => req.port })) {
            Err(e) => r == Err::<ConnectInfo<R>, ConnectError>(ConnectError::Resolver(e)),
            Ok(v) => if v@.len() == 0 { r == Err::<ConnectInfo<R>, ConnectError>(ConnectError::NoRecords) }
                     else { r matches Ok(c) && c.addr.list() == v@ && c.addr_wf() && c.request == req.request && c.port == req.port && c.local_addr == req.local_addr },
        },
//@end

impl ResolverService {
    /// resolver.rs `default_lookup` (spawn_blocking of the OS resolver): NOT verified
    #[verifier::external_body]
    pub fn default_lookup<R: Host>(req: &ConnectInfo<R>) -> (r: JoinHandle<io::Result<IntoIter<SocketAddr>>>) { unimplemented!() }

//@extract file=actix-tls/src/connect/resolver.rs item="impl<R: Host> Service<ConnectInfo<R>> for ResolverService / fn call" ret=r props=C19 name=resolver::call sig_replace="fn call(&self, req: ConnectInfo<R>)=>fn call<R: HostName>(&self, req: ConnectInfo<R>)"
//@spec
    requires req.addr_wf(),
    ensures
        r.pollable(),
        // a request that already carries addresses is never re-resolved: it is handed back untouched   [C19]
        !(req.addr is None) ==> r == ResolverFut::Resolved(Some(req)),
        // an IP-literal host is dialled directly, at the request's own port   [C19]
        req.addr is None && req.request.spec_hostname().ip_literal() is Some ==> (r matches ResolverFut::Resolved(Some(c))
            && (c.addr matches ConnectAddrs::One(a) && Some(a.ip()) == req.request.spec_hostname().ip_literal()
                && a.port() == (match req.request.spec_port() { Some(p) => p, None => req.port }))
            && c.request == req.request),
        // any other host goes through the configured resolver   [C19]
        req.addr is None && req.request.spec_hostname().ip_literal() is None ==> (self.kind is Default ==> r is LookUp) && (self.kind is Custom ==> r is LookupCustom),
//@end
}


// ===================================================================== connector.rs: resolve, then connect (C19)
pub assume_specification<T, E, U, F: FnOnce(T) -> U>[ Poll::<Result<T, E>>::map_ok ](p: Poll<Result<T, E>>, f: F) -> (r: Poll<Result<U, E>>)
    requires p matches Poll::Ready(Ok(t)) ==> f.requires((t,)),
    ensures p is Pending ==> r is Pending,
            p matches Poll::Ready(Err(e)) ==> r == Poll::Ready(Err::<U, E>(e)),
            p matches Poll::Ready(Ok(t)) ==> (r matches Poll::Ready(Ok(u)) && f.ensures((t,), u));

//@check_struct file=actix-tls/src/connect/connector.rs name=ConnectorService fields=tcp,resolver
pub struct ConnectorService { pub tcp: TcpConnectorService, pub resolver: ResolverService }
/// connector.rs ConnectFut: its variants name the two services' `Future` types through associated-type paths;
/// re-declared with the types those paths denote (variant names checked on every run)
//@check_enum file=actix-tls/src/connect/connector.rs name=ConnectFut variants=Resolve,Connect
#[verifier::reject_recursive_types(R)]
pub enum ConnectFut<R: Host> { Resolve(ResolverFut<R>), Connect(TcpConnectorFut<R>) }
#[verifier::reject_recursive_types(R)]
//@extract_type file=actix-tls/src/connect/connector.rs item="enum ConnectFutState<R: Host>"
#[verifier::reject_recursive_types(R)]
//@extract_type file=actix-tls/src/connect/connector.rs item="struct ConnectServiceResponse<R: Host>"

impl<R: HostName> ConnectFut<R> {
    pub open spec fn pollable(&self) -> bool {
        match *self { ConnectFut::Resolve(f) => f.pollable(), ConnectFut::Connect(f) => f.wf() }
    }
//@extract file=actix-tls/src/connect/connector.rs item="impl<R: Host> ConnectFut<R> / fn poll_connect" ret=r props=C19 name=connector::poll_connect
//@spec
    requires old(self).pollable(),
    ensures
        r is Pending ==> final(self).pollable(),
        // the resolve step hands on the resolver's answer; a request that needed no resolution is handed on untouched   [C19]
        *old(self) matches ConnectFut::Resolve(f) ==> (r matches Poll::Ready(Ok(s)) ==> s matches ConnectFutState::Resolved(c) && c.addr_wf()),
        *old(self) matches ConnectFut::Resolve(ResolverFut::Resolved(Some(c))) ==> r == Poll::Ready(Ok::<ConnectFutState<R>, ConnectError>(ConnectFutState::Resolved(c))),
        // the connect step is the TCP connector's ordered fallback, unchanged   [C19]
        *old(self) matches ConnectFut::Connect(f0) ==> (*final(self) matches ConnectFut::Connect(f1) && f1.plan() == f0.plan()
            && (r matches Poll::Ready(Ok(s)) ==> s matches ConnectFutState::Connected(c)
                && (f1 matches TcpConnectorFut::Response { stream, .. } && c.io.peer() == stream.dialled().last()))
            && (f0 is Error ==> r matches Poll::Ready(Err(ConnectError::Unresolved)))),
//@end
}

impl<R: HostName> ConnectServiceResponse<R> {
//@extract file=actix-tls/src/connect/connector.rs item="impl<R: Host> Future for ConnectServiceResponse<R> / fn poll" ret=r props=C19 name=connector::response_poll mut_self_pin
//@spec
    requires old(self).fut.pollable(),
    ensures
        r is Pending ==> final(self).fut.pollable(),
        // a request that already carries addresses goes to the TCP connector as it is: exactly its addresses are the
        // dial plan, in order, in the same poll (never re-resolved)   [C19]
        old(self).fut matches ConnectFut::Resolve(ResolverFut::Resolved(Some(c))) ==> (!(c.addr is None) ==>
            (final(self).fut matches ConnectFut::Connect(f) && f.plan() == c.addr.list())),
        // unresolved input to the TCP connector: `Unresolved`   [C19]
        old(self).fut matches ConnectFut::Resolve(ResolverFut::Resolved(Some(c))) ==> (c.addr is None ==> r matches Poll::Ready(Err(ConnectError::Unresolved))),
        // success is a connection from the connect step, to the most recently dialled address   [C19]
        r matches Poll::Ready(Ok(c)) ==> (final(self).fut matches ConnectFut::Connect(TcpConnectorFut::Response { stream, .. }) && c.io.peer() == stream.dialled().last()),
        // once in the connect step the plan never changes
        old(self).fut matches ConnectFut::Connect(f0) ==> (final(self).fut matches ConnectFut::Connect(f1) && f1.plan() == f0.plan()),
//@loop head="loop"
        invariant self.fut.pollable(),
            old(self).fut matches ConnectFut::Connect(f0) ==> (self.fut matches ConnectFut::Connect(f1) && f1.plan() == f0.plan()),
            old(self).fut matches ConnectFut::Resolve(ResolverFut::Resolved(Some(c))) ==> (self.fut == old(self).fut
                || (self.fut matches ConnectFut::Connect(f) && (if c.addr is None { f is Error } else { f.plan() == c.addr.list() }))),
        decreases (if self.fut is Resolve { 1nat } else { 0nat }),
//@end
}

impl ConnectorService {
//@extract file=actix-tls/src/connect/connector.rs item="impl<R: Host> Service<ConnectInfo<R>> for ConnectorService / fn call" ret=r props=C19 name=connector::call sig_replace="fn call(&self, req: ConnectInfo<R>)=>fn call<R: HostName>(&self, req: ConnectInfo<R>)"
//@spec
    requires req.addr_wf(),
    ensures
        // every request starts at the resolve step, whose precedence rules are `ResolverService::call`'s   [C19]
        r.fut is Resolve, r.fut.pollable(),
        !(req.addr is None) ==> r.fut == ConnectFut::Resolve(ResolverFut::Resolved(Some(req))),
//@end
}


// ===================================================================== the factories: the configured resolver reaches the service (C19)
impl ResolverKind {
    pub open spec fn same(&self, o: &ResolverKind) -> bool {
        match (*self, *o) {
            (ResolverKind::Default, ResolverKind::Default) => true,
            (ResolverKind::Custom(a), ResolverKind::Custom(b)) => a.inner() == b.inner(),
            _ => false,
        }
    }
}
/// `#[derive(Clone)]` on ResolverService / Resolver (derived: field-wise; an Rc clone points to the same resolver)
impl Clone for ResolverService {
    #[verifier::external_body]
    fn clone(&self) -> (r: ResolverService) ensures r.kind.same(&self.kind) { unimplemented!() }
}
impl ResolverKind {
//@extract file=actix-tls/src/connect/resolver.rs item="impl Default for ResolverKind / fn default" ret=r props=C19 name=resolver::kind_default
//@spec
    ensures r is Default,   // [C19] without configuration the built-in resolver is used
//@end
}
/// `#[derive(Default)]` on ResolverService / Resolver: field-wise defaults
impl ResolverService { pub fn default() -> (r: ResolverService) ensures r.kind is Default { ResolverService { kind: ResolverKind::default() } } }
impl Resolver { pub fn default() -> (r: Resolver) ensures r.resolver.kind is Default { Resolver { resolver: ResolverService::default() } } }
impl ResolverService {
//@extract file=actix-tls/src/connect/resolver.rs item="impl ResolverService / fn custom" ret=r props=C19 name=resolver::service_custom sig_replace="resolver: impl Resolve + 'static=>resolver: DynResolve"
//@spec
    ensures r.kind matches ResolverKind::Custom(rc) && rc.inner() == resolver,   // [C19]
//@end
}
//@check_struct file=actix-tls/src/connect/resolver.rs name=Resolver fields=resolver
pub struct Resolver { pub resolver: ResolverService }
/// actix_utils::future::{ok, Ready}
#[verifier::reject_recursive_types(T)]
pub struct Ready<T> { pub val: Option<T> }
pub fn ok<T, E>(t: T) -> (r: Ready<Result<T, E>>) ensures r.val == Some(Ok::<T, E>(t)) { Ready { val: Some(Ok(t)) } }
impl Resolver {
//@extract file=actix-tls/src/connect/resolver.rs item="impl Resolver / fn custom" ret=r props=C19 name=resolver::factory_custom sig_replace="resolver: impl Resolve + 'static=>resolver: DynResolve"
//@spec
    ensures r.resolver.kind matches ResolverKind::Custom(rc) && rc.inner() == resolver,   // [C19] the user's resolver is the one configured
//@end
//@extract file=actix-tls/src/connect/resolver.rs item="impl Resolver / fn service" ret=r props=C19 name=resolver::factory_service
//@spec
    ensures r.kind.same(&self.resolver.kind),   // [C19] every service built from the factory uses the configured resolver
//@end
//@extract file=actix-tls/src/connect/resolver.rs item="impl<R: Host> ServiceFactory<ConnectInfo<R>> for Resolver / fn new_service" ret=r props=C19 name=resolver::factory_new_service sig_replace="fn new_service(&self, _: ())=>fn new_service(&self, _unused: ())"
//@spec
    ensures r.val matches Some(Ok(svc)) && svc.kind.same(&self.resolver.kind),   // [C19]
//@end
}
//@check_struct file=actix-tls/src/connect/connector.rs name=Connector fields=resolver
pub struct Connector { pub resolver: Resolver }
pub struct TcpConnector;
impl TcpConnector {
    pub fn default() -> (r: TcpConnector) { TcpConnector }
//@extract file=actix-tls/src/connect/tcp.rs item="impl TcpConnector / fn service" ret=r props=C19 name=tcp::connector_service
//@spec
//@end
//@extract file=actix-tls/src/connect/tcp.rs item="impl<R: Host> ServiceFactory<ConnectInfo<R>> for TcpConnector / fn new_service" ret=r props=C19 name=tcp::connector_new_service sig_replace="fn new_service(&self, _: ())=>fn new_service(&self, _unused: ())"
//@spec
    ensures r.val matches Some(Ok(_)),     // [C19] building the TCP connector service cannot fail
//@end
}
impl TcpConnectorService { pub fn default() -> (r: TcpConnectorService) { TcpConnectorService } }
/// `#[derive(Default)]` on ConnectorService / Connector: field-wise defaults (the built-in resolver)
impl ConnectorService { pub fn default() -> (r: ConnectorService) ensures r.resolver.kind is Default { ConnectorService { tcp: TcpConnectorService::default(), resolver: ResolverService::default() } } }
impl Connector { pub fn default() -> (r: Connector) ensures r.resolver.resolver.kind is Default { Connector { resolver: Resolver::default() } } }
impl Connector {
//@extract file=actix-tls/src/connect/connector.rs item="impl Connector / fn new" ret=r props=C19 name=connector::factory_new
//@spec
    ensures r.resolver == resolver,
//@end
//@extract file=actix-tls/src/connect/connector.rs item="impl Connector / fn service" ret=r props=C19 name=connector::factory_service
//@spec
    ensures r.resolver.kind.same(&self.resolver.resolver.kind),   // [C19] the connector resolves with the resolver it was built with
//@end
//@extract file=actix-tls/src/connect/connector.rs item="impl<R: Host> ServiceFactory<ConnectInfo<R>> for Connector / fn new_service" ret=r props=C19 name=connector::factory_new_service sig_replace="fn new_service(&self, _: ())=>fn new_service(&self, _unused: ())"
//@spec
    ensures r.val matches Some(Ok(svc)) && svc.resolver.kind.same(&self.resolver.resolver.kind),   // [C19]
//@end
}

} // verus!
fn main() {}
