// Unit `rt_handles`: actix-rt — the handle methods that enqueue commands, and SystemRunner::run (C09, C10; partial).
use vstd::prelude::*;
use vstd::future::*;
use core::future::Future;
use core::task::Poll;
verus! {

//@include ../common/core.rs

// ===================================================================== tokio stand-ins (TRUSTED BASE)
pub mod mpsc {
    use vstd::prelude::*;
    /// `alive()`: the receiving loop still exists (fixed during one verified call).
    /// `sent_in_call()`: the message this sender transmits during the verified call — a prophecy-style name for an
    /// effect made through `&self`; it is only meaningful under the assumption of AT MOST ONE send per sender per
    /// verified function (every function in this unit sends at most once).
    #[verifier::external_body]
    #[verifier::reject_recursive_types(T)]
    pub struct UnboundedSender<T> { _p: core::marker::PhantomData<T> }
    #[verifier::external_body]
    #[verifier::reject_recursive_types(T)]
    pub struct SendError<T> { _p: core::marker::PhantomData<T> }
    impl<T> UnboundedSender<T> {
        pub uninterp spec fn alive(&self) -> bool;
        pub uninterp spec fn sent_in_call(&self) -> Option<T>;
//@once send
        #[verifier::external_body]
        pub fn send(&self, t: T) -> (r: Result<(), SendError<T>>)
            ensures r.is_ok() <==> self.alive(), self.sent_in_call() == Some(t),
        { unimplemented!() }
    }
}

#[verifier::external_body]
pub struct TaskFut { _p: () }
/// a user future handed to `spawn`
#[verifier::external_body]
pub struct UserFut { _p: () }
pub uninterp spec fn boxed(f: UserFut) -> TaskFut;

pub struct Box { }
impl Box {
    /// Box::pin(future) coerced to Pin<Box<dyn Future>>
    #[verifier::external_body]
    pub fn pin(f: UserFut) -> (r: TaskFut) ensures r == boxed(f) { unimplemented!() }
}

#[verifier::external_body]
pub struct String { _p: () }
/// rule R17
#[verifier::external_body]
pub fn vfmt_string() -> (r: String) { unimplemented!() }
impl IoError {
    #[verifier::external_body]
    pub fn new<E>(kind: ErrorKind, e: E) -> (r: IoError) ensures r.spec_kind() == kind { unimplemented!() }
}

pub enum ArbiterCommand { Stop, Execute(TaskFut) }
//@extract_type file=actix-rt/src/system.rs item="enum SystemCommand"
//@extract_type file=actix-rt/src/arbiter.rs item="struct ArbiterHandle"

//@check_struct file=actix-rt/src/arbiter.rs name=Arbiter fields=tx,thread_handle
#[verifier::external_body]
pub struct JoinHandle { _p: () }
pub struct Arbiter { pub tx: mpsc::UnboundedSender<ArbiterCommand>, pub thread_handle: JoinHandle }

//@check_struct file=actix-rt/src/system.rs name=System fields=id,sys_tx,arbiter_handle
pub struct System { pub id: usize, pub sys_tx: mpsc::UnboundedSender<SystemCommand>, pub arbiter_handle: ArbiterHandle }

/// tokio oneshot::Receiver<i32> of the exit code: a future; its output is what the SystemController sent (unit rt:
/// `stop_tx.send(code)` on Exit) or a RecvError if the controller was dropped without sending
#[verifier::external_body]
#[derive(Debug)]
pub struct RecvError { _p: () }
pub mod oneshot {
    use super::*;
    #[verifier::external_body]
    #[verifier::reject_recursive_types(T)]
    pub struct Receiver<T> { _p: core::marker::PhantomData<T> }
    #[verifier::external]
    impl<T> Future for Receiver<T> {
        type Output = Result<T, RecvError>;
        fn poll(self: core::pin::Pin<&mut Self>, cx: &mut core::task::Context<'_>) -> Poll<Self::Output> { unimplemented!() }
    }
}
/// crate::runtime::Runtime::block_on: runs the future to completion on this thread (A-AWAIT) and returns its output
pub mod runtime {
    use super::*;
    #[verifier::external_body]
    pub struct Runtime { _p: () }
    impl Runtime {
        #[verifier::external_body]
        pub fn block_on<F: Future>(&self, f: F) -> (r: F::Output) ensures r == f@ { unimplemented!() }
    }
}
/// R11b: the opaque future an async block evaluates to, as a user future
#[verifier::external_body]
pub fn vasync_block() -> (r: UserFut) { unimplemented!() }
/// std::thread::JoinHandle<()>::join: returns when the thread has ended (`exited`), with its result
pub uninterp spec fn exited(h: JoinHandle) -> bool;
#[verifier::external_body]
pub struct ThreadPanic { _p: () }
impl JoinHandle {
    pub uninterp spec fn outcome(&self) -> Result<(), ThreadPanic>;
    #[verifier::external_body]
    pub fn join(self) -> (r: Result<(), ThreadPanic>) ensures exited(self), r == self.outcome() { unimplemented!() }
    /// std::thread::JoinHandle::is_finished: whether the OS THREAD has ended — says nothing about the command loop
    #[verifier::external_body]
    pub fn is_finished(&self) -> (r: bool) ensures r == exited(*self) { unimplemented!() }
}
/// std::thread::{current, Thread, ThreadId}: which thread this is — nothing links it to whether a thread has ended
#[verifier::external_body]
pub struct Thread { _p: () }
#[derive(PartialEq, Eq, Structural, Clone, Copy)]
pub struct ThreadId(pub u64);
impl Thread { #[verifier::external_body] pub fn id(&self) -> (r: ThreadId) { unimplemented!() } }
impl JoinHandle { #[verifier::external_body] pub fn thread(&self) -> (r: &Thread) { unimplemented!() } }
pub mod thread {
    pub type Result<T> = core::result::Result<T, super::ThreadPanic>;
    #[verifier::external_body]
    pub fn current() -> (r: super::Thread) { unimplemented!() }
}
impl<T> Clone for mpsc::UnboundedSender<T> {
    #[verifier::external_body]
    fn clone(&self) -> (r: Self) ensures r.alive() == self.alive(), r.sent_in_call() == self.sent_in_call() { unimplemented!() }
}

//@check_struct file=actix-rt/src/system.rs name=SystemRunner fields=rt,stop_rx
pub struct SystemRunner { pub rt: runtime::Runtime, pub stop_rx: oneshot::Receiver<i32> }

impl ArbiterHandle {
//@extract file=actix-rt/src/arbiter.rs item="impl ArbiterHandle / fn stop" ret=r props=C09,C10 name=arbiter::handle_stop
//@spec
    ensures
        r == self.tx.alive(),                                        // [C10] false once the arbiter is gone
        self.tx.sent_in_call() == Some(ArbiterCommand::Stop),        // [C09,C10] exactly a Stop command is enqueued
//@end

//@extract file=actix-rt/src/arbiter.rs item="impl ArbiterHandle / fn spawn" ret=r props=C10 name=arbiter::handle_spawn sig_replace="pub fn spawn<Fut>=>pub fn spawn;;future: Fut=>future: UserFut;;where Fut: Future<Output = ()> + Send + 'static,=> "
//@spec
    ensures
        r == self.tx.alive(),                                        // [C10] spawn reports false once the arbiter is gone
        self.tx.sent_in_call() == Some(ArbiterCommand::Execute(boxed(future))),   // [C10] the future itself is enqueued, once
//@end
}

impl Arbiter {
//@extract file=actix-rt/src/arbiter.rs item="impl Arbiter / fn stop" ret=r props=C10 name=arbiter::arbiter_stop
//@spec
    ensures
        r == self.tx.alive(),
        self.tx.sent_in_call() == Some(ArbiterCommand::Stop),   // [C10]
//@end
}

impl System {
//@extract file=actix-rt/src/system.rs item="impl System / fn stop_with_code" props=C09 name=system::stop_with_code
//@spec
    ensures
        self.sys_tx.sent_in_call() == Some(SystemCommand::Exit(code)),   // [C09] the code is what is handed to the controller
//@end

//@extract file=actix-rt/src/system.rs item="impl System / fn stop" props=C09 name=system::stop
//@spec
    ensures
        self.sys_tx.sent_in_call() == Some(SystemCommand::Exit(0)),   // [C09]
//@end
}

impl SystemRunner {
//@extract file=actix-rt/src/system.rs item="impl SystemRunner / fn run_with_code" ret=r props=C09 name=system::runner_run_with_code closures=1
//@spec
    requires true,
    ensures
        // the event loop runs until the stop channel resolves; the code the controller sent is what is returned   [C09]
        self.stop_rx@ matches Ok(c) ==> r == Ok::<i32, io::Error>(c),
        self.stop_rx@ is Err ==> r is Err,
//@end

//@extract file=actix-rt/src/system.rs item="impl SystemRunner / fn run" ret=r props=C09 name=system::runner_run
//@spec
    requires true,
    ensures
        // `run` turns exit code 0 into Ok and every non-zero code into an error   [C09]
        r is Ok <==> self.stop_rx@ == Ok::<i32, RecvError>(0),
//@end

//@extract file=actix-rt/src/system.rs item="impl SystemRunner / fn block_on" ret=r props=C10 name=system::runner_block_on
//@spec
    ensures r == fut@,   // [C10] `block_on` returns exactly its future's output
//@end

//@extract file=actix-rt/src/system.rs item="impl SystemRunner / fn runtime" ret=r props=C10 name=system::runner_runtime
//@spec
    ensures *r == self.rt,   // [C10] the runtime the system runs on, not another one
//@end
}

impl ArbiterHandle {
//@extract file=actix-rt/src/arbiter.rs item="impl ArbiterHandle / fn new" ret=r props=C10 name=arbiter::handle_new
//@spec
    ensures r.tx == tx,
//@end
//@extract file=actix-rt/src/arbiter.rs item="impl ArbiterHandle / fn spawn_fn" ret=r props=C10 name=arbiter::handle_spawn_fn sig_replace="pub fn spawn_fn<F>=>pub fn spawn_fn<F: FnOnce()>;;where F: FnOnce() + Send + 'static,=> "
//@spec
    requires true,
    ensures
        r == self.tx.alive(),                                         // [C10] false once the arbiter is gone
        self.tx.sent_in_call() matches Some(ArbiterCommand::Execute(_)),   // [C10] one task is enqueued: the future that calls `f`
//@end
}
//@extract file=actix-rt/src/arbiter.rs item="impl ArbiterHandle / fn spawn_fn" async_block=1 block_sig="async fn spawn_fn_block<F: FnOnce()>(f: F) -> ()" props=C10 name=arbiter::handle_spawn_fn_block
//@spec
    requires call_requires(f, ()),
    ensures call_ensures(f, (), ()),   // [C10] the task calls the function (FnOnce: at most once by type) and nothing else
//@end

impl Arbiter {
//@extract file=actix-rt/src/arbiter.rs item="impl Arbiter / fn handle" ret=r props=C10 name=arbiter::arbiter_handle
//@spec
    ensures r.tx.alive() == self.tx.alive(),   // [C10] a handle to THIS arbiter's queue
//@end
//@extract file=actix-rt/src/arbiter.rs item="impl Arbiter / fn spawn" ret=r props=C10 name=arbiter::arbiter_spawn sig_replace="pub fn spawn<Fut>=>pub fn spawn;;future: Fut=>future: UserFut;;where Fut: Future<Output = ()> + Send + 'static,=> "
//@spec
    requires true,
    ensures
        r == self.tx.alive(),
        self.tx.sent_in_call() == Some(ArbiterCommand::Execute(boxed(future))),   // [C10]
//@end
//@extract file=actix-rt/src/arbiter.rs item="impl Arbiter / fn spawn_fn" ret=r props=C10 name=arbiter::arbiter_spawn_fn sig_replace="pub fn spawn_fn<F>=>pub fn spawn_fn<F: FnOnce()>;;where F: FnOnce() + Send + 'static,=> "
//@spec
    requires true,
    ensures
        r == self.tx.alive(),
        self.tx.sent_in_call() matches Some(ArbiterCommand::Execute(_)),   // [C10]
//@end
//@extract file=actix-rt/src/arbiter.rs item="impl Arbiter / fn join" ret=r props=C09,C10 name=arbiter::arbiter_join
//@spec
    ensures exited(self.thread_handle), r == self.thread_handle.outcome(),   // [C10] join returns only after the arbiter's thread has ended
//@end
}

} // verus!
fn main() {}
