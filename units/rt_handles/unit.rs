// Unit `rt_handles`: actix-rt — the handle methods that enqueue commands, and SystemRunner::run (C09, C10; partial).
use vstd::prelude::*;
verus! {

//@include ../common/core.rs

// ===================================================================== tokio stand-ins (TRUSTED BASE)
pub mod mpsc {
    use vstd::prelude::*;
    /// `alive()`: the receiving loop still exists (fixed during one verified call).
    /// `sent_in_call()`: the message this sender transmits during the verified call — a prophecy-style name for an
    /// effect made through `&self`; it is only meaningful under the assumption of AT MOST ONE send per sender per
    /// verified function (every function in this unit sends at most once).
    #[verifier::external_body]
    #[verifier::reject_recursive_types(T)]
    pub struct UnboundedSender<T> { _p: core::marker::PhantomData<T> }
    #[verifier::external_body]
    #[verifier::reject_recursive_types(T)]
    pub struct SendError<T> { _p: core::marker::PhantomData<T> }
    impl<T> UnboundedSender<T> {
        pub uninterp spec fn alive(&self) -> bool;
        pub uninterp spec fn sent_in_call(&self) -> Option<T>;
        #[verifier::external_body]
        pub fn send(&self, t: T) -> (r: Result<(), SendError<T>>)
            ensures r.is_ok() <==> self.alive(), self.sent_in_call() == Some(t),
        { unimplemented!() }
    }
}

#[verifier::external_body]
pub struct TaskFut { _p: () }
/// a user future handed to `spawn`
#[verifier::external_body]
pub struct UserFut { _p: () }
pub uninterp spec fn boxed(f: UserFut) -> TaskFut;

pub struct Box { }
impl Box {
    /// Box::pin(future) coerced to Pin<Box<dyn Future>>
    #[verifier::external_body]
    pub fn pin(f: UserFut) -> (r: TaskFut) ensures r == boxed(f) { unimplemented!() }
}

#[verifier::external_body]
pub struct String { _p: () }
/// rule R17
#[verifier::external_body]
pub fn vfmt_string() -> (r: String) { unimplemented!() }
impl IoError {
    #[verifier::external_body]
    pub fn new<E>(kind: ErrorKind, e: E) -> (r: IoError) ensures r.spec_kind() == kind { unimplemented!() }
}

pub enum ArbiterCommand { Stop, Execute(TaskFut) }
//@extract_type file=actix-rt/src/system.rs item="enum SystemCommand"
//@extract_type file=actix-rt/src/arbiter.rs item="struct ArbiterHandle"

//@check_struct file=actix-rt/src/arbiter.rs name=Arbiter fields=tx,thread_handle
#[verifier::external_body]
pub struct JoinHandle { _p: () }
pub struct Arbiter { pub tx: mpsc::UnboundedSender<ArbiterCommand>, pub thread_handle: JoinHandle }

//@check_struct file=actix-rt/src/system.rs name=System fields=id,sys_tx,arbiter_handle
pub struct System { pub id: usize, pub sys_tx: mpsc::UnboundedSender<SystemCommand>, pub arbiter_handle: ArbiterHandle }

//@check_struct file=actix-rt/src/system.rs name=SystemRunner fields=rt,stop_rx
#[verifier::external_body]
pub struct SystemRunner { _p: () }
impl SystemRunner {
    pub uninterp spec fn code(&self) -> io::Result<i32>;
    /// blocks on the runtime until the stop channel delivers the exit code (tokio; not verified)
    #[verifier::external_body]
    pub fn run_with_code(self) -> (r: io::Result<i32>)
        ensures r == self.code(),
    { unimplemented!() }
}

impl ArbiterHandle {
//@extract file=actix-rt/src/arbiter.rs item="impl ArbiterHandle / fn stop" ret=r props=C09,C10 name=arbiter::handle_stop
//@spec
    ensures
        r == self.tx.alive(),                                        // [C10] false once the arbiter is gone
        self.tx.sent_in_call() == Some(ArbiterCommand::Stop),        // [C09,C10] exactly a Stop command is enqueued
//@end

//@extract file=actix-rt/src/arbiter.rs item="impl ArbiterHandle / fn spawn" ret=r props=C10 name=arbiter::handle_spawn sig_replace="pub fn spawn<Fut>=>pub fn spawn;;future: Fut=>future: UserFut;;where Fut: Future<Output = ()> + Send + 'static,=> "
//@spec
    ensures
        r == self.tx.alive(),                                        // [C10] spawn reports false once the arbiter is gone
        self.tx.sent_in_call() == Some(ArbiterCommand::Execute(boxed(future))),   // [C10] the future itself is enqueued, once
//@end
}

impl Arbiter {
//@extract file=actix-rt/src/arbiter.rs item="impl Arbiter / fn stop" ret=r props=C10 name=arbiter::arbiter_stop
//@spec
    ensures
        r == self.tx.alive(),
        self.tx.sent_in_call() == Some(ArbiterCommand::Stop),   // [C10]
//@end
}

impl System {
//@extract file=actix-rt/src/system.rs item="impl System / fn stop_with_code" props=C09 name=system::stop_with_code
//@spec
    ensures
        self.sys_tx.sent_in_call() == Some(SystemCommand::Exit(code)),   // [C09] the code is what is handed to the controller
//@end

//@extract file=actix-rt/src/system.rs item="impl System / fn stop" props=C09 name=system::stop
//@spec
    ensures
        self.sys_tx.sent_in_call() == Some(SystemCommand::Exit(0)),   // [C09]
//@end
}

impl SystemRunner {
//@extract file=actix-rt/src/system.rs item="impl SystemRunner / fn run" ret=r props=C09 name=system::runner_run
//@spec
    ensures
        // `run` turns exit code 0 into Ok and every non-zero code into an error   [C09]
        r is Ok <==> self.code() == Ok::<i32, io::Error>(0),
        self.code() matches Ok(c) && c != 0 ==> r is Err,
//@end
}

} // verus!
fn main() {}
