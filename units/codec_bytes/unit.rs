// Unit `codec_bytes`: actix-codec/src/bcodec.rs — BytesCodec as a Decoder/Encoder (C13, C14).
// BytesCodec returns whatever is buffered, so it is NOT prefix-stable: for it "the frames of the whole stream" can only
// mean that the CONCATENATION of the yielded frames is the stream; that is what `lemma_bytes_codec_conserves` states.
use vstd::prelude::*;
verus! {

//@include ../common/core.rs
//@include ../common/bytes.rs
//@include ../common/codec_traits.rs

pub struct BytesCodec;

impl Decoder for BytesCodec {
    type Item = BytesMut;
    type Error = io::Error;

    open spec fn dec(c: Self, b: Seq<u8>) -> (Dec<BytesMut>, Seq<u8>, Self) {
        if b.len() == 0 { (Dec::NeedMore, b, c) } else { (Dec::Frame(bytesmut_of(b)), Seq::empty(), c) }
    }

    /// tokio_util's default `decode_eof` (not actix code): decode, and an error if bytes remain without a frame —
    /// which cannot happen for this codec
    open spec fn dec_eof(c: Self, b: Seq<u8>) -> (Dec<BytesMut>, Seq<u8>, Self) { Self::dec(c, b) }

//@extract file=actix-codec/src/bcodec.rs item="impl Decoder for BytesCodec / fn decode" ret=r props=C13
//@spec
    ensures
        old(src)@.len() == 0 ==> r matches Ok(None),
        old(src)@.len() > 0 ==> (r matches Ok(Some(f)) && f@ == old(src)@) && final(src)@.len() == 0,   // [C13] everything buffered, nothing lost
//@end

    #[verifier::external_body]
    fn decode_eof(&mut self, src: &mut BytesMut) -> (r: Result<Option<BytesMut>, io::Error>)
    { unimplemented!() }
}

impl Encoder<Bytes> for BytesCodec {
    type Error = io::Error;
    open spec fn enc(item: Bytes) -> Seq<u8> { item@ }

//@extract file=actix-codec/src/bcodec.rs item="impl Encoder<Bytes> for BytesCodec / fn encode" ret=r props=C14
//@spec
    ensures
        r is Ok,
        final(dst)@ == old(dst)@ + item@,   // [C14] the bytes of the item, unchanged
//@end
}

//@lemma lemma_bytes_codec_conserves props=C13
/// BytesCodec: a frame is exactly the buffered bytes and leaves nothing; "need more" happens only on an empty buffer
pub proof fn lemma_bytes_codec_conserves()
    ensures
        need_more_is_noop::<BytesCodec>(),
        forall|c: BytesCodec, b: Seq<u8>| b.len() > 0 ==> (#[trigger] BytesCodec::dec(c, b)).0 == Dec::Frame(bytesmut_of(b)) && BytesCodec::dec(c, b).1.len() == 0,
{
}
//@end

} // verus!
fn main() {}
