// Unit `worker_start`: actix-server/src/worker.rs ServerWorker::start — the async block that creates a worker's services
//@assumes unit=server_cmd fns=server::run_sync
//@assumes unit=server_misc fns=builder::new,builder::bind,builder::listen,builder::listen_uds,builder::bind_uds,builder::next_token,builder::default
// and builds the ServerWorker (actix-System path), verified as the anonymous async fn it is (rule R11c).  It is the step
// that turns the builder's pairing `factory k has token k` into the worker's table invariant `service k serves token k`,
// and that gives the worker the counter its accept-side handle shares (C01, C02, C07).
#![feature(allocator_api)]
use vstd::prelude::*;
use vstd::future::*;
use core::task::Poll;
use core::future::Future;
verus! {
//@include ../common/core.rs
//@include ../common/poll.rs

// ===================================================================== stand-ins (TRUSTED BASE; contracts proved in the named units)
#[verifier::external_body]
pub struct BoxedServerService { _p: () }
impl BoxedServerService { pub uninterp spec fn token(&self) -> int; }
/// the future `InternalServiceFactory::create` returns (unit server_service: create / create_block): a created service is
/// reported under the factory's own token and serves that token
#[verifier::external_body]
pub struct CreateFut { _p: () }
#[verifier::external]
impl Future for CreateFut {
    type Output = Result<(usize, BoxedServerService), ()>;
    fn poll(self: core::pin::Pin<&mut Self>, cx: &mut core::task::Context<'_>) -> Poll<Self::Output> { unimplemented!() }
}
#[verifier::external_body]
pub struct BoxedFactory { _p: () }
impl BoxedFactory {
    pub uninterp spec fn token(&self) -> int;
    #[verifier::external_body]
    pub fn create(&self) -> (r: CreateFut)
        ensures r@ matches Ok(p) ==> p.0 as int == self.token() && p.1.token() == self.token(),
    { unimplemented!() }
}
#[verifier::external_body]
#[verifier::reject_recursive_types(T)]
pub struct UnboundedReceiver<T> { _p: core::marker::PhantomData<T> }
#[verifier::external_body]
pub struct Conn { _p: () }
#[verifier::external_body]
pub struct Stop { _p: () }
#[verifier::external_body]
pub struct WakerQueue { _p: () }
#[verifier::external_body]
pub struct Counter { _p: () }
impl Counter { pub uninterp spec fn id(&self) -> int; }
/// worker.rs WorkerCounter::new (unit worker_handles): keeps the index, the queue and the counter it is given
pub struct WorkerCounter { pub idx: usize, pub waker_queue: WakerQueue, pub counter: Counter }
impl WorkerCounter {
    pub fn new(idx: usize, waker_queue: WakerQueue, counter: Counter) -> (r: WorkerCounter)
        ensures r.idx == idx, r.waker_queue == waker_queue, r.counter == counter,
    { WorkerCounter { idx, waker_queue, counter } }
}
#[derive(Clone, Copy)]
pub struct ServerWorkerConfig { pub shutdown_timeout: Duration, pub max_blocking_threads: usize, pub max_concurrent_connections: usize }
#[derive(PartialEq, Eq, Clone, Copy)]
//@extract_type file=actix-server/src/worker.rs item="enum WorkerServiceStatus"
//@extract_type file=actix-server/src/worker.rs item="struct WorkerService"
/// worker.rs WorkerState (its other variants carry futures/timers the start path never builds: re-declared by name)
//@check_enum file=actix-server/src/worker.rs name=WorkerState variants=Available,Unavailable,Restarting,Shutdown
pub enum WorkerState { Available, Unavailable, Restarting, Shutdown }
impl WorkerState {
//@extract file=actix-server/src/worker.rs item="impl Default for WorkerState / fn default" ret=r props=C07 name=worker::WorkerState::default
//@spec
    ensures r is Unavailable,   // [C07] a new worker starts Unavailable: nothing is dispatched before a readiness check
//@end
}
/// worker.rs wrap_worker_services (contract proved in unit server_service)
#[verifier::external_body]
pub fn wrap_worker_services(services: Vec<(usize, usize, BoxedServerService)>) -> (r: Vec<WorkerService>)
    requires forall|k: int| 0 <= k < services@.len() ==> (#[trigger] services@[k]).1 == k,
    ensures r@.len() == services@.len(),
        forall|k: int| 0 <= k < r@.len() ==> (#[trigger] r@[k]).service == services@[k].2 && r@[k].factory_idx == services@[k].0
            && r@[k].status == WorkerServiceStatus::Unavailable,
{ unimplemented!() }
/// Vec::into_boxed_slice keeps the elements
pub assume_specification<T, A: core::alloc::Allocator>[ Vec::<T, A>::into_boxed_slice ](v: Vec<T, A>) -> (r: Box<[T], A>)
    ensures r@ == v@;
//@check_struct file=actix-server/src/worker.rs name=ServerWorker fields=conn_rx,stop_rx,counter,services,factories,state,shutdown_timeout
pub struct ServerWorker {
    pub conn_rx: UnboundedReceiver<Conn>,
    pub stop_rx: UnboundedReceiver<Stop>,
    pub counter: WorkerCounter,
    pub services: Box<[WorkerService]>,
    pub factories: Box<[BoxedFactory]>,
    pub state: WorkerState,
    pub shutdown_timeout: Duration,
}
impl ServerWorker {
    /// the hypotheses unit `worker` makes about a worker when it is first polled (its `table_wf` + `wf`), over `n` listeners
    pub open spec fn start_wf(&self, n: int) -> bool {
        &&& self.services@.len() == n
        &&& forall|k: int| 0 <= k < self.services@.len() ==> {
            &&& (#[trigger] self.services@[k]).service.token() == k
            &&& self.services@[k].factory_idx < self.factories@.len()
            &&& self.factories@[self.services@[k].factory_idx as int].token() == k
            &&& self.services@[k].status == WorkerServiceStatus::Unavailable
        }
        &&& self.state is Unavailable
    }
}
//@once spawn
/// actix_rt::spawn of the worker future.  PROPHECY name `spawned_worker()`: the worker handed to the (one) spawn made
/// during the verified call
pub uninterp spec fn spawned_worker() -> Option<ServerWorker>;
#[verifier::external_body]
pub struct JoinHandle { _p: () }
#[verifier::external_body]
pub fn spawn(w: ServerWorker) -> (r: JoinHandle) ensures spawned_worker() == Some(w) { unimplemented!() }
/// std::sync::mpsc::SyncSender<io::Result<()>> to `start`, which is blocked in `factory_rx.recv()` until this block
/// has sent (so the send cannot fail: ASSUMED).  PROPHECY name `sent_in_call()`.
#[verifier::external_body]
#[derive(Debug)]
pub struct SyncSendError { _p: () }
#[verifier::external_body]
pub struct SyncSender { _p: () }
impl SyncSender {
    pub uninterp spec fn sent_ok(&self) -> bool;
    #[verifier::external_body]
    pub fn send(&self, v: io::Result<()>) -> (r: Result<(), SyncSendError>) ensures r is Ok, self.sent_ok() == (v is Ok) { unimplemented!() }
}
#[verifier::external_body]
pub struct ArbiterHandle { _p: () }
impl ArbiterHandle { #[verifier::external_body] pub fn stop(&self) -> (r: bool) { unimplemented!() } }
pub struct Arbiter { }
impl Arbiter { #[verifier::external_body] pub fn current() -> (r: ArbiterHandle) { unimplemented!() } }
#[verifier::external_body]
pub struct String { _p: () }
#[verifier::external_body]
pub fn vfmt_string() -> (r: String) { unimplemented!() }
impl IoError {
    #[verifier::external_body]
    pub fn new(kind: ErrorKind, msg: String) -> (r: IoError) ensures r.spec_kind() == kind { unimplemented!() }
}

//@extract file=actix-server/src/worker.rs item="impl ServerWorker / fn start" async_block=5 block_sig="async fn start_block_sys(factories: Vec<BoxedFactory>, factory_tx: SyncSender, conn_rx: UnboundedReceiver<Conn>, stop_rx: UnboundedReceiver<Stop>, idx: usize, waker_queue: WakerQueue, counter: Counter, config: ServerWorkerConfig) -> ()" props=C01,C02,C07 name=worker::start_block_sys
//@replace pattern="Default::default()" rule=R15
WorkerState::default()
//@replace pattern="let mut services = Vec::new();" rule=R9s
let mut services: Vec<(usize, usize, BoxedServerService)> = Vec::new();
//@spec
    requires
        // the builder's pairing (unit server_misc): factory k creates services for listener token k
        forall|k: int| 0 <= k < factories@.len() ==> (#[trigger] factories@[k]).token() == k,
//@loop 1
        invariant
            r9_n <= factories@.len(), services@.len() == r9_n,
            forall|k: int| 0 <= k < factories@.len() ==> (#[trigger] factories@[k]).token() == k,
            forall|k: int| 0 <= k < services@.len() ==> (#[trigger] services@[k]).0 == k && services@[k].1 == k && services@[k].2.token() == k,
        decreases factories@.len() - r9_n,
//@insert before="return;"
                                    assert(!factory_tx.sent_ok());   // [C07] a failed creation is reported to `start` as an error
//@insert fn_end=1
        // the worker that is spawned has the table unit `worker` assumes (service k serves token k, built by factory k,
        // all Unavailable), counts on the counter its accept-side handle shares, and uses the configured timeout   [C01,C02,C07]
        assert(spawned_worker() matches Some(w) && w.start_wf(factories@.len() as int)
            && w.counter.idx == idx && w.counter.counter == counter && w.shutdown_timeout == config.shutdown_timeout
            && w.factories@ == factories@);   // [C01,C02,C07]
        assert(factory_tx.sent_ok());   // [C07] `start` is told that every service was created
//@end


// the same service-creation loop on the path without an actix System (it runs inside the worker thread's closure)
//@extract file=actix-server/src/worker.rs item="impl ServerWorker / fn start" async_block=1 block_sig="async fn start_block_create(factories: &Vec<BoxedFactory>, idx: usize) -> io::Result<Vec<(usize, usize, BoxedServerService)>>" ret=r props=C01,C07 name=worker::start_block_create
//@replace pattern="let mut services = Vec::new();" rule=R9s
let mut services: Vec<(usize, usize, BoxedServerService)> = Vec::new();
//@spec
    requires
        forall|k: int| 0 <= k < factories@.len() ==> (#[trigger] factories@[k]).token() == k,
    ensures
        // one service per factory, in order, each reported under and serving its factory's token — exactly what
        // wrap_worker_services requires   [C01]
        r matches Ok(v) ==> v@.len() == factories@.len()
            && forall|k: int| 0 <= k < v@.len() ==> (#[trigger] v@[k]).0 == k && v@[k].1 == k && v@[k].2.token() == k,
//@loop 1
        invariant
            r9_n <= factories@.len(), services@.len() == r9_n,
            forall|k: int| 0 <= k < factories@.len() ==> (#[trigger] factories@[k]).token() == k,
            forall|k: int| 0 <= k < services@.len() ==> (#[trigger] services@[k]).0 == k && services@[k].1 == k && services@[k].2.token() == k,
        decreases factories@.len() - r9_n,
//@end


// ===================================================================== ServerWorker::start itself (the synchronous part)
impl Counter {
    pub uninterp spec fn limit(&self) -> usize;
    /// worker.rs Counter::new / Clone (Kani unit server_counter): a fresh counter with the given limit; a clone is the same counter
    #[verifier::external_body]
    pub fn new(limit: usize) -> (r: Counter) ensures r.limit() == limit { unimplemented!() }
}
impl Clone for Counter { #[verifier::external_body] fn clone(&self) -> (r: Counter) ensures r.id() == self.id(), r.limit() == self.limit() { unimplemented!() } }
#[verifier::external_body]
#[verifier::reject_recursive_types(T)]
pub struct UnboundedSender<T> { _p: core::marker::PhantomData<T> }
impl<T> UnboundedSender<T> { pub uninterp spec fn chan(&self) -> int; }
impl<T> UnboundedReceiver<T> { pub uninterp spec fn chan(&self) -> int; }
#[verifier::external_body]
pub fn unbounded_channel<T>() -> (r: (UnboundedSender<T>, UnboundedReceiver<T>)) ensures r.0.chan() == r.1.chan() { unimplemented!() }
//@check_struct file=actix-server/src/worker.rs name=WorkerHandleAccept fields=idx,conn_tx,counter
pub struct WorkerHandleAccept { pub idx: usize, pub conn_tx: UnboundedSender<Conn>, pub counter: Counter }
//@check_struct file=actix-server/src/worker.rs name=WorkerHandleServer fields=idx,stop_tx
pub struct WorkerHandleServer { pub idx: usize, pub stop_tx: UnboundedSender<Stop> }
//@extract file=actix-server/src/worker.rs item="fn handle_pair" ret=r props=C02,C08 name=worker::handle_pair
//@spec
    ensures r.0.idx == idx && r.1.idx == idx, r.0.conn_tx == conn_tx, r.1.stop_tx == stop_tx, r.0.counter == counter,
//@end
#[verifier::external_body]
pub struct System { _p: () }
impl System { #[verifier::external_body] pub fn try_current() -> (r: Option<System>) { unimplemented!() } }
#[verifier::external_body]
pub struct RtHandle { _p: () }
#[verifier::external_body]
pub struct TryCurrentError { _p: () }
pub mod tokio { pub mod runtime {
    use vstd::prelude::*;
    pub struct Handle { }
    impl Handle { #[verifier::external_body] pub fn try_current() -> (r: Result<super::super::RtHandle, super::super::TryCurrentError>) { unimplemented!() } }
} }
/// std::sync::mpsc::sync_channel::<io::Result<()>>(1): `recv` blocks until the worker reports how service creation went
#[verifier::external_body]
pub struct SyncReceiver { _p: () }
#[verifier::external_body]
#[derive(Debug)]
pub struct RecvError { _p: () }
impl SyncReceiver {
    /// the sender lives in the spawned task until it has sent: `recv` cannot see a disconnected channel first (ASSUMED)
    #[verifier::external_body]
    pub fn recv(&self) -> (r: Result<io::Result<()>, RecvError>) ensures r is Ok { unimplemented!() }
}
#[verifier::external_body]
pub struct OpaqueClosure { _p: () }
/// R11d
#[verifier::external_body]
pub fn vopaque_closure() -> (r: OpaqueClosure) { unimplemented!() }
#[verifier::external_body]
pub struct AsyncBlock { _p: () }
#[verifier::external_body]
pub fn vasync_block() -> (r: AsyncBlock) { unimplemented!() }
#[verifier::external_body]
pub struct ThreadHandle { _p: () }
#[verifier::external_body]
pub struct ThreadBuilder { _p: () }
impl ThreadBuilder {
    #[verifier::external_body] pub fn new() -> (r: ThreadBuilder) { unimplemented!() }
    #[verifier::external_body] pub fn name(self, n: String) -> (r: ThreadBuilder) { unimplemented!() }
    /// a failure to spawn the OS thread makes the code `.expect()`-panic: intended
    #[verifier::external_body] pub fn spawn(self, f: OpaqueClosure) -> (r: io::Result<ThreadHandle>) ensures r is Ok { unimplemented!() }
}
pub mod std {
    pub mod thread { pub use crate::ThreadBuilder as Builder; }
    pub mod sync { pub mod mpsc {
        use vstd::prelude::*;
        #[verifier::external_body]
        pub fn sync_channel<T>(n: usize) -> (r: (crate::SyncSender, crate::SyncReceiver)) { unimplemented!() }
    } }
}
pub struct ArbiterObj { }
impl Arbiter {
    #[verifier::external_body] pub fn with_tokio_rt(f: OpaqueClosure) -> (r: ArbiterObj) { unimplemented!() }
}
impl ArbiterObj { #[verifier::external_body] pub fn spawn(&self, f: AsyncBlock) -> (r: bool) { unimplemented!() } }

impl ServerWorker {
//@extract file=actix-server/src/worker.rs item="impl ServerWorker / fn start" ret=r props=C02,C08 name=worker::start opaque_move_closures intended_panics trace_calls="factory_rx.recv" sig_replace="Vec<Box<dyn InternalServiceFactory>>=>Vec<BoxedFactory>"
//@spec
    requires true,
    ensures
        // both handle ends carry the worker's index, and the accept side counts on a counter whose limit is the
        // configured max_concurrent_connections   [C02,C08]
        r matches Ok(p) ==> p.0.idx == idx && p.1.idx == idx && p.0.counter.limit() == config.max_concurrent_connections,
//@insert before="Ok(pair)"
        // the handles are handed out only after `start` has WAITED for the worker's report that every service was created
        // (a failed creation arrives as Err through the same channel and is returned by the `?`)   [C07,C08]
        assert(r24_trace == seq![0int]);   // [C07,C08]
//@insert before="let actix_system"
        // the two channel ends given to the accept-side / server-side handles are the peers of the ends the worker
        // keeps, and the handle's counter is the worker's counter   [C01,C02]
        assert(pair.0.conn_tx.chan() == conn_rx.chan() && pair.1.stop_tx.chan() == stop_rx.chan() && pair.0.counter.id() == counter.id());   // [C01,C02]
//@end
}

} // verus!
fn main() {}
