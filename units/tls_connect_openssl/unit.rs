// Unit `tls_connect_openssl`: actix-tls/src/connect/openssl.rs — the OpenSSL connector hands the REQUEST'S hostname to
// OpenSSL for SNI / certificate verification (C19).
use vstd::prelude::*;
use core::task::Poll;

macro_rules! ready {
    ($e:expr $(,)?) => {
        match $e {
            core::task::Poll::Ready(t) => t,
            core::task::Poll::Pending => return core::task::Poll::Pending,
        }
    };
}

verus! {

//@include ../common/core.rs
//@include ../common/poll.rs

#[verifier::external_body]
pub struct Str { _p: () }
impl Str {
    pub uninterp spec fn bytes(&self) -> Seq<u8>;
    /// str::trim_end_matches(char): SOME prefix of the string (how much is trimmed is not modelled)
    #[verifier::external_body]
    pub fn trim_end_matches(&self, c: char) -> (r: &Str)
        ensures r.bytes().len() <= self.bytes().len(), r.bytes() == self.bytes().subrange(0, r.bytes().len() as int),
    { unimplemented!() }
}
pub trait Host: Sized + 'static {
    spec fn spec_hostname(&self) -> Seq<u8>;
    fn hostname(&self) -> (r: &Str) ensures r.bytes() == self.spec_hostname();
}

// ===================================================================== openssl stand-ins (TRUSTED BASE)
#[verifier::external_body]
#[derive(Debug)]
pub struct ErrorStack { _p: () }
#[verifier::external_body]
pub struct SslError { _p: () }
#[verifier::external_body]
pub struct SslConnector { _p: () }
#[verifier::external_body]
pub struct ConnectConfiguration { _p: () }
/// an OpenSSL session: `checks_host()` — the peer certificate is verified against a hostname (not only against the
/// trusted issuers); `verify_host()` — that hostname
#[verifier::external_body]
pub struct Ssl { _p: () }
#[verifier::external_body]
pub struct SslContextRef { _p: () }
impl Ssl {
    pub uninterp spec fn verify_host(&self) -> Seq<u8>;
    pub uninterp spec fn checks_host(&self) -> bool;
    /// openssl::ssl::Ssl::new: a session straight from the context — chain verification as configured there, but NO
    /// hostname in the X509 verify parameters
    #[verifier::external_body]
    pub fn new(ctx: &SslContextRef) -> (r: Result<Ssl, ErrorStack>) ensures r matches Ok(s) && !s.checks_host() { unimplemented!() }
    /// Ssl::set_hostname: the SNI extension only; what is verified does not change
    #[verifier::external_body]
    pub fn set_hostname(&mut self, h: &Str) -> (r: Result<(), ErrorStack>)
        ensures r is Ok, final(self).checks_host() == old(self).checks_host(), final(self).verify_host() == old(self).verify_host(),
    { unimplemented!() }
}
impl SslConnector {
    /// a misconfigured connector makes the code `.expect()`-panic: intended, outside the property
    #[verifier::external_body]
    pub fn configure(&self) -> (r: Result<ConnectConfiguration, ErrorStack>) ensures r is Ok { unimplemented!() }
    #[verifier::external_body]
    pub fn context(&self) -> (r: &SslContextRef) { unimplemented!() }
}
impl ConnectConfiguration {
    /// ConnectConfiguration::into_ssl(domain): SNI + the hostname installed in the verify parameters
    #[verifier::external_body]
    pub fn into_ssl(self, domain: &Str) -> (r: Result<Ssl, ErrorStack>)
        ensures r matches Ok(s) && s.checks_host() && s.verify_host() == domain.bytes(),
    { unimplemented!() }
}
#[verifier::external_body]
#[verifier::reject_recursive_types(IO)]
pub struct AsyncSslStream<IO> { _p: core::marker::PhantomData<IO> }
impl<IO> AsyncSslStream<IO> {
    pub uninterp spec fn verify_host(&self) -> Seq<u8>;
    pub uninterp spec fn checks_host(&self) -> bool;
    pub uninterp spec fn io(&self) -> IO;
    #[verifier::external_body]
    pub fn new(ssl: Ssl, io: IO) -> (r: Result<AsyncSslStream<IO>, ErrorStack>)
        ensures r matches Ok(s) && s.verify_host() == ssl.verify_host() && s.checks_host() == ssl.checks_host() && s.io() == io,
    { unimplemented!() }
    /// the handshake itself (certificate validation included) is OpenSSL's and is NOT verified
    #[verifier::external_body]
    pub fn poll_connect(&mut self, cx: &mut Context<'_>) -> (r: Poll<Result<(), SslError>>)
        ensures final(self).verify_host() == old(self).verify_host(), final(self).checks_host() == old(self).checks_host(),
            final(self).io() == old(self).io(),
    { unimplemented!() }
}
pub struct Pin { }
impl Pin { pub fn new<T>(t: T) -> (r: T) ensures r == t { t } }
#[verifier::external_body]
pub struct String { _p: () }
#[verifier::external_body]
pub fn vfmt_string() -> (r: String) { unimplemented!() }
impl IoError {
    #[verifier::external_body]
    pub fn new(kind: ErrorKind, msg: String) -> (r: IoError) ensures r.spec_kind() == kind { unimplemented!() }
}

// ===================================================================== real types and functions
#[verifier::reject_recursive_types(R)]
#[verifier::reject_recursive_types(IO)]
//@extract_type file=actix-tls/src/connect/connection.rs item="struct Connection<R, IO>"
impl<R, IO> Connection<R, IO> {
//@extract file=actix-tls/src/connect/connection.rs item="impl<R, IO> Connection<R, IO> / fn replace_io" ret=r props=C19 name=connection::replace_io
//@spec
    ensures r.0 == self.io, r.1.req == self.req, r.1.io == io,
//@end
}
impl<R: Host, IO> Connection<R, IO> {
//@extract file=actix-tls/src/connect/connection.rs item="impl<R: Host, IO> Connection<R, IO> / fn hostname" ret=r props=C19 name=connection::hostname sig_replace="&str=>&Str"
//@spec
    ensures r.bytes() == self.req.spec_hostname(),
//@end
}

//@check_struct file=actix-tls/src/connect/openssl.rs name=TlsConnectorService fields=connector
pub struct TlsConnectorService { pub connector: SslConnector }
impl SslConnector { pub uninterp spec fn cfg(&self) -> int; }
impl Clone for SslConnector { #[verifier::external_body] fn clone(&self) -> (r: SslConnector) ensures r.cfg() == self.cfg() { unimplemented!() } }
/// actix_utils::future::{ok, Ready}
#[verifier::reject_recursive_types(T)]
pub struct Ready<T> { pub val: Option<T> }
pub fn ok<T, E>(t: T) -> (r: Ready<Result<T, E>>) ensures r.val == Some(Ok::<T, E>(t)) { Ready { val: Some(Ok(t)) } }
//@check_struct file=actix-tls/src/connect/openssl.rs name=TlsConnector fields=connector
pub struct TlsConnector { pub connector: SslConnector }
impl TlsConnector {
//@extract file=actix-tls/src/connect/openssl.rs item="impl TlsConnector / fn new" ret=r props=C19 name=openssl::factory_new
//@spec
    ensures r.connector == connector,
//@end
//@extract file=actix-tls/src/connect/openssl.rs item="impl TlsConnector / fn service" ret=r props=C19 name=openssl::factory_service
//@spec
    ensures r.connector == connector,
//@end
//@extract file=actix-tls/src/connect/openssl.rs item="impl Clone for TlsConnector / fn clone" ret=r props=C19 name=openssl::factory_clone sig_replace="fn clone(=>fn clone_("
//@spec
    ensures r.connector.cfg() == self.connector.cfg(),
//@end
//@extract file=actix-tls/src/connect/openssl.rs item="impl<R, IO> ServiceFactory<Connection<R, IO>> for TlsConnector / fn new_service" ret=r props=C19 name=openssl::factory_new_service sig_replace="fn new_service(&self, _: ())=>fn new_service(&self, _unused: ())"
//@spec
    ensures r.val matches Some(Ok(svc)) && svc.connector.cfg() == self.connector.cfg(),   // [C19] the factory's TLS configuration reaches every service
//@end
}
impl TlsConnectorService {
//@extract file=actix-tls/src/connect/openssl.rs item="impl Clone for TlsConnectorService / fn clone" ret=r props=C19 name=openssl::service_clone sig_replace="fn clone(=>fn clone_("
//@spec
    ensures r.connector.cfg() == self.connector.cfg(),
//@end
}
#[verifier::reject_recursive_types(R)]
#[verifier::reject_recursive_types(IO)]
//@extract_type file=actix-tls/src/connect/openssl.rs item="struct ConnectFut<R, IO>"

impl TlsConnectorService {
//@extract file=actix-tls/src/connect/openssl.rs item="impl<R, IO> Service<Connection<R, IO>> for TlsConnectorService / fn call" ret=r props=C19 name=openssl::call sig_replace="fn call(&self, stream: Connection<R, IO>)=>fn call<R: Host, IO>(&self, stream: Connection<R, IO>)"
//@spec
    ensures
        // OpenSSL is asked to verify the peer against the REQUEST's hostname, on the request's own stream   [C19]
        r.io matches Some(s) && s.checks_host() && s.verify_host() == stream.req.spec_hostname() && s.io() == stream.io,
        r.stream matches Some(c) && c.req == stream.req,
//@end
}

impl<R: Host, IO> ConnectFut<R, IO> {
    pub fn get_mut(&mut self) -> (r: &mut Self) ensures *r == *old(self), *final(r) == *final(self) { self }

//@extract file=actix-tls/src/connect/openssl.rs item="impl<R: Host, IO> Future for ConnectFut<R, IO> / fn poll" ret=r props=C19 name=openssl::fut_poll alias_this
//@spec
    requires
        old(self).io is Some, old(self).stream is Some,
    ensures
        // success carries the original request and the stream the handshake ran on; a handshake failure is an error [C19]
        r matches Poll::Ready(Ok(out)) ==> Some(out.req) == (match old(self).stream { Some(c) => Some(c.req), None => None })
            && out.io.verify_host() == old(self).io.unwrap().verify_host()
            && out.io.checks_host() == old(self).io.unwrap().checks_host(),
//@end
}

} // verus!
fn main() {}
