// Unit `tls_accept_native`: actix-tls/src/accept/native_tls.rs — the readiness gate, `call`, and the `async move`
// block `call` returns (verified as the anonymous async fn it is, rule R11c).
use vstd::prelude::*;
use vstd::future::*;
use core::task::Poll;
use core::future::Future;
verus! {
//@include ../common/core.rs
//@include ../common/poll.rs
//@include ../common/tls_env.rs
#[verifier::external_body]
pub struct Error { _p: () }
/// tokio_native_tls: the handshake itself is NOT verified.  PROPHECY names: `hs_outcome(io)` is what the handshake on
/// `io` ends with, `hs_times_out(d)` whether it is still running `d` nanoseconds after it was started.
pub mod tokio_native_tls {
    #[verifier::external_body]
    #[verifier::reject_recursive_types(IO)]
    pub struct TlsStream<IO> { _p: core::marker::PhantomData<IO> }
}
pub uninterp spec fn hs_outcome<IO>(io: IO) -> Result<tokio_native_tls::TlsStream<IO>, Error>;
pub uninterp spec fn hs_times_out(d: nat) -> bool;
#[verifier::external_body]
#[verifier::reject_recursive_types(IO)]
pub struct HsFut<IO> { _p: core::marker::PhantomData<IO> }
#[verifier::external]
impl<IO> Future for HsFut<IO> {
    type Output = Result<tokio_native_tls::TlsStream<IO>, Error>;
    fn poll(self: core::pin::Pin<&mut Self>, cx: &mut core::task::Context<'_>) -> Poll<Self::Output> { unimplemented!() }
}
#[verifier::external_body]
pub struct TlsAcceptor { _p: () }
impl TlsAcceptor {
    #[verifier::external_body]
    pub fn accept<IO>(&self, io: IO) -> (r: HsFut<IO>)
        ensures r@ == hs_outcome(io),
    { unimplemented!() }
}
impl Clone for TlsAcceptor {
    #[verifier::external_body]
    fn clone(&self) -> (r: TlsAcceptor) { unimplemented!() }
}
/// tokio::time::timeout(d, fut): `Err(Elapsed)` iff `fut` has not completed within `d`, otherwise `Ok(fut's output)`
#[verifier::external_body]
pub struct Elapsed { _p: () }
#[verifier::external_body]
#[verifier::reject_recursive_types(F)]
pub struct Timeout<F> { _p: core::marker::PhantomData<F> }
#[verifier::external]
impl<F: Future> Future for Timeout<F> {
    type Output = Result<F::Output, Elapsed>;
    fn poll(self: core::pin::Pin<&mut Self>, cx: &mut core::task::Context<'_>) -> Poll<Self::Output> { unimplemented!() }
}
#[verifier::external_body]
pub fn timeout<F: Future>(d: Duration, f: F) -> (r: Timeout<F>)
    ensures hs_times_out(d.ns()) ==> r@ is Err, !hs_times_out(d.ns()) ==> r@ == Ok::<F::Output, Elapsed>(f@),
{ unimplemented!() }

#[verifier::external_body]
#[verifier::reject_recursive_types(T)]
pub struct LocalBoxFuture<'a, T> { _p: core::marker::PhantomData<&'a T> }
pub struct Box { }
impl Box {
    #[verifier::external_body]
    pub fn pin<F: Future>(f: F) -> (r: LocalBoxFuture<'static, F::Output>) { unimplemented!() }
}

//@extract_type file=actix-tls/src/accept/mod.rs item="enum TlsError<TlsErr, SvcErr>"
/// native_tls.rs `pub struct TlsStream<IO>(tokio_native_tls::TlsStream<IO>);` (a tuple struct: re-declared)
#[verifier::reject_recursive_types(IO)]
pub struct TlsStream<IO>(pub tokio_native_tls::TlsStream<IO>);
pub type InnerTls<IO> = tokio_native_tls::TlsStream<IO>;
/// `get_ref().get_ref().get_ref()`: tokio_native_tls::TlsStream -> native_tls::TlsStream<AllowStd<IO>> -> AllowStd<IO> -> IO
#[verifier::external_body]
#[verifier::reject_recursive_types(IO)]
pub struct NativeInner<IO> { _p: core::marker::PhantomData<IO> }
#[verifier::external_body]
#[verifier::reject_recursive_types(IO)]
pub struct AllowStd<IO> { _p: core::marker::PhantomData<IO> }
impl<IO> NativeInner<IO> { pub uninterp spec fn sock(&self) -> IO; #[verifier::external_body] pub fn get_ref(&self) -> (r: &AllowStd<IO>) ensures r.sock() == self.sock() { unimplemented!() } }
impl<IO> AllowStd<IO> { pub uninterp spec fn sock(&self) -> IO; #[verifier::external_body] pub fn get_ref(&self) -> (r: &IO) ensures *r == self.sock() { unimplemented!() } }
impl<IO> tokio_native_tls::TlsStream<IO> {
    #[verifier::external_body]
    pub fn get_ref(&self) -> (r: &NativeInner<IO>) ensures r.sock() == self.sock() { unimplemented!() }
}
//@check_struct file=actix-tls/src/accept/native_tls.rs name=AcceptorService fields=acceptor,conns,handshake_timeout
//@extract_type file=actix-tls/src/accept/native_tls.rs item="struct AcceptorService"

//@extract file=actix-tls/src/accept/native_tls.rs item="impl<IO: ActixStream + 'static> Service<IO> for AcceptorService / fn call" async_block=1 block_sig="async fn call_block<IO>(io: IO, guard: CounterGuard, acceptor: TlsAcceptor, dur: Duration) -> Result<TlsStream<IO>, TlsError<Error, Infallible>>" ret=r props=C18 name=native_tls::call_block bind="guard=self.conns.get();;acceptor=self.acceptor.clone();;dur=self.handshake_timeout"
//@spec
    requires true,
    ensures
        // a handshake still running after `dur` ends as a Timeout error; otherwise the call resolves with the
        // handshake's own outcome: the working TLS stream, or its TLS error   [C18]
        hs_times_out(dur.ns()) ==> r == Err::<TlsStream<IO>, TlsError<Error, Infallible>>(TlsError::Timeout),
        !hs_times_out(dur.ns()) ==> (match hs_outcome(io) {
            Ok(s) => r == Ok::<TlsStream<IO>, TlsError<Error, Infallible>>(TlsStream(s)),
            Err(e) => r == Err::<TlsStream<IO>, TlsError<Error, Infallible>>(TlsError::Tls(e)),
        }),
//@end

// ===================================================================== the acceptor factory
//@include ../common/tls_factory.rs
//@check_struct file=actix-tls/src/accept/native_tls.rs name=Acceptor fields=acceptor,handshake_timeout
//@extract_type file=actix-tls/src/accept/native_tls.rs item="struct Acceptor"
impl Acceptor {
//@extract file=actix-tls/src/accept/native_tls.rs item="impl Acceptor / fn new" ret=r props=C18 name=native_tls::Acceptor::new
//@spec
    ensures r.handshake_timeout.ns() == default_hs_timeout_ns(),   // [C18] the crate default (its VALUE, 3 s today, is not part of the property)
//@end
//@extract file=actix-tls/src/accept/native_tls.rs item="impl Acceptor / fn set_handshake_timeout" ret=r props=C18 name=native_tls::Acceptor::set_handshake_timeout
//@spec
    ensures r.handshake_timeout == handshake_timeout, r.acceptor == old(self).acceptor, *final(r) == *final(self),   // [C18]
//@end
//@extract file=actix-tls/src/accept/native_tls.rs item="impl Clone for Acceptor / fn clone" ret=r props=C18 name=native_tls::Acceptor::clone sig_replace="fn clone(=>fn clone_("
//@spec
    ensures r.handshake_timeout == self.handshake_timeout,   // [C18] a cloned factory keeps the configured timeout
//@end
//@extract file=actix-tls/src/accept/native_tls.rs item="impl<IO: ActixStream + 'static> ServiceFactory<IO> for Acceptor / fn new_service" ret=r props=C18 name=native_tls::Acceptor::new_service tls_with=MAX_CONN_COUNTER sig_replace="fn new_service(&self, _: ())=>fn new_service(&self, _unused: ())"
//@spec
    ensures
        r.val matches Some(Ok(svc)) && svc.handshake_timeout == self.handshake_timeout && svc.conns.id() == thread_counter_id(),   // [C18]
//@end
}

impl AcceptorService {
//@extract file=actix-tls/src/accept/native_tls.rs item="impl<IO: ActixStream + 'static> Service<IO> for AcceptorService / fn poll_ready" ret=r props=C18 name=native_tls::poll_ready
//@spec
    ensures
        r matches Poll::Ready(Ok(_)) <==> self.conns.count() < self.conns.capacity(),   // [C18]
        !(self.conns.count() < self.conns.capacity()) ==> r is Pending,
//@end

//@extract file=actix-tls/src/accept/native_tls.rs item="impl<IO: ActixStream + 'static> Service<IO> for AcceptorService / fn call" ret=r props=C18 name=native_tls::call sig_replace="fn call(&self, io: IO)=>fn call<IO>(&self, io: IO)" async_block_call="call_block(io, guard, acceptor, dur)" bind="guard=self.conns.get();;acceptor=self.acceptor.clone();;dur=self.handshake_timeout"
//@spec
    requires true,
//@insert before="Box::pin("
        // the handshake is counted from the moment of the call (the guard is taken here, not inside the future), and
        // the future is bounded by the service's own handshake timeout   [C18]
        assert(guard.of() == self.conns.id());   // [C18]
        assert(dur == self.handshake_timeout);   // [C18]
//@end
}
// ===================================================================== the wrapper forwards every I/O operation unchanged (C18: data intact)
//@include ../common/tls_stream.rs
impl<IO: ActixStream> TlsStream<IO> {
//@extract file=actix-tls/src/accept/native_tls.rs item="impl<IO: ActixStream> AsyncRead for TlsStream<IO> / fn poll_read" ret=r props=C18 name=stream::poll_read alias_get_mut
//@spec
    ensures
        // exactly the TLS session's own read: the bytes appended to `buf` are the next plaintext bytes, none lost, none invented   [C18]
        r matches Poll::Ready(Ok(_)) ==> exists|n: int| 0 <= n <= old(self).0.plain_in().len()
            && final(buf).filled() == old(buf).filled() + #[trigger] old(self).0.plain_in().subrange(0, n)
            && final(self).0.plain_in() == old(self).0.plain_in().subrange(n, old(self).0.plain_in().len() as int),
        !(r matches Poll::Ready(Ok(_))) ==> final(buf).filled() == old(buf).filled() && final(self).0.plain_in() == old(self).0.plain_in(),
        final(self).0.plain_out() == old(self).0.plain_out(),
//@end
//@extract file=actix-tls/src/accept/native_tls.rs item="impl<IO: ActixStream> AsyncWrite for TlsStream<IO> / fn poll_write" ret=r props=C18 name=stream::poll_write alias_get_mut
//@spec
    ensures
        // exactly the accepted prefix of `buf` is handed to the TLS session, in order   [C18]
        r matches Poll::Ready(Ok(n)) ==> n <= buf@.len() && final(self).0.plain_out() == old(self).0.plain_out() + buf@.subrange(0, n as int),
        !(r matches Poll::Ready(Ok(_))) ==> final(self).0.plain_out() == old(self).0.plain_out(),
        final(self).0.plain_in() == old(self).0.plain_in(),
//@end
//@extract file=actix-tls/src/accept/native_tls.rs item="impl<IO: ActixStream> AsyncWrite for TlsStream<IO> / fn poll_flush" ret=r props=C18 name=stream::poll_flush alias_get_mut
//@spec
    ensures final(self).0.plain_out() == old(self).0.plain_out(), final(self).0.plain_in() == old(self).0.plain_in(),
            r matches Poll::Ready(Ok(_)) ==> final(self).0.flushed(),   // [C18]
//@end
//@extract file=actix-tls/src/accept/native_tls.rs item="impl<IO: ActixStream> AsyncWrite for TlsStream<IO> / fn poll_shutdown" ret=r props=C18 name=stream::poll_shutdown alias_get_mut
//@spec
    ensures final(self).0.plain_out() == old(self).0.plain_out(), final(self).0.plain_in() == old(self).0.plain_in(),
            r matches Poll::Ready(Ok(_)) ==> final(self).0.shut(),   // [C18]
//@end
//@extract file=actix-tls/src/accept/native_tls.rs item="impl<IO: ActixStream> AsyncWrite for TlsStream<IO> / fn poll_write_vectored" ret=r props=C18 name=stream::poll_write_vectored alias_get_mut
//@spec
    ensures
        r matches Poll::Ready(Ok(n)) ==> n <= io_slices_bytes(bufs).len() && final(self).0.plain_out() == old(self).0.plain_out() + io_slices_bytes(bufs).subrange(0, n as int),   // [C18]
        !(r matches Poll::Ready(Ok(_))) ==> final(self).0.plain_out() == old(self).0.plain_out(),
        final(self).0.plain_in() == old(self).0.plain_in(),
//@end
//@extract file=actix-tls/src/accept/native_tls.rs item="impl<IO: ActixStream> AsyncWrite for TlsStream<IO> / fn is_write_vectored" ret=r props=C18 name=stream::is_write_vectored
//@spec
    ensures r == self.0.vectored(),
//@end
//@extract file=actix-tls/src/accept/native_tls.rs item="impl<IO: ActixStream> ActixStream for TlsStream<IO> / fn poll_read_ready" ret=r props=C18 name=stream::poll_read_ready
//@spec
    ensures r == self.0.sock().next_read_ready(),   // [C18] readiness is the underlying socket's
//@end
//@extract file=actix-tls/src/accept/native_tls.rs item="impl<IO: ActixStream> ActixStream for TlsStream<IO> / fn poll_write_ready" ret=r props=C18 name=stream::poll_write_ready
//@spec
    ensures r == self.0.sock().next_write_ready(),   // [C18]
//@end
}


} // verus!
fn main() {}
