// Unit `tls_accept_native`: actix-tls/src/accept/native_tls.rs — only the readiness gate; `call` builds an `async move`
// block (rule R11: never extracted) and is NOT verified.
use vstd::prelude::*;
use core::task::Poll;
verus! {
//@include ../common/core.rs
//@include ../common/poll.rs
//@include ../common/tls_env.rs
#[verifier::external_body]
pub struct Error { _p: () }
#[verifier::external_body]
pub struct TlsAcceptor { _p: () }
//@extract_type file=actix-tls/src/accept/mod.rs item="enum TlsError<TlsErr, SvcErr>"
//@check_struct file=actix-tls/src/accept/native_tls.rs name=AcceptorService fields=acceptor,conns,handshake_timeout
//@extract_type file=actix-tls/src/accept/native_tls.rs item="struct AcceptorService"
impl AcceptorService {
//@extract file=actix-tls/src/accept/native_tls.rs item="impl<IO: ActixStream + 'static> Service<IO> for AcceptorService / fn poll_ready" ret=r props=C18 name=native_tls::poll_ready
//@spec
    ensures
        r matches Poll::Ready(Ok(_)) <==> self.conns.count() < self.conns.capacity(),   // [C18]
        !(self.conns.count() < self.conns.capacity()) ==> r is Pending,
//@end
}
} // verus!
fn main() {}
