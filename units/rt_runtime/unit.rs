// Unit `rt_runtime`: actix-rt/src/runtime.rs — the single-threaded Tokio runtime + LocalSet pair every System and Arbiter
// runs on (C10: everything an arbiter is given runs on ITS thread: tasks are spawned on the runtime's own LocalSet and
// `block_on` drives that same LocalSet).
use vstd::prelude::*;
use vstd::future::*;
use core::future::Future;
verus! {
//@include ../common/core.rs

// ===================================================================== tokio stand-ins (TRUSTED BASE)
pub mod tokio {
    pub mod runtime {
        use vstd::prelude::*;
        #[verifier::external_body]
        pub struct Runtime { _p: () }
        impl Runtime { pub uninterp spec fn id(&self) -> int; }
    }
    pub mod task {
        use vstd::prelude::*;
        use vstd::future::*;
        use core::future::Future;
        #[verifier::external_body]
        #[verifier::reject_recursive_types(T)]
        pub struct JoinHandle<T> { _p: core::marker::PhantomData<T> }
        impl<T> JoinHandle<T> {
            /// the LocalSet the task was spawned on
            pub uninterp spec fn on(&self) -> int;
        }
        /// the LocalSet that is being driven on the calling thread (tokio panics when there is none: documented)
        pub uninterp spec fn current_local_set() -> int;
        /// tokio::task::spawn_local: the task joins the LocalSet being driven on the CALLING thread
        #[verifier::external_body]
        pub fn spawn_local<F: Future + 'static>(f: F) -> (r: JoinHandle<F::Output>)
            ensures r.on() == current_local_set(),
        { unimplemented!() }
        /// tokio::task::LocalSet: tasks spawned on it run on the thread that drives it
        #[verifier::external_body]
        pub struct LocalSet { _p: () }
        impl LocalSet {
            pub uninterp spec fn id(&self) -> int;
            #[verifier::external_body]
            pub fn new() -> (r: LocalSet) { unimplemented!() }
            #[verifier::external_body]
            pub fn spawn_local<F: Future + 'static>(&self, f: F) -> (r: JoinHandle<F::Output>)
                ensures r.on() == self.id(),
            { unimplemented!() }
            /// PROPHECY names: which runtime / LocalSet drove the (one) block_on of the verified call
            #[verifier::external_body]
            pub fn block_on<F: Future>(&self, rt: &super::runtime::Runtime, f: F) -> (r: F::Output)
                ensures crate::drove() == (self.id(), rt.id()), f.awaited() ==> r == f@,
            { unimplemented!() }
        }
    }
}
//@once block_on
pub uninterp spec fn drove() -> (int, int);
use tokio::task::{JoinHandle, LocalSet};

//@check_struct file=actix-rt/src/runtime.rs name=Runtime fields=local,rt
pub struct Runtime { pub local: LocalSet, pub rt: tokio::runtime::Runtime }

// `default_tokio_runtime` / `Runtime::new` (a current-thread Tokio runtime with the I/O and time drivers) are NOT put under
// contract: no listed property depends on the flavour or the drivers of the runtime — commands run on the arbiter's
// thread because they are spawned on its LocalSet (below), whatever runtime drives it.

//@extract file=actix-rt/src/lib.rs item="fn spawn" ret=r props=C10 name=rt::spawn
//@spec
    ensures r.on() == tokio::task::current_local_set(),   // [C10] `actix_rt::spawn`: the task stays on the calling thread's LocalSet — on an arbiter thread, the arbiter's
//@end

impl Runtime {
//@extract file=actix-rt/src/runtime.rs item="impl Runtime / fn spawn" ret=r props=C10 name=runtime::spawn
//@spec
    ensures r.on() == self.local.id(),     // [C10] the task joins THIS runtime's LocalSet: it runs on the thread that drives it
//@end
//@extract file=actix-rt/src/runtime.rs item="impl Runtime / fn tokio_runtime" ret=r props=C10 name=runtime::tokio_runtime
//@spec
    ensures *r == self.rt,
//@end
//@extract file=actix-rt/src/runtime.rs item="impl Runtime / fn block_on" ret=r props=C10 name=runtime::block_on
//@spec
    ensures drove() == (self.local.id(), self.rt.id()),   // [C10] the caller's thread drives THIS LocalSet on THIS runtime
//@end
}

impl vstd::std_specs::convert::FromSpecImpl<tokio::runtime::Runtime> for Runtime {
    open spec fn obeys_from_spec() -> bool { false }
    uninterp spec fn from_spec(rt: tokio::runtime::Runtime) -> Runtime;
}
impl From<tokio::runtime::Runtime> for Runtime {
//@extract file=actix-rt/src/runtime.rs item="impl From<tokio::runtime::Runtime> for Runtime / fn from" ret=r props=C10 name=runtime::from
//@spec
    ensures r.rt == rt,     // [C10] the user's runtime is the one that is used
//@end
}

} // verus!
fn main() {}
