// Unit `tls_connect_native`: actix-tls/src/connect/native_tls.rs — the native-tls connector hands the REQUEST'S hostname
// to the TLS library (C19).  `call` returns an `async move` block: verified as the anonymous async fn it is (R11c).
use vstd::prelude::*;
use vstd::future::*;
use core::task::Poll;
use core::future::Future;
verus! {
//@include ../common/core.rs
//@include ../common/poll.rs

#[verifier::external_body]
pub struct Str { _p: () }
impl Str {
    pub uninterp spec fn bytes(&self) -> Seq<u8>;
    /// str::trim_end_matches(char): SOME prefix of the string (how much is trimmed is not modelled)
    #[verifier::external_body]
    pub fn trim_end_matches(&self, c: char) -> (r: &Str)
        ensures r.bytes().len() <= self.bytes().len(), r.bytes() == self.bytes().subrange(0, r.bytes().len() as int),
    { unimplemented!() }
}
/// R15b: a string literal in the code (content not modelled)
#[verifier::external_body]
pub fn vstr_lit(s: &'static str) -> (r: &'static Str) { unimplemented!() }
pub trait Host: Sized + 'static {
    spec fn spec_hostname(&self) -> Seq<u8>;
    fn hostname(&self) -> (r: &Str) ensures r.bytes() == self.spec_hostname();
}

// ===================================================================== tokio-native-tls stand-ins (TRUSTED BASE)
/// the handshake itself (certificate validation for `domain` included) is the TLS library's and is NOT verified.
/// PROPHECY name `tls_outcome(domain, io)`: what a client handshake for `domain` on `io` ends with.
#[verifier::external_body]
pub struct NativeTlsError { _p: () }
#[verifier::external_body]
#[verifier::reject_recursive_types(IO)]
pub struct AsyncTlsStream<IO> { _p: core::marker::PhantomData<IO> }
pub uninterp spec fn tls_outcome<IO>(domain: Seq<u8>, io: IO) -> Result<AsyncTlsStream<IO>, NativeTlsError>;
#[verifier::external_body]
#[verifier::reject_recursive_types(IO)]
pub struct HsFut<IO> { _p: core::marker::PhantomData<IO> }
#[verifier::external]
impl<IO> Future for HsFut<IO> {
    type Output = Result<AsyncTlsStream<IO>, NativeTlsError>;
    fn poll(self: core::pin::Pin<&mut Self>, cx: &mut core::task::Context<'_>) -> Poll<Self::Output> { unimplemented!() }
}
#[verifier::external_body]
pub struct AsyncNativeTlsConnector { _p: () }
impl AsyncNativeTlsConnector {
    #[verifier::external_body]
    pub fn connect<IO>(&self, domain: &Str, io: IO) -> (r: HsFut<IO>)
        ensures r@ == tls_outcome(domain.bytes(), io),
    { unimplemented!() }
}
impl Clone for AsyncNativeTlsConnector {
    #[verifier::external_body]
    fn clone(&self) -> (r: AsyncNativeTlsConnector) { unimplemented!() }
}
#[verifier::external_body]
pub struct String { _p: () }
#[verifier::external_body]
pub fn vfmt_string() -> (r: String) { unimplemented!() }
impl IoError {
    #[verifier::external_body]
    pub fn new(kind: ErrorKind, msg: String) -> (r: IoError) ensures r.spec_kind() == kind { unimplemented!() }
}
#[verifier::external_body]
#[verifier::reject_recursive_types(T)]
pub struct LocalBoxFuture<'a, T> { _p: core::marker::PhantomData<&'a T> }
pub struct Box { }
impl Box {
    #[verifier::external_body]
    pub fn pin<F: Future>(f: F) -> (r: LocalBoxFuture<'static, F::Output>) { unimplemented!() }
}

// ===================================================================== real types and functions
#[verifier::reject_recursive_types(R)]
#[verifier::reject_recursive_types(IO)]
//@extract_type file=actix-tls/src/connect/connection.rs item="struct Connection<R, IO>"
impl<R, IO> Connection<R, IO> {
//@extract file=actix-tls/src/connect/connection.rs item="impl<R, IO> Connection<R, IO> / fn replace_io" ret=r props=C19 name=connection::replace_io
//@spec
    ensures r.0 == self.io, r.1.req == self.req, r.1.io == io,
//@end
}
impl<R: Host, IO> Connection<R, IO> {
//@extract file=actix-tls/src/connect/connection.rs item="impl<R: Host, IO> Connection<R, IO> / fn hostname" ret=r props=C19 name=connection::hostname sig_replace="&str=>&Str"
//@spec
    ensures r.bytes() == self.req.spec_hostname(),
//@end
}

//@check_struct file=actix-tls/src/connect/native_tls.rs name=TlsConnector fields=connector
pub struct TlsConnector { pub connector: AsyncNativeTlsConnector }
impl AsyncNativeTlsConnector { pub uninterp spec fn cfg(&self) -> int; }
#[verifier::external_body]
pub struct NativeTlsConnector { _p: () }
impl NativeTlsConnector { pub uninterp spec fn cfg(&self) -> int; }
impl vstd::std_specs::convert::FromSpecImpl<NativeTlsConnector> for AsyncNativeTlsConnector {
    open spec fn obeys_from_spec() -> bool { false }
    uninterp spec fn from_spec(c: NativeTlsConnector) -> AsyncNativeTlsConnector;
}
impl From<NativeTlsConnector> for AsyncNativeTlsConnector {
    #[verifier::external_body]
    fn from(c: NativeTlsConnector) -> (r: AsyncNativeTlsConnector) ensures r.cfg() == c.cfg() { unimplemented!() }
}
impl TlsConnector {
//@extract file=actix-tls/src/connect/native_tls.rs item="impl TlsConnector / fn new" ret=r props=C19 name=native_tls::factory_new
//@spec
    ensures r.connector.cfg() == connector.cfg(),   // [C19]
//@end
}
/// `#[derive(Clone)]` on TlsConnector and actix_utils::future::{ok, Ready}
impl Clone for TlsConnector {
    #[verifier::external_body]
    fn clone(&self) -> (r: TlsConnector) ensures r.connector.cfg() == self.connector.cfg() { unimplemented!() }
}
#[verifier::reject_recursive_types(T)]
pub struct FutReady<T> { pub val: Option<T> }
pub fn ok<T, E>(t: T) -> (r: FutReady<Result<T, E>>) ensures r.val == Some(Ok::<T, E>(t)) { FutReady { val: Some(Ok(t)) } }
impl TlsConnector {
//@extract file=actix-tls/src/connect/native_tls.rs item="impl<R: Host, IO> ServiceFactory<Connection<R, IO>> for TlsConnector / fn new_service" ret=r props=C19 name=native_tls::factory_new_service sig_replace="_: ()=>_unused: ();;Ready<=>FutReady<"
//@spec
    ensures r.val matches Some(Ok(svc)) && svc.connector.cfg() == self.connector.cfg(),   // [C19] the service IS the configured connector
//@end
}

//@extract file=actix-tls/src/connect/native_tls.rs item="impl<R, IO> Service<Connection<R, IO>> for TlsConnector / fn call" async_block=1 block_sig="async fn call_block<R: Host, IO>(stream: Connection<R, ()>, io: IO, connector: AsyncNativeTlsConnector) -> Result<Connection<R, AsyncTlsStream<IO>>, io::Error>" ret=r props=C19 name=native_tls::call_block str_lits closure_ty="Connection<R, AsyncTlsStream<IO>>@@o.req == stream.req && o.io == res;;-" closures=1 bind="connector=self.connector.clone()"
//@spec
    requires true,
    ensures
        // the handshake is made for the REQUEST's hostname, on the request's own stream; its success carries the
        // original request with the TLS stream, its failure is an error   [C19]
        match tls_outcome(stream.req.spec_hostname(), io) {
            Ok(tls) => r matches Ok(c) && c.req == stream.req && c.io == tls,
            Err(_) => r is Err,
        },
//@end

impl TlsConnector {
//@extract file=actix-tls/src/connect/native_tls.rs item="impl<R, IO> Service<Connection<R, IO>> for TlsConnector / fn call" ret=r props=C19 name=native_tls::call sig_replace="fn call(&self, stream: Connection<R, IO>)=>fn call<R: Host, IO>(&self, stream: Connection<R, IO>)" async_block_call="call_block(stream, io, connector)" bind="connector=self.connector.clone()"
//@spec
    requires true,
//@insert before="Box::pin("
        // the future works on the request's own stream and keeps the request   [C19]
        assert(io == old_stream.io && stream.req == old_stream.req);   // [C19]
//@insert before="let (io, stream) = stream.replace_io(());"
        let ghost old_stream = stream;
//@end
}
} // verus!
fn main() {}
