// Unit `tls_connect_rustls` (one instance per rustls module, ${FILE}): the TLS connector service hands the REQUEST'S
// hostname to the TLS library as the server name to verify, and reports an invalid name as an InvalidInput error (C19).
use vstd::prelude::*;
use core::task::Poll;

macro_rules! ready {
    ($e:expr $(,)?) => {
        match $e {
            core::task::Poll::Ready(t) => t,
            core::task::Poll::Pending => return core::task::Poll::Pending,
        }
    };
}

verus! {

//@include ../common/core.rs
//@include ../common/poll.rs

// ===================================================================== stand-ins (TRUSTED BASE)
/// `str` (rule R15)
#[verifier::external_body]
pub struct Str { _p: () }
impl Str {
    pub uninterp spec fn bytes(&self) -> Seq<u8>;
    /// str::trim_end_matches(char): SOME prefix of the string (how much is trimmed is not modelled)
    #[verifier::external_body]
    pub fn trim_end_matches(&self, c: char) -> (r: &Str)
        ensures r.bytes().len() <= self.bytes().len(), r.bytes() == self.bytes().subrange(0, r.bytes().len() as int),
    { unimplemented!() }
}

pub trait Host: Sized + 'static {
    spec fn spec_hostname(&self) -> Seq<u8>;
    fn hostname(&self) -> (r: &Str)
        ensures r.bytes() == self.spec_hostname();
}

/// rustls ServerName.  Certificate validation against this name is the TLS library's job and is NOT verified here;
/// what is verified is WHICH name the library is asked to validate.
#[verifier::external_body]
pub struct ServerName { _p: () }
#[verifier::external_body]
pub struct InvalidName { _p: () }
impl ServerName {
    pub uninterp spec fn name(&self) -> Seq<u8>;
    #[verifier::external_body]
    pub fn to_owned(&self) -> (r: ServerName) ensures r.name() == self.name() { unimplemented!() }
}
/// syntactic validity of a DNS name / IP literal as decided by rustls
pub uninterp spec fn valid_server_name(s: Seq<u8>) -> bool;
impl vstd::std_specs::convert::TryFromSpecImpl<&Str> for ServerName {
    open spec fn obeys_try_from_spec() -> bool { false }
    uninterp spec fn try_from_spec(s: &Str) -> Result<ServerName, InvalidName>;
}
impl TryFrom<&Str> for ServerName {
    type Error = InvalidName;
    #[verifier::external_body]
    fn try_from(s: &Str) -> (r: Result<ServerName, InvalidName>)
        ensures r is Ok <==> valid_server_name(s.bytes()), r matches Ok(n) ==> n.name() == s.bytes(),
    { unimplemented!() }
}

#[verifier::external_body]
pub struct ClientConfig { _p: () }
#[verifier::external_body]
#[verifier::reject_recursive_types(T)]
pub struct Arc<T> { _p: core::marker::PhantomData<T> }
impl<T> Arc<T> {
    #[verifier::external_body]
    pub fn clone(a: &Arc<T>) -> (r: Arc<T>) ensures r == *a { unimplemented!() }
}
impl<T> Clone for Arc<T> { #[verifier::external_body] fn clone(&self) -> (r: Arc<T>) ensures r == *self { unimplemented!() } }
#[verifier::external_body]
pub struct RustlsTlsConnector { _p: () }
impl vstd::std_specs::convert::FromSpecImpl<Arc<ClientConfig>> for RustlsTlsConnector {
    open spec fn obeys_from_spec() -> bool { false }
    uninterp spec fn from_spec(a: Arc<ClientConfig>) -> RustlsTlsConnector;
}
impl From<Arc<ClientConfig>> for RustlsTlsConnector {
    #[verifier::external_body]
    fn from(a: Arc<ClientConfig>) -> (r: RustlsTlsConnector) { unimplemented!() }
}
/// the handshake future: `sni()` is the server name it verifies the peer's certificate against
#[verifier::external_body]
#[verifier::reject_recursive_types(IO)]
pub struct RustlsConnect<IO> { _p: core::marker::PhantomData<IO> }
#[verifier::external_body]
#[verifier::reject_recursive_types(IO)]
pub struct AsyncTlsStream<IO> { _p: core::marker::PhantomData<IO> }
impl<IO> RustlsConnect<IO> {
    pub uninterp spec fn sni(&self) -> Seq<u8>;
    pub uninterp spec fn io(&self) -> IO;
    #[verifier::external_body]
    pub fn poll(&mut self, cx: &mut Context<'_>) -> (r: Poll<io::Result<AsyncTlsStream<IO>>>) { unimplemented!() }
}
impl RustlsTlsConnector {
    #[verifier::external_body]
    pub fn connect<IO>(&self, name: ServerName, io: IO) -> (r: RustlsConnect<IO>)
        ensures r.sni() == name.name(), r.io() == io,
    { unimplemented!() }
}
pub struct Pin { }
impl Pin { pub fn new<T>(t: T) -> (r: T) ensures r == t { t } }
impl IoError {
    #[verifier::external_body]
    pub fn new(kind: ErrorKind, msg: &'static str) -> (r: IoError) ensures r.spec_kind() == kind { unimplemented!() }
}

// ===================================================================== real types and functions
#[verifier::reject_recursive_types(R)]
#[verifier::reject_recursive_types(IO)]
//@extract_type file=actix-tls/src/connect/connection.rs item="struct Connection<R, IO>"

impl<R, IO> Connection<R, IO> {
//@extract file=actix-tls/src/connect/connection.rs item="impl<R, IO> Connection<R, IO> / fn replace_io" ret=r props=C19 name=connection::replace_io
//@spec
    ensures r.0 == self.io, r.1.req == self.req, r.1.io == io,
//@end
}
impl<R: Host, IO> Connection<R, IO> {
//@extract file=actix-tls/src/connect/connection.rs item="impl<R: Host, IO> Connection<R, IO> / fn hostname" ret=r props=C19 name=connection::hostname sig_replace="&str=>&Str"
//@spec
    ensures r.bytes() == self.req.spec_hostname(),
//@end
}

//@check_struct file=${FILE} name=TlsConnectorService fields=connector
pub struct TlsConnectorService { pub connector: Arc<ClientConfig> }
/// actix_utils::future::{ok, Ready}
#[verifier::reject_recursive_types(T)]
pub struct Ready<T> { pub val: Option<T> }
pub fn ok<T, E>(t: T) -> (r: Ready<Result<T, E>>) ensures r.val == Some(Ok::<T, E>(t)) { Ready { val: Some(Ok(t)) } }
//@check_struct file=${FILE} name=TlsConnector fields=connector
pub struct TlsConnector { pub connector: Arc<ClientConfig> }
impl TlsConnector {
//@extract file=${FILE} item="impl TlsConnector / fn new" ret=r props=C19 name=connect::factory_new
//@spec
    ensures r.connector == connector,
//@end
//@extract file=${FILE} item="impl TlsConnector / fn service" ret=r props=C19 name=connect::factory_service
//@spec
    ensures r.connector == connector,   // [C19] the service handshakes with the configuration it was given
//@end
//@extract file=${FILE} item="impl<R, IO> ServiceFactory<Connection<R, IO>> for TlsConnector / fn new_service" ret=r props=C19 name=connect::factory_new_service sig_replace="fn new_service(&self, _: ())=>fn new_service(&self, _unused: ())"
//@spec
    ensures r.val matches Some(Ok(svc)) && svc.connector == self.connector,   // [C19] every service built by the factory uses the factory's TLS configuration
//@end
}
#[verifier::reject_recursive_types(R)]
#[verifier::reject_recursive_types(IO)]
//@extract_type file=${FILE} item="enum ConnectFut<R, IO>"

impl TlsConnectorService {
//@extract file=${FILE} item="impl<R, IO> Service<Connection<R, IO>> for TlsConnectorService / fn call" ret=r props=C19 name=tls::call sig_replace="fn call(&self, connection: Connection<R, IO>)=>fn call<R: Host, IO>(&self, connection: Connection<R, IO>)"
//@spec
    ensures
        // the handshake verifies the peer against the REQUEST's hostname, on the request's own stream   [C19]
        valid_server_name(connection.req.spec_hostname()) ==> (r matches ConnectFut::Future { connect, connection: c }
            && connect.sni() == connection.req.spec_hostname() && connect.io() == connection.io
            && (c matches Some(cc) && cc.req == connection.req)),
        // a syntactically invalid name never reaches the TLS library   [C19]
        !valid_server_name(connection.req.spec_hostname()) ==> r is ${INVALID},
//@end
}

impl<R: Host, IO> ConnectFut<R, IO> {
//@extract file=${FILE} item="impl<R, IO> Future for ConnectFut<R, IO> / fn poll" ret=r props=C19 name=tls::fut_poll alias_get_mut
//@spec
    requires
        *old(self) matches ConnectFut::Future { connection, .. } ==> connection is Some,
    ensures
        // an invalid server name is an error (InvalidInput; the deprecated rustls 0.20 module reports kind Other)   [C19]
        *old(self) is ${INVALID} ==> (r matches Poll::Ready(Err(e)) && e.spec_kind() == ErrorKind::${KIND}),
        // success carries the original request   [C19]
        *old(self) matches ConnectFut::Future { connection: Some(c), .. } ==> (r matches Poll::Ready(Ok(out)) ==> out.req == c.req),
//@end
}

} // verus!
fn main() {}
