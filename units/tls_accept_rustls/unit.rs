// Unit `tls_accept_rustls` (one instance per rustls module, ${FILE}): the acceptor service and its accept future (C18).
use vstd::prelude::*;
use core::task::Poll;
verus! {

//@include ../common/core.rs
//@include ../common/poll.rs
//@include ../common/tls_env.rs

// ===================================================================== tokio-rustls stand-ins (TRUSTED BASE)
/// tokio_rustls::server::TlsStream<IO>, the handshake future `Accept<IO>` and the acceptor.  The TLS handshake itself
/// is NOT verified: `Accept::poll` may answer anything; `outcome()` records what it answered last.
pub mod tokio_rustls { pub mod server {
    #[verifier::external_body]
    #[verifier::reject_recursive_types(IO)]
    pub struct TlsStream<IO> { _p: core::marker::PhantomData<IO> }
} }

#[verifier::external_body]
#[verifier::reject_recursive_types(IO)]
pub struct Accept<IO> { _p: core::marker::PhantomData<IO> }

impl<IO> Accept<IO> {
    pub uninterp spec fn io(&self) -> IO;
    #[verifier::external_body]
    pub fn poll(&mut self, cx: &mut Context<'_>) -> (r: Poll<io::Result<tokio_rustls::server::TlsStream<IO>>>)
        ensures final(self).io() == old(self).io(),
    { unimplemented!() }
}

#[verifier::external_body]
pub struct TlsAcceptor { _p: () }
impl TlsAcceptor {
    #[verifier::external_body]
    pub fn accept<IO>(&self, io: IO) -> (r: Accept<IO>)
        ensures r.io() == io,
    { unimplemented!() }
}

// ===================================================================== real types
//@extract_type file=actix-tls/src/accept/mod.rs item="enum TlsError<TlsErr, SvcErr>"
#[verifier::reject_recursive_types(IO)]
pub struct TlsStream<IO>(pub tokio_rustls::server::TlsStream<IO>);
//@check_struct file=${FILE} name=AcceptorService fields=acceptor,conns,handshake_timeout
//@extract_type file=${FILE} item="struct AcceptorService"
//@check_struct file=${FILE} name=AcceptFut fields=fut,timeout,_guard
#[verifier::reject_recursive_types(IO)]
pub struct AcceptFut<IO> { pub fut: Accept<IO>, pub timeout: Sleep, pub _guard: CounterGuard }

impl AcceptorService {

//@extract file=${FILE} item="impl<IO: ActixStream> Service<IO> for AcceptorService / fn poll_ready" ret=r props=C18 name=accept::poll_ready
//@spec
    ensures
        // not ready while the number of handshakes in progress has reached the configured maximum   [C18]
        r matches Poll::Ready(Ok(_)) <==> self.conns.count() < self.conns.capacity(),
        !(self.conns.count() < self.conns.capacity()) ==> r is Pending,
//@end

//@extract file=${FILE} item="impl<IO: ActixStream> Service<IO> for AcceptorService / fn call" ret=r props=C18 name=accept::call sig_replace="fn call(&self, req: IO)=>fn call<IO>(&self, req: IO)"
//@spec
    ensures
        r.fut.io() == req,                                                  // the handshake runs on the caller's stream
        r.timeout.deadline() == now_spec() + self.handshake_timeout.ns(),    // [C18] bounded by the configured handshake timeout
        r._guard.of() == self.conns.id(),                                    // [C18] counted for as long as the future lives
//@end

}

impl<IO> AcceptFut<IO> {

//@extract file=${FILE} item="impl<IO: ActixStream> Future for AcceptFut<IO> / fn poll" ret=r props=C18 name=accept::fut_poll unproject closure_ty="Result<TlsStream<IO>, TlsError<io::Error, Infallible>>"
//@spec
    ensures
        final(self).timeout.deadline() == old(self).timeout.deadline(),
        // every poll at or after the deadline resolves the call: with the handshake's result if that is ready in this
        // poll, otherwise with Timeout — never later than the configured timeout (modulo being polled)   [C18]
        now_spec() >= old(self).timeout.deadline() ==> r is Ready,
        // before the deadline it resolves only through the handshake; a timeout error is never reported early  [C18]
        r matches Poll::Ready(Err(TlsError::Timeout)) ==> now_spec() >= old(self).timeout.deadline(),
        // a working stream is the handshake's own stream; a TLS error is the handshake's own error
        r matches Poll::Ready(Err(e)) ==> e is Timeout || e is Tls,
//@end

}

} // verus!
fn main() {}
