// Unit `tls_accept_rustls` (one instance per rustls module, ${FILE}): the acceptor service and its accept future (C18).
use vstd::prelude::*;
use core::task::Poll;
verus! {

//@include ../common/core.rs
//@include ../common/poll.rs
//@include ../common/tls_env.rs

// ===================================================================== tokio-rustls stand-ins (TRUSTED BASE)
/// tokio_rustls::server::TlsStream<IO>, the handshake future `Accept<IO>` and the acceptor.  The TLS handshake itself
/// is NOT verified: `Accept::poll` may answer anything; `outcome()` records what it answered last.
pub mod tokio_rustls { pub mod server {
    #[verifier::external_body]
    #[verifier::reject_recursive_types(IO)]
    pub struct TlsStream<IO> { _p: core::marker::PhantomData<IO> }
} }

#[verifier::external_body]
#[verifier::reject_recursive_types(IO)]
pub struct Accept<IO> { _p: core::marker::PhantomData<IO> }

impl<IO> Accept<IO> {
    pub uninterp spec fn io(&self) -> IO;
    /// the most recent poll returned Pending (the socket holds the task's waker)
    pub uninterp spec fn hs_parked(&self) -> bool;
    #[verifier::external_body]
    pub fn poll(&mut self, cx: &mut Context<'_>) -> (r: Poll<io::Result<tokio_rustls::server::TlsStream<IO>>>)
        ensures final(self).io() == old(self).io(), final(self).hs_parked() == (r is Pending),
    { unimplemented!() }
}

#[verifier::external_body]
pub struct TlsAcceptor { _p: () }
impl TlsAcceptor {
    #[verifier::external_body]
    pub fn accept<IO>(&self, io: IO) -> (r: Accept<IO>)
        ensures r.io() == io,
    { unimplemented!() }
}

// ===================================================================== real types
//@extract_type file=actix-tls/src/accept/mod.rs item="enum TlsError<TlsErr, SvcErr>"
#[verifier::reject_recursive_types(IO)]
pub struct TlsStream<IO>(pub tokio_rustls::server::TlsStream<IO>);
pub type InnerTls<IO> = tokio_rustls::server::TlsStream<IO>;
#[verifier::external_body]
pub struct ServerConnection { _p: () }
impl<IO> tokio_rustls::server::TlsStream<IO> {
    #[verifier::external_body]
    pub fn get_ref(&self) -> (r: (&IO, &ServerConnection)) ensures *r.0 == self.sock() { unimplemented!() }
    /// direct access to the transport and the session state: what is done through it bypasses the session's own
    /// read / write / flush logic (nothing is known about the session afterwards except its plaintext logs)
    #[verifier::external_body]
    pub fn get_mut(&mut self) -> (r: (&mut IO, &mut ServerConnection))
        ensures final(self).plain_out() == old(self).plain_out(), final(self).plain_in() == old(self).plain_in(),
    { unimplemented!() }
}
//@check_struct file=${FILE} name=AcceptorService fields=acceptor,conns,handshake_timeout
//@extract_type file=${FILE} item="struct AcceptorService"
//@check_struct file=${FILE} name=AcceptFut fields=fut,timeout,_guard
#[verifier::reject_recursive_types(IO)]
pub struct AcceptFut<IO> { pub fut: Accept<IO>, pub timeout: Sleep, pub _guard: CounterGuard }

// ===================================================================== the acceptor factory
//@include ../common/tls_factory.rs
pub mod reexports { #[verifier::external_body] pub struct ServerConfig { _p: () } }
#[verifier::external_body]
#[verifier::reject_recursive_types(T)]
pub struct Arc<T> { _p: core::marker::PhantomData<T> }
impl<T> Arc<T> { #[verifier::external_body] pub fn new(t: T) -> (r: Arc<T>) { unimplemented!() } }
impl<T> Clone for Arc<T> { #[verifier::external_body] fn clone(&self) -> (r: Arc<T>) ensures r == *self { unimplemented!() } }
impl vstd::std_specs::convert::FromSpecImpl<Arc<reexports::ServerConfig>> for TlsAcceptor {
    open spec fn obeys_from_spec() -> bool { false }
    uninterp spec fn from_spec(c: Arc<reexports::ServerConfig>) -> TlsAcceptor;
}
impl From<Arc<reexports::ServerConfig>> for TlsAcceptor {
    #[verifier::external_body]
    fn from(c: Arc<reexports::ServerConfig>) -> (r: TlsAcceptor) { unimplemented!() }
}
//@check_struct file=${FILE} name=Acceptor fields=config,handshake_timeout
//@extract_type file=${FILE} item="struct Acceptor"
impl Acceptor {
//@extract file=${FILE} item="impl Acceptor / fn new" ret=r props=C18 name=accept::Acceptor::new
//@spec
    ensures r.handshake_timeout.ns() == default_hs_timeout_ns(),   // [C18] the crate default (its VALUE, 3 s today, is not part of the property)
//@end
//@extract file=${FILE} item="impl Acceptor / fn set_handshake_timeout" ret=r props=C18 name=accept::Acceptor::set_handshake_timeout
//@spec
    // the returned reference IS the acceptor, now carrying the new timeout   [C18]
    ensures r.handshake_timeout == handshake_timeout, r.config == old(self).config, *final(r) == *final(self),   // [C18]
//@end
//@extract file=${FILE} item="impl Clone for Acceptor / fn clone" ret=r props=C18 name=accept::Acceptor::clone sig_replace="fn clone(=>fn clone_("
//@spec
    ensures r.handshake_timeout == self.handshake_timeout, r.config == self.config,   // [C18] a cloned factory keeps its configuration
//@end
//@extract file=${FILE} item="impl<IO: ActixStream> ServiceFactory<IO> for Acceptor / fn new_service" ret=r props=C18 name=accept::Acceptor::new_service tls_with=MAX_CONN_COUNTER sig_replace="fn new_service(&self, _: ())=>fn new_service(&self, _unused: ())"
//@spec
    ensures
        // the service bounds handshakes by the factory's configured timeout and counts them on this thread's counter   [C18]
        r.val matches Some(Ok(svc)) && svc.handshake_timeout == self.handshake_timeout && svc.conns.id() == thread_counter_id(),
//@end
}

impl AcceptorService {

//@extract file=${FILE} item="impl<IO: ActixStream> Service<IO> for AcceptorService / fn poll_ready" ret=r props=C18 name=accept::poll_ready
//@spec
    ensures
        // not ready while the number of handshakes in progress has reached the configured maximum   [C18]
        r matches Poll::Ready(Ok(_)) <==> self.conns.count() < self.conns.capacity(),
        !(self.conns.count() < self.conns.capacity()) ==> r is Pending,
//@end

//@extract file=${FILE} item="impl<IO: ActixStream> Service<IO> for AcceptorService / fn call" ret=r props=C18 name=accept::call sig_replace="fn call(&self, req: IO)=>fn call<IO>(&self, req: IO)"
//@spec
    ensures
        r.fut.io() == req,                                                  // the handshake runs on the caller's stream
        r.timeout.deadline() == now_spec() + self.handshake_timeout.ns(),    // [C18] bounded by the configured handshake timeout
        r._guard.of() == self.conns.id(),                                    // [C18] counted for as long as the future lives
//@end

}

impl<IO> AcceptFut<IO> {

//@extract file=${FILE} item="impl<IO: ActixStream> Future for AcceptFut<IO> / fn poll" ret=r props=C18 name=accept::fut_poll unproject closure_ty="Result<TlsStream<IO>, TlsError<io::Error, Infallible>>"
//@spec
    ensures
        final(self).timeout.deadline() == old(self).timeout.deadline(),
        // every poll at or after the deadline resolves the call: with the handshake's result if that is ready in this
        // poll, otherwise with Timeout — never later than the configured timeout (modulo being polled)   [C18]
        now_spec() >= old(self).timeout.deadline() ==> r is Ready,
        // before the deadline it resolves only through the handshake; a timeout error is never reported early  [C18]
        r matches Poll::Ready(Err(TlsError::Timeout)) ==> now_spec() >= old(self).timeout.deadline(),
        // a working stream is the handshake's own stream; a TLS error is the handshake's own error
        r matches Poll::Ready(Err(e)) ==> e is Timeout || e is Tls,
        // Pending only with BOTH wake-ups arranged: the handshake's socket and the handshake timer   [C18]
        r is Pending ==> final(self).timeout.parked() && final(self).fut.hs_parked(),   // [C18]
//@end

}


// ===================================================================== the wrapper forwards every I/O operation unchanged (C18: data intact)
//@include ../common/tls_stream.rs
impl<IO: ActixStream> TlsStream<IO> {
//@extract file=${FILE} item="impl<IO: ActixStream> AsyncRead for TlsStream<IO> / fn poll_read" ret=r props=C18 name=stream::poll_read alias_get_mut
//@spec
    ensures
        // exactly the TLS session's own read: the bytes appended to `buf` are the next plaintext bytes, none lost, none invented   [C18]
        r matches Poll::Ready(Ok(_)) ==> exists|n: int| 0 <= n <= old(self).0.plain_in().len()
            && final(buf).filled() == old(buf).filled() + #[trigger] old(self).0.plain_in().subrange(0, n)
            && final(self).0.plain_in() == old(self).0.plain_in().subrange(n, old(self).0.plain_in().len() as int),
        !(r matches Poll::Ready(Ok(_))) ==> final(buf).filled() == old(buf).filled() && final(self).0.plain_in() == old(self).0.plain_in(),
        final(self).0.plain_out() == old(self).0.plain_out(),
//@end
//@extract file=${FILE} item="impl<IO: ActixStream> AsyncWrite for TlsStream<IO> / fn poll_write" ret=r props=C18 name=stream::poll_write alias_get_mut
//@spec
    ensures
        // exactly the accepted prefix of `buf` is handed to the TLS session, in order   [C18]
        r matches Poll::Ready(Ok(n)) ==> n <= buf@.len() && final(self).0.plain_out() == old(self).0.plain_out() + buf@.subrange(0, n as int),
        !(r matches Poll::Ready(Ok(_))) ==> final(self).0.plain_out() == old(self).0.plain_out(),
        final(self).0.plain_in() == old(self).0.plain_in(),
//@end
//@extract file=${FILE} item="impl<IO: ActixStream> AsyncWrite for TlsStream<IO> / fn poll_flush" ret=r props=C18 name=stream::poll_flush alias_get_mut
//@spec
    ensures final(self).0.plain_out() == old(self).0.plain_out(), final(self).0.plain_in() == old(self).0.plain_in(),
            r matches Poll::Ready(Ok(_)) ==> final(self).0.flushed(),   // [C18]
//@end
//@extract file=${FILE} item="impl<IO: ActixStream> AsyncWrite for TlsStream<IO> / fn poll_shutdown" ret=r props=C18 name=stream::poll_shutdown alias_get_mut
//@spec
    ensures final(self).0.plain_out() == old(self).0.plain_out(), final(self).0.plain_in() == old(self).0.plain_in(),
            r matches Poll::Ready(Ok(_)) ==> final(self).0.shut(),   // [C18]
//@end
//@extract file=${FILE} item="impl<IO: ActixStream> AsyncWrite for TlsStream<IO> / fn poll_write_vectored" ret=r props=C18 name=stream::poll_write_vectored alias_get_mut
//@spec
    ensures
        r matches Poll::Ready(Ok(n)) ==> n <= io_slices_bytes(bufs).len() && final(self).0.plain_out() == old(self).0.plain_out() + io_slices_bytes(bufs).subrange(0, n as int),   // [C18]
        !(r matches Poll::Ready(Ok(_))) ==> final(self).0.plain_out() == old(self).0.plain_out(),
        final(self).0.plain_in() == old(self).0.plain_in(),
//@end
//@extract file=${FILE} item="impl<IO: ActixStream> AsyncWrite for TlsStream<IO> / fn is_write_vectored" ret=r props=C18 name=stream::is_write_vectored
//@spec
    ensures r == self.0.vectored(),
//@end
//@extract file=${FILE} item="impl<IO: ActixStream> ActixStream for TlsStream<IO> / fn poll_read_ready" ret=r props=C18 name=stream::poll_read_ready
//@spec
    ensures r == self.0.sock().next_read_ready(),   // [C18] readiness is the underlying socket's
//@end
//@extract file=${FILE} item="impl<IO: ActixStream> ActixStream for TlsStream<IO> / fn poll_write_ready" ret=r props=C18 name=stream::poll_write_ready
//@spec
    ensures r == self.0.sock().next_write_ready(),   // [C18]
//@end
}

} // verus!
fn main() {}
