// Unit `backpressure`: the two-thread back-pressure protocol of one worker as a ghost state machine whose transitions
// are the *proved* contracts of the real functions (DESIGN.md §7 C02/C03).  Pure Verus lemmas; no executable code.
//
//   T_send  accept thread hands a connection to the worker          <= accept / accept_one contracts (unit accept):
//           only while the worker's availability bit is set            dispatch goes to an *available* handle
//   T_inc   accept thread records the dispatch                       <= Counter::inc contract (Kani) + send_connection
//           counter+1; bit cleared iff inc returned false               contract (bit cleared iff inc_counter() false)
//   T_done  worker finishes a connection (guard dropped)             <= WorkerCounterGuard::drop + Counter::dec (Kani)
//           counter-1; one WorkerAvailable queued iff dec was true
//   T_wake  accept thread pops WorkerAvailable(idx)                  <= handle_waker arm contract (unit accept): bit set
//
// The counter transition forms `inc_post/dec_post/guard_drop_post` are not restated here: they are extracted from
// kani/server_counter/harness.rs, where Kani proves them of the real code for all values.
use vstd::prelude::*;
verus! {

//@extract_spec file=kani/server_counter/harness.rs item="fn inc_post" base=verif
//@extract_spec file=kani/server_counter/harness.rs item="fn dec_post" base=verif
//@extract_spec file=kani/server_counter/harness.rs item="fn guard_drop_post" base=verif

/// ghost state of one worker as seen by both threads
pub struct W {
    pub c: usize,        // stored counter value (biased by one)
    pub limit: usize,    // max_concurrent_connections
    pub idx: usize,
    pub sent: nat,       // connections handed to the worker's channel
    pub incd: nat,       // of those, recorded by inc
    pub done: nat,       // connections finished (guards dropped)
    pub avail: bool,     // accept thread's availability bit
    pub wakes: nat,      // WorkerAvailable(idx) notifications queued and not yet processed
}

pub open spec fn in_progress(w: W) -> int { w.sent - w.done }

pub open spec fn init(w: W) -> bool {
    w.c == 1 && w.sent == 0 && w.incd == 0 && w.done == 0 && w.avail && w.wakes == 0 && w.limit >= 1
}

pub open spec fn t_send(w: W, n: W) -> bool {
    &&& w.avail && w.sent == w.incd               // dispatch only to an available worker; the accept thread is sequential
    &&& n == W { sent: w.sent + 1, ..w }
}

pub open spec fn t_inc(w: W, n: W) -> bool {
    &&& w.sent == w.incd + 1
    &&& exists|r: bool| inc_post(w.c, n.c, r, w.limit) && n.avail == (w.avail && r)   // bit cleared iff inc returned false
    &&& n == W { c: n.c, avail: n.avail, incd: w.incd + 1, ..w }
}

pub open spec fn t_done(w: W, n: W) -> bool {
    &&& w.done < w.sent                            // only a connection the worker received can finish
    &&& exists|k: usize, wi: usize| guard_drop_post(w.c, n.c, w.limit, k, wi, w.idx) && n.wakes == w.wakes + k
    &&& n == W { c: n.c, wakes: n.wakes, done: w.done + 1, ..w }
}

pub open spec fn t_wake(w: W, n: W) -> bool {
    &&& w.wakes > 0 && w.sent == w.incd           // processed by the accept thread between two dispatches
    &&& n == W { wakes: (w.wakes - 1) as nat, avail: true, ..w }
}

pub open spec fn step(w: W, n: W) -> bool { t_send(w, n) || t_inc(w, n) || t_done(w, n) || t_wake(w, n) }

/// the inductive invariant I2
pub open spec fn i2(w: W) -> bool {
    &&& w.limit >= 1
    &&& w.c == 1 + w.incd - w.done
    &&& w.done <= w.sent && w.incd <= w.sent <= w.incd + 1
    &&& w.wakes <= 1
    &&& (w.c > w.limit ==> !w.avail && w.wakes == 0 && w.sent == w.incd && w.c == w.limit + 1)
    &&& (w.c <= w.limit ==> (w.avail && w.wakes == 0) || (!w.avail && w.wakes == 1))
    &&& (w.sent == w.incd + 1 ==> w.avail)
}

//@lemma lemma_i2_init props=C02,C03
pub proof fn lemma_i2_init(w: W)
    requires init(w),
    ensures i2(w),
{
}
//@end

//@lemma lemma_i2_inductive props=C02,C03
/// every protocol step preserves I2; in particular T_done never drives the stored counter below zero, and its
/// precondition implies the `requires` of the Counter::dec contract (stored value >= 1)
pub proof fn lemma_i2_inductive(w: W, n: W)
    requires i2(w), step(w, n), w.limit < usize::MAX,
    ensures i2(n),
            t_done(w, n) ==> w.c >= 1,
{
}
//@end

//@lemma lemma_c02_limit_never_exceeded props=C02
/// C02: in every reachable state the number of connections in progress is at most the limit
pub proof fn lemma_c02_limit_never_exceeded(w: W)
    requires i2(w),
    ensures in_progress(w) <= w.limit,
{
}
//@end

//@lemma lemma_c03_no_lost_wake props=C03
/// C03 (safety form): at a quiescent state (no notification pending, accept thread between dispatches) a worker
/// whose bit is clear is saturated; a worker below its limit is therefore marked available.  Holds for every
/// limit >= 1, including 1.
pub proof fn lemma_c03_no_lost_wake(w: W)
    requires i2(w), w.wakes == 0, w.sent == w.incd,
    ensures !w.avail ==> in_progress(w) == w.limit,
            in_progress(w) < w.limit ==> w.avail,
{
}
//@end

//@lemma lemma_c03_release_after_one_completion props=C03
/// a saturated worker becomes available again after ONE completion followed by the processing of its notification
pub proof fn lemma_c03_release_after_one_completion(w: W, m: W, n: W)
    requires i2(w), w.limit < usize::MAX, in_progress(w) == w.limit, !w.avail, w.wakes == 0, w.sent == w.incd,
             t_done(w, m), t_wake(m, n),
    ensures n.avail && in_progress(n) == w.limit - 1,
{
}
//@end

//@lemma lemma_reach_t_done_wakes props=C03
/// vacuity guard: the hypotheses of the previous lemma are satisfiable (limit 1, one connection in progress)
pub proof fn lemma_reach_t_done_wakes()
{
    let w = W { c: 2, limit: 1, idx: 0, sent: 1, incd: 1, done: 0, avail: false, wakes: 0 };
    let m = W { c: 1, wakes: 1, done: 1, ..w };
    let n = W { wakes: 0, avail: true, ..m };
    assert(i2(w) && in_progress(w) == w.limit && !w.avail && w.wakes == 0 && w.sent == w.incd);
    assert(guard_drop_post(w.c, m.c, w.limit, 1, 0, w.idx));
    assert(t_done(w, m));
    assert(t_wake(m, n));
    assert(n.avail && in_progress(n) == 0);
}
//@end

} // verus!
fn main() {}
