// Unit `codec_lines`: actix-codec/src/lines.rs — LinesCodec decode / decode_eof / encode against spec functions
// written from the property statement (C15), plus the round-trip and prefix-stability lemmas (C15, C13).
use vstd::prelude::*;
verus! {

//@include ../common/core.rs
//@include ../common/bytes.rs
//@include ../common/codec_traits.rs

/// LinesCodec is STATELESS (a unit struct): the contracts below say that what `decode` does is a function of the buffer
/// alone.  A codec that gains state needs a representation invariant these contracts do not have, so a reshaped type is
/// answered "undecided", not judged against the stateless contract.
//@check_unit_struct file=actix-codec/src/lines.rs name=LinesCodec
pub struct LinesCodec;

/// `impl AsRef<str>` argument of `encode`: a value whose `as_ref()` is a str with known UTF-8 bytes
#[verifier::external_body]
pub struct StrLike { _p: () }
impl StrLike {
    pub uninterp spec fn bytes(&self) -> Seq<u8>;
    #[verifier::external_body]
    pub fn as_ref(&self) -> (r: &Str)
        ensures r.bytes() == self.bytes(),
    { unimplemented!() }
}

// ===================================================================== specification (from the property text)
pub open spec fn first_nl(s: Seq<u8>) -> int
    decreases s.len()
{
    if s.len() == 0 { -1 } else if s[0] == 10u8 { 0 } else {
        let r = first_nl(s.subrange(1, s.len() as int));
        if r < 0 { -1 } else { r + 1 }
    }
}

pub open spec fn has_nl(s: Seq<u8>) -> bool { exists|i: int| 0 <= i < s.len() && s[i] == 10u8 }

/// one trailing CR is stripped
pub open spec fn strip_cr(s: Seq<u8>) -> Seq<u8> {
    if s.len() > 0 && s[s.len() - 1] == 13u8 { s.subrange(0, s.len() - 1) } else { s }
}

/// what `decode` must do with buffer `s`: None if it holds no LF (nothing consumed); otherwise the bytes before the
/// first LF with one trailing CR stripped are the line (an error if they are not UTF-8) and everything up to and
/// including that LF is consumed.
pub enum LineOut { NeedMore, Line(Seq<u8>), Invalid }

pub open spec fn spec_line(s: Seq<u8>, n: int) -> LineOut
    recommends 0 <= n < s.len(), s[n] == 10u8
{
    let l = strip_cr(s.subrange(0, n));
    if is_utf8(l) { LineOut::Line(l) } else { LineOut::Invalid }
}

/// `n` is the index of the first LF of `s`
pub open spec fn is_first_nl(s: Seq<u8>, n: int) -> bool {
    0 <= n < s.len() && s[n] == 10u8 && forall|j: int| 0 <= j < n ==> s[j] != 10u8
}

pub open spec fn first_nl_idx(s: Seq<u8>) -> int { choose|n: int| is_first_nl(s, n) }

pub open spec fn frame_of(o: LineOut) -> Dec<String> {
    match o { LineOut::Line(l) => Dec::Frame(string_of(l)), LineOut::Invalid => Dec::Error, LineOut::NeedMore => Dec::NeedMore }
}

/// what is left in the buffer after the final line has been taken at end of stream: a trailing CR stays behind
pub open spec fn rest_eof(b: Seq<u8>) -> Seq<u8> {
    if b.len() > 0 && b[b.len() - 1] == 13u8 { seq![13u8] } else { Seq::empty() }
}

impl Decoder for LinesCodec {
    type Item = String;
    type Error = io::Error;

    /// LinesCodec as a state transformer, written from the property text (C15)
    open spec fn dec(c: Self, b: Seq<u8>) -> (Dec<String>, Seq<u8>, Self) {
        if !has_nl(b) { (Dec::NeedMore, b, c) }
        else { (frame_of(spec_line(b, first_nl_idx(b))), b.subrange(first_nl_idx(b) + 1, b.len() as int), c) }
    }

    open spec fn dec_eof(c: Self, b: Seq<u8>) -> (Dec<String>, Seq<u8>, Self) {
        if has_nl(b) { Self::dec(c, b) }
        else if strip_cr(b).len() == 0 { (Dec::NeedMore, b, c) }
        else if is_utf8(strip_cr(b)) { (Dec::Frame(string_of(strip_cr(b))), rest_eof(b), c) }
        else { (Dec::Error, rest_eof(b), c) }
    }

//@extract file=actix-codec/src/lines.rs item="impl Decoder for LinesCodec / fn decode" ret=r props=C15,C13 err_closures str_paths bind="len=match memchr(b'\n', src) { Some(n) => n, None => { return Ok(None); } }"
//@spec
    ensures
        // no LF buffered: nothing is produced and nothing is consumed   [C15,C13]
        !has_nl(old(src)@) ==> (r matches Ok(None)) && final(src)@ == old(src)@,
        // otherwise exactly the first line is produced and exactly it (with its LF) is consumed   [C15]
        has_nl(old(src)@) ==> exists|n: int| is_first_nl(old(src)@, n)
            && final(src)@ == old(src)@.subrange(n + 1, old(src)@.len() as int)
            && match spec_line(old(src)@, n) {
                LineOut::Line(l) => (r matches Ok(Some(st)) && st.bytes() == l),
                LineOut::Invalid => r is Err,          // invalid UTF-8 is an error, never a corrupted string
                LineOut::NeedMore => false,
            },
//@insert before="match buf.last()" alt_after="src.advance(1);"
        proof {
            let o = old(src)@;
            assert(is_first_nl(o, len as int));
            assert(has_nl(o));
            lemma_first_nl_unique(o, first_nl_idx(o), len as int);
            assert(buf@ =~= o.subrange(0, len as int));
            assert(src@ =~= o.subrange(len as int + 1, o.len() as int));
            axiom_utf8_empty();
            if buf@.len() == 0 { assert(strip_cr(o.subrange(0, len as int)) =~= Seq::<u8>::empty()); }
        }
//@insert before="try_into_utf8(buf.freeze())"
        proof {
            let o = old(src)@;
            assert(buf@ =~= strip_cr(o.subrange(0, len as int)));
        }
//@end

//@extract file=actix-codec/src/lines.rs item="impl Decoder for LinesCodec / fn decode_eof" ret=r props=C15,C13 err_closures str_paths
//@spec
    ensures
        // a buffered complete line is decoded exactly as by `decode`
        has_nl(old(src)@) ==> exists|n: int| is_first_nl(old(src)@, n)
            && final(src)@ == old(src)@.subrange(n + 1, old(src)@.len() as int)
            && match spec_line(old(src)@, n) {
                LineOut::Line(l) => (r matches Ok(Some(st)) && st.bytes() == l),
                LineOut::Invalid => r is Err,
                LineOut::NeedMore => false,
            },
        // end of stream without LF: a non-empty unterminated rest is the final line (one trailing CR stripped) [C15]
        !has_nl(old(src)@) && strip_cr(old(src)@).len() == 0 ==> r matches Ok(None),
        !has_nl(old(src)@) && strip_cr(old(src)@).len() > 0 && is_utf8(strip_cr(old(src)@))
            ==> (r matches Ok(Some(st)) && st.bytes() == strip_cr(old(src)@)),
        !has_nl(old(src)@) && strip_cr(old(src)@).len() > 0 && !is_utf8(strip_cr(old(src)@)) ==> r is Err,
        // whatever is left holds no further line: the next call at end of stream ends the stream   [C13]
        !has_nl(old(src)@) ==> strip_cr(final(src)@).len() == 0 && !has_nl(final(src)@),
//@end

}

//@extract file=actix-codec/src/lines.rs item="fn try_into_utf8" ret=r props=C15,C13 err_closures str_paths
//@spec
    ensures
        r.is_ok() <==> is_utf8(buf@),
        r matches Ok(o) ==> (o matches Some(s) && s.bytes() == buf@ && s == string_of(buf@)),
//@end

impl LinesCodec {
//@extract file=actix-codec/src/lines.rs item="impl<T: AsRef<str>> Encoder<T> for LinesCodec / fn encode" ret=r props=C15,C14 sig_replace="item: T=>item: StrLike"
//@spec
    ensures
        r is Ok,
        final(dst)@ == old(dst)@ + item.bytes() + seq![10u8],   // [C14,C15] exactly one LF is appended — a function of the item alone, whatever is already buffered
//@end
}


// ===================================================================== lemmas over the decode/encode contracts
/// the frame sequence `decode` produces when called repeatedly on a fixed buffer (no more input)
pub open spec fn decode_all(s: Seq<u8>) -> Seq<LineOut>
    decreases s.len()
{
    if !has_nl(s) { Seq::empty() } else {
        let n = choose|n: int| is_first_nl(s, n);
        if is_first_nl(s, n) { seq![spec_line(s, n)] + decode_all(s.subrange(n + 1, s.len() as int)) } else { Seq::empty() }
    }
}

/// what `encode` appends for a sequence of strings
pub open spec fn encode_all(ls: Seq<Seq<u8>>) -> Seq<u8>
    decreases ls.len()
{
    if ls.len() == 0 { Seq::empty() } else { ls[0] + seq![10u8] + encode_all(ls.subrange(1, ls.len() as int)) }
}

/// a string the round trip is promised for: valid UTF-8, no LF, not ending in CR
pub open spec fn plain(l: Seq<u8>) -> bool {
    &&& is_utf8(l)
    &&& forall|j: int| 0 <= j < l.len() ==> l[j] != 10u8
    &&& (l.len() == 0 || l[l.len() - 1] != 13u8)
}

//@lemma lemma_first_nl_unique props=C15,C13
pub proof fn lemma_first_nl_unique(s: Seq<u8>, a: int, b: int)
    requires is_first_nl(s, a), is_first_nl(s, b),
    ensures a == b,
{
    if a < b { assert(s[a] != 10u8); } else if b < a { assert(s[b] != 10u8); }
}
//@end

//@lemma lemma_roundtrip_step props=C15
/// decoding `l ++ LF ++ rest` yields exactly `l` and leaves exactly `rest`
pub proof fn lemma_roundtrip_step(l: Seq<u8>, rest: Seq<u8>)
    requires plain(l),
    ensures
        has_nl(l + seq![10u8] + rest),
        is_first_nl(l + seq![10u8] + rest, l.len() as int),
        spec_line(l + seq![10u8] + rest, l.len() as int) == LineOut::Line(l),
        (l + seq![10u8] + rest).subrange(l.len() as int + 1, (l + seq![10u8] + rest).len() as int) == rest,
{
    let s = l + seq![10u8] + rest;
    let n = l.len() as int;
    assert(s[n] == 10u8);
    assert forall|j: int| 0 <= j < n implies s[j] != 10u8 by { assert(s[j] == l[j]); }
    assert(s.subrange(0, n) =~= l);
    assert(strip_cr(l) == l);
    assert(s.subrange(n + 1, s.len() as int) =~= rest);
}
//@end

//@lemma lemma_roundtrip_all props=C15
/// C15 round trip: decoding the encoding of any sequence of plain strings returns that same sequence
pub proof fn lemma_roundtrip_all(ls: Seq<Seq<u8>>)
    requires forall|i: int| 0 <= i < ls.len() ==> plain(#[trigger] ls[i]),
    ensures decode_all(encode_all(ls)) == ls.map_values(|l: Seq<u8>| LineOut::Line(l)),
    decreases ls.len(),
{
    if ls.len() == 0 {
        assert(!has_nl(encode_all(ls)));
        assert(decode_all(encode_all(ls)) =~= ls.map_values(|l: Seq<u8>| LineOut::Line(l)));
    } else {
        let l = ls[0];
        let tail = ls.subrange(1, ls.len() as int);
        let rest = encode_all(tail);
        let s = encode_all(ls);
        assert(s == l + seq![10u8] + rest);
        lemma_roundtrip_step(l, rest);
        let n = choose|n: int| is_first_nl(s, n);
        lemma_first_nl_unique(s, n, l.len() as int);
        assert forall|i: int| 0 <= i < tail.len() implies plain(#[trigger] tail[i]) by { assert(tail[i] == ls[i + 1]); }
        lemma_roundtrip_all(tail);
        assert(decode_all(s) == seq![LineOut::Line(l)] + decode_all(rest));
        assert(decode_all(s) =~= ls.map_values(|l: Seq<u8>| LineOut::Line(l))) by {
            let m = ls.map_values(|l: Seq<u8>| LineOut::Line(l));
            let mt = tail.map_values(|l: Seq<u8>| LineOut::Line(l));
            assert(m.len() == 1 + mt.len());
            assert forall|i: int| 0 <= i < m.len() implies (seq![LineOut::Line(l)] + mt)[i] == m[i] by {
                if i > 0 { assert(mt[i - 1] == LineOut::Line(tail[i - 1])); assert(tail[i - 1] == ls[i]); }
            }
        }
    }
}
//@end

//@lemma lemma_lines_prefix_stable props=C13
/// C13 hypothesis for LinesCodec: a decision taken on a prefix is not changed by bytes that arrive later —
/// "need more" never consumes, and a decoded first line and its rest are unchanged by appending `t`
pub proof fn lemma_lines_prefix_stable(s: Seq<u8>, t: Seq<u8>, n: int)
    requires is_first_nl(s, n),
    ensures
        is_first_nl(s + t, n),
        spec_line(s + t, n) == spec_line(s, n),
        (s + t).subrange(n + 1, (s + t).len() as int) == s.subrange(n + 1, s.len() as int) + t,
{
    assert forall|j: int| 0 <= j <= n implies (s + t)[j] == s[j] by { }
    assert((s + t).subrange(0, n) =~= s.subrange(0, n));
    assert((s + t).subrange(n + 1, (s + t).len() as int) =~= s.subrange(n + 1, s.len() as int) + t);
}
//@end


//@lemma lemma_first_nl_exists props=C13,C15
pub proof fn lemma_first_nl_exists(s: Seq<u8>, i: int)
    requires 0 <= i < s.len(), s[i] == 10u8,
    ensures exists|n: int| is_first_nl(s, n),
    decreases i,
{
    if exists|j: int| 0 <= j < i && s[j] == 10u8 {
        let j = choose|j: int| 0 <= j < i && s[j] == 10u8;
        lemma_first_nl_exists(s, j);
    } else {
        assert(is_first_nl(s, i));
    }
}
//@end

//@lemma lemma_lines_codec_is_stable props=C13
/// LinesCodec satisfies both hypotheses of the chunking-independence lemma of unit codec_framed
pub proof fn lemma_lines_codec_is_stable()
    ensures need_more_is_noop::<LinesCodec>(), frame_is_prefix_stable::<LinesCodec>(),
{
    assert forall|c: LinesCodec, b: Seq<u8>, t: Seq<u8>| #![trigger LinesCodec::dec(c, b), LinesCodec::dec(c, b + t)]
        LinesCodec::dec(c, b).0 is Frame implies
        LinesCodec::dec(c, b + t) == (LinesCodec::dec(c, b).0, LinesCodec::dec(c, b).1 + t, LinesCodec::dec(c, b).2) by {
        assert(has_nl(b));
        let i0 = choose|i: int| 0 <= i < b.len() && b[i] == 10u8;
        lemma_first_nl_exists(b, i0);
        let n = first_nl_idx(b);
        assert(is_first_nl(b, n));
        lemma_lines_prefix_stable(b, t, n);
        assert(has_nl(b + t)) by { assert((b + t)[n] == 10u8); }
        lemma_first_nl_unique(b + t, first_nl_idx(b + t), n);
    }
}
//@end

} // verus!
fn main() {}
