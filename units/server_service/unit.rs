// Unit `server_service`: actix-server/src/service.rs — the adapter between a worker's service table and the user's
//@assumes unit=server_misc fns=builder::new,builder::bind,builder::listen,builder::listen_uds,builder::bind_uds,builder::next_token,builder::default
// service (C01: token pairing; C02: the connection's guard lives as long as its service future; C08: a cloned factory
// keeps its token), and worker.rs wrap_worker_services (C01: `service k serves token k`).
use vstd::prelude::*;
use vstd::future::*;
use core::task::Poll;
use core::future::Future;
use core::marker::PhantomData;

macro_rules! ready {
    ($e:expr $(,)?) => {
        match $e {
            core::task::Poll::Ready(t) => t,
            core::task::Poll::Pending => return core::task::Poll::Pending,
        }
    };
}

verus! {
//@include ../common/core.rs
//@include ../common/poll.rs

// ===================================================================== stand-ins (TRUSTED BASE)
pub enum AwaitTag { ServiceFuture, Other }
pub uninterp spec fn vawait_tag<T>(f: &T) -> AwaitTag;

#[verifier::external_body]
pub struct SocketAddr { _p: () }
impl Clone for SocketAddr { #[verifier::external_body] fn clone(&self) -> (r: SocketAddr) ensures r == *self { unimplemented!() } }
impl Copy for SocketAddr {}
#[verifier::external_body]
pub struct String { _p: () }
impl Clone for String { #[verifier::external_body] fn clone(&self) -> (r: String) ensures r == *self { unimplemented!() } }
/// socket.rs MioStream: `origin()` is the token of the listener it was accepted on (unit accept: `Conn.wf`)
#[verifier::external_body]
pub struct MioStream { _p: () }
impl MioStream { pub uninterp spec fn id(&self) -> int; }
/// socket.rs FromStream: conversion into the tokio stream type the user's service takes; `of()` names the mio stream
/// a converted stream came from
pub trait FromStream: Sized {
    spec fn of(&self) -> int;
    fn from_mio(sock: MioStream) -> (r: io::Result<Self>)
        ensures r matches Ok(s) ==> s.of() == sock.id();
}
/// worker.rs WorkerCounterGuard: dropping it releases one unit of the worker's counter (Drop impl: unit kani/server_counter)
#[verifier::external_body]
pub struct WorkerCounterGuard { _p: () }

//@once call
/// actix_service::Service (only what StreamService uses).  PROPHECY name `called_with()`: the request the (one) `call`
/// made during the verified function passes; `ready_outcome()`: what the next poll_ready answers.
pub trait Service<Req> {
    type Response;
    type Error;
    type Future: Future<Output = Result<Self::Response, Self::Error>>;
    spec fn called_with(&self) -> Option<Req>;
    spec fn ready_outcome(&self) -> Poll<Result<(), ()>>;
    fn poll_ready(&self, ctx: &mut Context<'_>) -> (r: Poll<Result<(), Self::Error>>)
        ensures r is Pending <==> self.ready_outcome() is Pending, r matches Poll::Ready(x) ==> (x is Ok <==> self.ready_outcome() matches Poll::Ready(Ok(_)));
    fn call(&self, req: Req) -> (r: Self::Future)
        ensures self.called_with() == Some(req), vawait_tag(&r) == AwaitTag::ServiceFuture;
}
/// actix_utils::future::{ready, Ready}
#[verifier::reject_recursive_types(T)]
pub struct Ready<T> { pub val: Option<T> }
pub fn ready<T>(t: T) -> (r: Ready<T>) ensures r.val == Some(t) { Ready { val: Some(t) } }

/// actix_rt::spawn (tokio spawn_local): the task runs on this thread's LocalSet (A-SCHED); only THAT it was spawned is recorded
#[verifier::external_body]
pub struct JoinHandle { _p: () }
#[verifier::external_body]
pub fn vspawn<F: Future>(f: F) -> (r: JoinHandle) { unimplemented!() }

pub assume_specification<T, E, U, F: FnOnce(E) -> U>[ Poll::<Result<T, E>>::map_err ](p: Poll<Result<T, E>>, f: F) -> (r: Poll<Result<T, U>>)
    requires p matches Poll::Ready(Err(e)) ==> f.requires((e,)),
    ensures p is Pending ==> r is Pending,
            p matches Poll::Ready(Ok(t)) ==> r == Poll::Ready(Ok::<T, U>(t)),
            p matches Poll::Ready(Err(e)) ==> (r matches Poll::Ready(Err(u)) && f.ensures((e,), u));

//@extract_type file=actix-server/src/service.rs item="struct StreamService<S, I>"

//@extract file=actix-server/src/service.rs item="impl<S, I> Service<(WorkerCounterGuard, MioStream)> for StreamService<S, I> / fn call" async_block=1 block_sig="async fn conn_task<Fut: Future>(f: Fut, guard: WorkerCounterGuard) -> ()" props=C02,C03 name=service::conn_task trace_awaits bind="f=self.service.call(stream)"
//@spec
    requires vawait_tag(&f) == AwaitTag::ServiceFuture,
//@insert before="drop(guard);"
        // the connection's guard is released only after the service future has completed: a connection counts
        // against the worker's limit for as long as it is being served   [C02]
        assert(r21_trace.len() == 1 && r21_trace[0] == AwaitTag::ServiceFuture);   // [C02]
//@end

impl<S, I> StreamService<S, I> {
//@extract file=actix-server/src/service.rs item="impl<S, I> StreamService<S, I> / fn new" ret=r props=C01 name=service::StreamService::new
//@spec
    ensures r.service == service,
//@end
}

impl<S: Service<I>, I: FromStream> StreamService<S, I> {
//@extract file=actix-server/src/service.rs item="impl<S, I> Service<(WorkerCounterGuard, MioStream)> for StreamService<S, I> / fn poll_ready" ret=r props=C07 name=service::poll_ready closures=1
//@spec
    ensures
        // readiness is the user's service's readiness, its error type erased   [C07]
        r is Pending <==> self.service.ready_outcome() is Pending,
        r matches Poll::Ready(x) ==> (x is Ok <==> self.service.ready_outcome() matches Poll::Ready(Ok(_))),
//@end

//@extract file=actix-server/src/service.rs item="impl<S, I> Service<(WorkerCounterGuard, MioStream)> for StreamService<S, I> / fn call" ret=r props=C01,C02 name=service::call tuple_param async_block_call="conn_task(f, guard)" bind="f=self.service.call(stream)"
//@replace pattern="actix_rt::spawn(" rule=R15
vspawn(
//@spec
    requires true,
    ensures
        // the user's service is called exactly with the stream converted from THIS connection's mio stream, and its
        // future is spawned together with the guard; a stream that cannot be converted is an error (guard released)   [C01]
        r.val matches Some(Ok(_)) ==> (self.service.called_with() matches Some(s) && s.of() == r4_arg.1.id()),
//@end
}


// ===================================================================== StreamNewService: token pairing (C01, C08)
/// the user's factory chain (ServerServiceFactory -> actix_service::ServiceFactory -> Service): user code, most general
pub trait BaseServiceFactory<Stream> {
    type Service: Service<Stream>;
    type InitError;
    type Future: Future<Output = Result<Self::Service, Self::InitError>>;
    fn new_service(&self, cfg: ()) -> Self::Future;
}
pub trait ServerServiceFactory<Stream: FromStream>: Clone {
    type Factory: BaseServiceFactory<Stream>;
    fn create(&self) -> Self::Factory;
}
/// what the rest of the server sees of a `Box<dyn InternalServiceFactory>` / `BoxedServerService`: their ghost content
pub struct BoxedFactory { pub name: String, pub token: usize, pub addr: SocketAddr }
#[verifier::external_body]
pub struct BoxedServerService { _p: () }
pub trait Boxable: Sized { type Boxed; spec fn boxed(self) -> Self::Boxed; }
pub struct Box { }
impl Box {
    /// Box::new(x) coerced to the boxed trait object
    #[verifier::external_body]
    pub fn new<T: Boxable>(t: T) -> (r: T::Boxed) ensures r == t.boxed() { unimplemented!() }
    #[verifier::external_body]
    pub fn pin<F: Future>(f: F) -> (r: LocalBoxFuture<'static, F::Output>) { unimplemented!() }
}
#[verifier::external_body]
#[verifier::reject_recursive_types(T)]
pub struct LocalBoxFuture<'a, T> { _p: core::marker::PhantomData<&'a T> }

#[verifier::reject_recursive_types(F)]
#[verifier::reject_recursive_types(Io)]
//@extract_type file=actix-server/src/service.rs item="struct StreamNewService<F: ServerServiceFactory<Io>, Io: FromStream>"
impl<F: ServerServiceFactory<Io>, Io: FromStream> Boxable for StreamNewService<F, Io> {
    type Boxed = BoxedFactory;
    open spec fn boxed(self) -> BoxedFactory { BoxedFactory { name: self.name, token: self.token, addr: self.addr } }
}
impl<S, I> Boxable for StreamService<S, I> {
    type Boxed = BoxedServerService;
    uninterp spec fn boxed(self) -> BoxedServerService;
}

//@extract file=actix-server/src/service.rs item="impl<F, Io> InternalServiceFactory for StreamNewService<F, Io> / fn create" async_block=1 block_sig="async fn create_block<Fut: Future<Output = Result<S, E>>, S: Service<Io>, E, Io: FromStream>(fut: Fut, token: usize) -> Result<(usize, BoxedServerService), ()>" ret=r props=C01 name=service::create_block drop_as_infer bind="fut=self.inner.create().new_service(());;token=self.token"
//@replace pattern="StreamService::new(inner)" rule=R18
StreamService::<S, Io>::new(inner)
//@spec
    requires true,
    ensures
        // a created service is reported under the token it was created for; a failed creation is an error   [C01]
        r matches Ok(p) ==> p.0 == token,
        fut@ is Err ==> r is Err,
        fut@ is Ok ==> r is Ok,
//@end

impl<F: ServerServiceFactory<Io>, Io: FromStream> StreamNewService<F, Io> {
//@extract file=actix-server/src/service.rs item="impl<F, Io> StreamNewService<F, Io> / fn create" ret=r props=C01 name=service::StreamNewService::create sig_replace="Box<dyn InternalServiceFactory>=>BoxedFactory"
//@spec
    ensures r.token == token, r.name == name, r.addr == addr,   // [C01] the factory carries the token it is registered under
//@end

//@extract file=actix-server/src/service.rs item="impl<F, Io> InternalServiceFactory for StreamNewService<F, Io> / fn clone_factory" ret=r props=C01,C08 name=service::clone_factory sig_replace="Box<dyn InternalServiceFactory>=>BoxedFactory"
//@spec
    ensures r.token == self.token, r.name == self.name, r.addr == self.addr,   // [C08] a replacement worker's factories keep their tokens
//@end

//@extract file=actix-server/src/service.rs item="impl<F, Io> InternalServiceFactory for StreamNewService<F, Io> / fn create" ret=r props=C01 name=service::create async_block_call="create_block(fut, token)" bind="fut=self.inner.create().new_service(());;token=self.token" sig_replace="fn create(&self)=>fn create_svc(&self)"
//@spec
    requires true,
//@insert before="Box::pin("
        assert(token == self.token);   // [C01] the service is created for this factory's own token
//@end
}

// ===================================================================== worker.rs wrap_worker_services (C01)
#[derive(Clone, Copy, PartialEq, Eq)]
//@extract_type file=actix-server/src/worker.rs item="enum WorkerServiceStatus"
//@extract_type file=actix-server/src/worker.rs item="struct WorkerService"
pub fn vec_take_first<T>(v: &mut Vec<T>) -> (r: T)
    requires old(v)@.len() > 0,
    ensures r == old(v)@[0], final(v)@ == old(v)@.subrange(1, old(v)@.len() as int),
{ v.remove(0) }

//@extract file=actix-server/src/worker.rs item="fn wrap_worker_services" ret=r props=C01 name=worker::wrap_worker_services
//@spec
    requires
        // the runtime guard `assert_eq!(token, services.len())`: the k-th created service reports token k.  It holds
        // because the builder gives factory k token k (unit server_misc) and create() reports the factory's own token
        forall|k: int| 0 <= k < services@.len() ==> (#[trigger] services@[k]).1 == k,
    ensures
        // service k of the worker's table is the service created for token k: `service k serves token k`   [C01]
        r@.len() == services@.len(),
        forall|k: int| 0 <= k < r@.len() ==> (#[trigger] r@[k]).service == services@[k].2 && r@[k].factory_idx == services@[k].0
            && r@[k].status == WorkerServiceStatus::Unavailable,
//@replace pattern="let mut services = Vec::new();" rule=R9o
let mut services: Vec<WorkerService> = Vec::new();
//@insert before="({ let mut r9_q = services;"
        let ghost all = services@;
//@loop head="while r9_q.len() > 0"
        invariant
            services@.len() + r9_q@.len() == all.len(),
            r9_q@ == all.subrange(services@.len() as int, all.len() as int),
            forall|k: int| 0 <= k < all.len() ==> (#[trigger] all[k]).1 == k,
            forall|k: int| 0 <= k < services@.len() ==> (#[trigger] services@[k]).service == all[k].2 && services@[k].factory_idx == all[k].0
                && services@[k].status == WorkerServiceStatus::Unavailable,
        decreases r9_q@.len(),
//@end


/// `impl<F: Fn() -> T, ..> ServerServiceFactory<I> for F`: a closure is a factory of factories — `create` IS one call of
/// the user's closure (emitted as a free function: Verus has no blanket impls over `Fn`)
//@extract file=actix-server/src/service.rs item="impl<F, T, I> ServerServiceFactory<I> for F / fn create" ret=r props=C01 name=service::fn_factory_create sig_replace="fn create(&self) -> (r: T)=>fn fn_factory_create<F: Fn() -> T, T>(this: &F) -> (r: T)"
//@replace pattern="(self)()" rule=R8
(this)()
//@spec
    requires call_requires(*this, ()),
    ensures call_ensures(*this, (), r),     // [C01] exactly the factory the user's closure returns
//@end

} // verus!
fn main() {}
