// Unit `tls_connect_host`: actix-tls/src/connect/host.rs — how a request string is split into the hostname (what is
// resolved, sent as SNI and verified against the certificate) and the port (C19).
//
// `str` cannot carry Verus specifications about its bytes, so `str`/`String` are the stand-ins `Str`/`String` (rule R15);
// `str::split_once(':')` is specified over the bytes (first ':'), `str::parse::<u16>` is an uninterpreted function of
// the bytes (std's integer parser is trusted).
use vstd::prelude::*;
verus! {

// ===================================================================== std stand-ins (TRUSTED BASE)
#[verifier::external_body]
pub struct Str { _p: () }
#[verifier::external_body]
pub struct String { _p: () }
#[verifier::external_body]
pub struct ParseIntError { _p: () }

/// index of the first ':' of `s`, or -1
pub open spec fn first_colon(s: Seq<u8>) -> int
    decreases s.len()
{
    if s.len() == 0 { -1 } else if s[0] == 58u8 { 0 } else {
        let r = first_colon(s.subrange(1, s.len() as int));
        if r < 0 { -1 } else { r + 1 }
    }
}
/// index of the last ':' of `s`, or -1
pub open spec fn last_colon(s: Seq<u8>) -> int
    decreases s.len()
{
    if s.len() == 0 { -1 } else if s[s.len() - 1] == 58u8 { s.len() - 1 } else { last_colon(s.subrange(0, s.len() - 1)) }
}
/// std's `u16::from_str` as a function of the bytes (trusted)
pub uninterp spec fn parse_u16(s: Seq<u8>) -> Option<u16>;

impl Str {
    pub uninterp spec fn bytes(&self) -> Seq<u8>;

    /// str::split_once(':'): the parts before and after the FIRST ':' (None when there is none)
    #[verifier::external_body]
    pub fn split_once(&self, c: char) -> (r: Option<(&Str, &Str)>)
        requires c == ':',
        ensures
            first_colon(self.bytes()) < 0 ==> r.is_none(),
            first_colon(self.bytes()) >= 0 ==> r.is_some()
                && r.unwrap().0.bytes() == self.bytes().subrange(0, first_colon(self.bytes()))
                && r.unwrap().1.bytes() == self.bytes().subrange(first_colon(self.bytes()) + 1, self.bytes().len() as int),
    { unimplemented!() }

    /// str::rsplit_once(':'): the parts before and after the LAST ':'
    #[verifier::external_body]
    pub fn rsplit_once(&self, c: char) -> (r: Option<(&Str, &Str)>)
        requires c == ':',
        ensures
            last_colon(self.bytes()) < 0 ==> r.is_none(),
            last_colon(self.bytes()) >= 0 ==> r.is_some()
                && r.unwrap().0.bytes() == self.bytes().subrange(0, last_colon(self.bytes()))
                && r.unwrap().1.bytes() == self.bytes().subrange(last_colon(self.bytes()) + 1, self.bytes().len() as int),
    { unimplemented!() }

    /// str::parse::<u16>
    #[verifier::external_body]
    pub fn parse(&self) -> (r: Result<u16, ParseIntError>)
        ensures r matches Ok(v) ==> parse_u16(self.bytes()) == Some(v), r is Err ==> parse_u16(self.bytes()).is_none(),
    { unimplemented!() }
}
impl String {
    pub uninterp spec fn bytes(&self) -> Seq<u8>;
    pub uninterp spec fn as_str_spec(&self) -> Str;
    #[verifier::external_body]
    pub proof fn axiom_as_str(&self) ensures self.as_str_spec().bytes() == self.bytes() { }
}
impl core::ops::Deref for String {
    type Target = Str;
    #[verifier::external_body]
    fn deref(&self) -> (r: &Str) ensures r.bytes() == self.bytes() { unimplemented!() }
}

// ===================================================================== specification (from the property text / the trait's documentation)
/// `hostname : port` — the hostname is everything before the first ':' (the whole string when there is none)
pub open spec fn spec_hostname(s: Seq<u8>) -> Seq<u8> {
    if first_colon(s) < 0 { s } else { s.subrange(0, first_colon(s)) }
}
/// the port is what follows the first ':' when that parses as a u16, otherwise there is none
pub open spec fn spec_port(s: Seq<u8>) -> Option<u16> {
    if first_colon(s) < 0 { None } else { parse_u16(s.subrange(first_colon(s) + 1, s.len() as int)) }
}

impl String {
//@extract file=actix-tls/src/connect/host.rs item="impl Host for String / fn hostname" ret=r props=C19 name=host::string_hostname sig_replace="&str=>&Str" closures=1 closure_ty="&Str"
//@spec
    ensures r.bytes() == spec_hostname(self.bytes()),     // [C19]
//@end
//@extract file=actix-tls/src/connect/host.rs item="impl Host for String / fn port" ret=r props=C19 name=host::string_port closures=1 closure_ty="Option<u16>@@o == parse_u16(port.bytes())"
//@spec
    ensures r == spec_port(self.bytes()),     // [C19]
//@end
}

/// `impl Host for &'static str`: the receiver `&&'static str` is read as `&Str` (auto-deref)
impl Str {
//@extract file=actix-tls/src/connect/host.rs item="impl Host for &'static str / fn hostname" ret=r props=C19 name=host::str_hostname sig_replace="&str=>&Str" closures=1 closure_ty="&Str"
//@spec
    ensures r.bytes() == spec_hostname(self.bytes()),     // [C19]
//@end
//@extract file=actix-tls/src/connect/host.rs item="impl Host for &'static str / fn port" ret=r props=C19 name=host::str_port closures=1 closure_ty="Option<u16>@@o == parse_u16(port.bytes())"
//@spec
    ensures r == spec_port(self.bytes()),     // [C19]
//@end
}

/// the trait's default: a host type that does not override `port` has none
pub struct AnyHost;
impl AnyHost {
//@extract file=actix-tls/src/connect/host.rs item="trait Host / fn port" ret=r props=C19 name=host::default_port
//@spec
    ensures r.is_none(),
//@end
}

// ===================================================================== `impl Host for http::Uri` (uri.rs, feature `uri`)
/// http::Uri (both supported major versions have the same accessors): `host()`, `port_u16()`, `scheme_str()`
#[verifier::external_body]
pub struct Uri { _p: () }
impl Uri {
    pub uninterp spec fn spec_host(&self) -> Option<Seq<u8>>;
    pub uninterp spec fn spec_port(&self) -> Option<u16>;
    pub uninterp spec fn spec_scheme(&self) -> Option<Seq<u8>>;
    #[verifier::external_body]
    pub fn host(&self) -> (r: Option<&Str>)
        ensures r is Some == self.spec_host() is Some, r matches Some(h) ==> Some(h.bytes()) == self.spec_host(),
    { unimplemented!() }
    #[verifier::external_body]
    pub fn port_u16(&self) -> (r: Option<u16>) ensures r == self.spec_port() { unimplemented!() }
    #[verifier::external_body]
    pub fn scheme_str(&self) -> (r: Option<&Str>)
        ensures r is Some == self.spec_scheme() is Some, r matches Some(h) ==> Some(h.bytes()) == self.spec_scheme(),
    { unimplemented!() }
}
/// uri.rs `scheme_to_port` (a table of well-known default ports; its CONTENT is not a listed property — the function is
/// hashed in inventory.json): some function of the scheme
pub uninterp spec fn default_port_of(scheme: Option<Seq<u8>>) -> Option<u16>;
#[verifier::external_body]
pub fn scheme_to_port(scheme: Option<&Str>) -> (r: Option<u16>)
    ensures r == default_port_of(match scheme { Some(s) => Some(s.bytes()), None => None }),
{ unimplemented!() }
/// a string literal used as a value (rule R15b): an opaque `&Str`, its content is not modelled
#[verifier::external_body]
pub fn vstr_lit(s: &'static str) -> (r: &'static Str) { unimplemented!() }

impl Uri {
//@extract file=actix-tls/src/connect/uri.rs item="impl Host for http_1::Uri / fn hostname" ret=r props=C19 name=uri::hostname_1 sig_replace="&str=>&Str" str_lits
//@spec
    ensures self.spec_host() matches Some(h) ==> r.bytes() == h,   // [C19] the URI's host is what is resolved and verified
//@end
//@extract file=actix-tls/src/connect/uri.rs item="impl Host for http_1::Uri / fn port" ret=r props=C19 name=uri::port_1
//@spec
    ensures
        // an explicit port in the URI is the port dialled; only without one does the scheme's default apply   [C19]
        self.spec_port() is Some ==> r == self.spec_port(),
        self.spec_port() is None ==> r == default_port_of(self.spec_scheme()),
//@end
}
pub struct Uri02(pub Uri);
impl Uri02 {
    pub fn host(&self) -> (r: Option<&Str>) ensures r is Some == self.0.spec_host() is Some, r matches Some(h) ==> Some(h.bytes()) == self.0.spec_host() { self.0.host() }
    pub fn port_u16(&self) -> (r: Option<u16>) ensures r == self.0.spec_port() { self.0.port_u16() }
    pub fn scheme_str(&self) -> (r: Option<&Str>) ensures r is Some == self.0.spec_scheme() is Some, r matches Some(h) ==> Some(h.bytes()) == self.0.spec_scheme() { self.0.scheme_str() }
//@extract file=actix-tls/src/connect/uri.rs item="impl Host for http_0_2::Uri / fn hostname" ret=r props=C19 name=uri::hostname_02 sig_replace="&str=>&Str" str_lits
//@spec
    ensures self.0.spec_host() matches Some(h) ==> r.bytes() == h,   // [C19]
//@end
//@extract file=actix-tls/src/connect/uri.rs item="impl Host for http_0_2::Uri / fn port" ret=r props=C19 name=uri::port_02
//@spec
    ensures
        self.0.spec_port() is Some ==> r == self.0.spec_port(),   // [C19]
        self.0.spec_port() is None ==> r == default_port_of(self.0.spec_scheme()),
//@end
}

} // verus!
fn main() {}
