// Unit `tls_accept_openssl`: actix-tls/src/accept/openssl.rs — the acceptor service and its accept future (C18).
use vstd::prelude::*;
use core::task::Poll;
verus! {

//@include ../common/core.rs
//@include ../common/poll.rs
//@include ../common/tls_env.rs

// ===================================================================== openssl / tokio-openssl stand-ins (TRUSTED BASE)
#[verifier::external_body]
pub struct Error { _p: () }       // openssl::ssl::Error
#[verifier::external_body]
pub struct SslContextRef { _p: () }
#[verifier::external_body]
pub struct SslAcceptor { _p: () }
#[verifier::external_body]
pub struct Ssl { _p: () }
#[verifier::external_body]
#[derive(Debug)]
pub struct ErrorStack { _p: () }

impl SslAcceptor {
    #[verifier::external_body]
    pub fn context(&self) -> (r: &SslContextRef) { unimplemented!() }
}
impl Ssl {
    /// the real call can fail for an invalid acceptor; the code `.expect()`s it — an intended panic outside the property
    #[verifier::external_body]
    pub fn new(ctx: &SslContextRef) -> (r: Result<Ssl, ErrorStack>)
        ensures r is Ok,
    { unimplemented!() }
}

pub mod tokio_openssl {
    use vstd::prelude::*;
    use core::task::Poll;
    use super::{Context, Error, ErrorStack, Ssl};
    /// the TLS handshake itself is NOT verified: `poll_accept` may answer anything
    #[verifier::external_body]
    #[verifier::reject_recursive_types(IO)]
    pub struct SslStream<IO> { _p: core::marker::PhantomData<IO> }
    impl<IO> SslStream<IO> {
        pub uninterp spec fn io(&self) -> IO;
        /// the most recent poll_accept returned Pending (the socket holds the task's waker)
        pub uninterp spec fn hs_parked(&self) -> bool;
        #[verifier::external_body]
        pub fn new(ssl: Ssl, io: IO) -> (r: Result<SslStream<IO>, ErrorStack>)
            ensures r matches Ok(s) && s.io() == io,
        { unimplemented!() }
        #[verifier::external_body]
        pub fn poll_accept(&mut self, cx: &mut Context<'_>) -> (r: Poll<Result<(), Error>>)
            ensures final(self).io() == old(self).io(), final(self).hs_parked() == (r is Pending),
        { unimplemented!() }
    }
}

//@extract_type file=actix-tls/src/accept/mod.rs item="enum TlsError<TlsErr, SvcErr>"
impl<TlsErr> TlsError<TlsErr, Infallible> {
//@extract file=actix-tls/src/accept/mod.rs item="impl<TlsErr> TlsError<TlsErr, Infallible> / fn into_service_error" ret=r props=C18 name=accept::into_service_error
//@spec
    ensures
        // the cast changes the type only: a time-out stays a time-out, a handshake error keeps its cause   [C18]
        self is Timeout ==> r is Timeout,
        self matches TlsError::Tls(e) ==> r matches TlsError::Tls(e2) && e2 == e,
//@end
}
//@extract file=actix-tls/src/accept/mod.rs item="fn max_concurrent_tls_connect" props=C17,C18 name=accept::max_concurrent_tls_connect
//@spec
    ensures
        // the limit asked for is the limit stored (read by every worker thread when it creates its gate)   [C17,C18]
        MAX_CONN.stored_in_call() == Some(num),
//@end
//@fn max_conn_counter_init props=C17,C18
/// the initialiser of `thread_local! { static MAX_CONN_COUNTER: Counter = <expr> }` (accept/mod.rs; <expr> is the real
/// text, extracted): a thread's handshake gate starts empty with the CONFIGURED capacity   [C17,C18]
pub fn max_conn_counter_init() -> (r: Counter)
    ensures r.capacity() == max_conn_configured(), r.count() == 0,
{
//@tls_init_expr file=actix-tls/src/accept/mod.rs name=MAX_CONN_COUNTER
}
//@end
#[verifier::reject_recursive_types(IO)]
pub struct TlsStream<IO>(pub tokio_openssl::SslStream<IO>);
pub type InnerTls<IO> = tokio_openssl::SslStream<IO>;
impl<IO> tokio_openssl::SslStream<IO> {
    #[verifier::external_body]
    pub fn get_ref(&self) -> (r: &IO) ensures *r == self.sock() { unimplemented!() }
}

// impl_more::impl_from!(<IO> in tokio_openssl::SslStream<IO> => TlsStream<IO>)
impl<IO> vstd::std_specs::convert::FromSpecImpl<tokio_openssl::SslStream<IO>> for TlsStream<IO> {
    open spec fn obeys_from_spec() -> bool { true }
    open spec fn from_spec(s: tokio_openssl::SslStream<IO>) -> TlsStream<IO> { TlsStream(s) }
}
impl<IO> From<tokio_openssl::SslStream<IO>> for TlsStream<IO> {
    fn from(s: tokio_openssl::SslStream<IO>) -> (r: TlsStream<IO>) { TlsStream(s) }
}

//@check_struct file=actix-tls/src/accept/openssl.rs name=AcceptorService fields=acceptor,conns,handshake_timeout
//@extract_type file=actix-tls/src/accept/openssl.rs item="struct AcceptorService"
//@check_struct file=actix-tls/src/accept/openssl.rs name=AcceptFut fields=stream,timeout,_guard
#[verifier::reject_recursive_types(IO)]
pub struct AcceptFut<IO> { pub stream: Option<tokio_openssl::SslStream<IO>>, pub timeout: Sleep, pub _guard: CounterGuard }

// ===================================================================== the acceptor factory: configuration reaches the service (C18)
impl Clone for SslAcceptor { #[verifier::external_body] fn clone(&self) -> (r: SslAcceptor) { unimplemented!() } }
//@include ../common/tls_factory.rs

//@check_struct file=actix-tls/src/accept/openssl.rs name=Acceptor fields=acceptor,handshake_timeout
//@extract_type file=actix-tls/src/accept/openssl.rs item="struct Acceptor"
impl Acceptor {
//@extract file=actix-tls/src/accept/openssl.rs item="impl Acceptor / fn new" ret=r props=C18 name=openssl::Acceptor::new
//@spec
    ensures r.handshake_timeout.ns() == default_hs_timeout_ns(),   // [C18] the crate default (its VALUE, 3 s today, is not part of the property)
//@end
//@extract file=actix-tls/src/accept/openssl.rs item="impl Acceptor / fn set_handshake_timeout" ret=r props=C18 name=openssl::Acceptor::set_handshake_timeout
//@spec
    // the returned reference IS the acceptor, now carrying the new timeout   [C18]
    ensures r.handshake_timeout == handshake_timeout, r.acceptor == old(self).acceptor, *final(r) == *final(self),   // [C18]
//@end
//@extract file=actix-tls/src/accept/openssl.rs item="impl Clone for Acceptor / fn clone" ret=r props=C18 name=openssl::Acceptor::clone sig_replace="fn clone(=>fn clone_("
//@spec
    ensures r.handshake_timeout == self.handshake_timeout,   // [C18] a cloned factory keeps the configured timeout
//@end
//@extract file=actix-tls/src/accept/openssl.rs item="impl<IO: ActixStream> ServiceFactory<IO> for Acceptor / fn new_service" ret=r props=C18 name=openssl::Acceptor::new_service tls_with=MAX_CONN_COUNTER closures=0 sig_replace="fn new_service(&self, _: ())=>fn new_service(&self, _unused: ())"
//@spec
    ensures
        // the service bounds handshakes by the factory's configured timeout and counts them on this thread's counter   [C18]
        r.val matches Some(Ok(svc)) && svc.handshake_timeout == self.handshake_timeout && svc.conns.id() == thread_counter_id(),
//@end
}

impl AcceptorService {

//@extract file=actix-tls/src/accept/openssl.rs item="impl<IO: ActixStream> Service<IO> for AcceptorService / fn poll_ready" ret=r props=C18 name=openssl::poll_ready
//@spec
    ensures
        r matches Poll::Ready(Ok(_)) <==> self.conns.count() < self.conns.capacity(),   // [C18]
        !(self.conns.count() < self.conns.capacity()) ==> r is Pending,
//@end

//@extract file=actix-tls/src/accept/openssl.rs item="impl<IO: ActixStream> Service<IO> for AcceptorService / fn call" ret=r props=C18 name=openssl::call sig_replace="fn call(&self, io: IO)=>fn call<IO>(&self, io: IO)"
//@spec
    ensures
        r.stream matches Some(s) && s.io() == io,
        r.timeout.deadline() == now_spec() + self.handshake_timeout.ns(),    // [C18]
        r._guard.of() == self.conns.id(),                                    // [C18]
//@end

}

impl<IO> AcceptFut<IO> {

//@extract file=actix-tls/src/accept/openssl.rs item="impl<IO: ActixStream> Future for AcceptFut<IO> / fn poll" ret=r props=C18 name=openssl::fut_poll unproject closure_ty="Result<TlsStream<IO>, TlsError<Error, Infallible>>"
//@spec
    requires
        old(self).stream is Some,      // the future has not completed yet (Future contract: not polled after completion)
    ensures
        final(self).timeout.deadline() == old(self).timeout.deadline(),
        now_spec() >= old(self).timeout.deadline() ==> r is Ready,   // [C18] never later than the timeout
        r matches Poll::Ready(Err(TlsError::Timeout)) ==> now_spec() >= old(self).timeout.deadline(),   // [C18] never early
        r matches Poll::Ready(Err(e)) ==> e is Timeout || e is Tls,
        // Pending only with BOTH wake-ups arranged: the handshake's socket and the handshake timer   [C18]
        r is Pending ==> final(self).timeout.parked() && (final(self).stream matches Some(st) && st.hs_parked()),   // [C18]
        // a working stream is exactly the stream the handshake ran on, and the future is then spent
        r matches Poll::Ready(Ok(t)) ==> Some(t.0) == old(self).stream || final(self).stream is None,
//@end

}

// ===================================================================== the wrapper forwards every I/O operation unchanged (C18: data intact)
//@include ../common/tls_stream.rs
impl<IO: ActixStream> TlsStream<IO> {
//@extract file=actix-tls/src/accept/openssl.rs item="impl<IO: ActixStream> AsyncRead for TlsStream<IO> / fn poll_read" ret=r props=C18 name=stream::poll_read alias_get_mut
//@spec
    ensures
        // exactly the TLS session's own read: the bytes appended to `buf` are the next plaintext bytes, none lost, none invented   [C18]
        r matches Poll::Ready(Ok(_)) ==> exists|n: int| 0 <= n <= old(self).0.plain_in().len()
            && final(buf).filled() == old(buf).filled() + #[trigger] old(self).0.plain_in().subrange(0, n)
            && final(self).0.plain_in() == old(self).0.plain_in().subrange(n, old(self).0.plain_in().len() as int),
        !(r matches Poll::Ready(Ok(_))) ==> final(buf).filled() == old(buf).filled() && final(self).0.plain_in() == old(self).0.plain_in(),
        final(self).0.plain_out() == old(self).0.plain_out(),
//@end
//@extract file=actix-tls/src/accept/openssl.rs item="impl<IO: ActixStream> AsyncWrite for TlsStream<IO> / fn poll_write" ret=r props=C18 name=stream::poll_write alias_get_mut
//@spec
    ensures
        // exactly the accepted prefix of `buf` is handed to the TLS session, in order   [C18]
        r matches Poll::Ready(Ok(n)) ==> n <= buf@.len() && final(self).0.plain_out() == old(self).0.plain_out() + buf@.subrange(0, n as int),
        !(r matches Poll::Ready(Ok(_))) ==> final(self).0.plain_out() == old(self).0.plain_out(),
        final(self).0.plain_in() == old(self).0.plain_in(),
//@end
//@extract file=actix-tls/src/accept/openssl.rs item="impl<IO: ActixStream> AsyncWrite for TlsStream<IO> / fn poll_flush" ret=r props=C18 name=stream::poll_flush alias_get_mut
//@spec
    ensures final(self).0.plain_out() == old(self).0.plain_out(), final(self).0.plain_in() == old(self).0.plain_in(),
            r matches Poll::Ready(Ok(_)) ==> final(self).0.flushed(),   // [C18]
//@end
//@extract file=actix-tls/src/accept/openssl.rs item="impl<IO: ActixStream> AsyncWrite for TlsStream<IO> / fn poll_shutdown" ret=r props=C18 name=stream::poll_shutdown alias_get_mut
//@spec
    ensures final(self).0.plain_out() == old(self).0.plain_out(), final(self).0.plain_in() == old(self).0.plain_in(),
            r matches Poll::Ready(Ok(_)) ==> final(self).0.shut(),   // [C18]
//@end
//@extract file=actix-tls/src/accept/openssl.rs item="impl<IO: ActixStream> AsyncWrite for TlsStream<IO> / fn poll_write_vectored" ret=r props=C18 name=stream::poll_write_vectored alias_get_mut
//@spec
    ensures
        r matches Poll::Ready(Ok(n)) ==> n <= io_slices_bytes(bufs).len() && final(self).0.plain_out() == old(self).0.plain_out() + io_slices_bytes(bufs).subrange(0, n as int),   // [C18]
        !(r matches Poll::Ready(Ok(_))) ==> final(self).0.plain_out() == old(self).0.plain_out(),
        final(self).0.plain_in() == old(self).0.plain_in(),
//@end
//@extract file=actix-tls/src/accept/openssl.rs item="impl<IO: ActixStream> AsyncWrite for TlsStream<IO> / fn is_write_vectored" ret=r props=C18 name=stream::is_write_vectored
//@spec
    ensures r == self.0.vectored(),
//@end
//@extract file=actix-tls/src/accept/openssl.rs item="impl<IO: ActixStream> ActixStream for TlsStream<IO> / fn poll_read_ready" ret=r props=C18 name=stream::poll_read_ready
//@spec
    ensures r == self.0.sock().next_read_ready(),   // [C18] readiness is the underlying socket's
//@end
//@extract file=actix-tls/src/accept/openssl.rs item="impl<IO: ActixStream> ActixStream for TlsStream<IO> / fn poll_write_ready" ret=r props=C18 name=stream::poll_write_ready
//@spec
    ensures r == self.0.sock().next_write_ready(),   // [C18]
//@end
}


} // verus!
fn main() {}
