"""Route V: assemble a Verus file from a committed unit template + function text extracted from /repo,
run Verus, classify every diagnostic into discharged / failed / undecided obligations."""
import difflib, hashlib, json, os, re, subprocess, time

from rsx import (ExtractError, Source, apply_r9, insert_after_pattern, insert_loop_specs, norm, replace_pattern,
                 rewrite_body, rewrite_sig, tokenize, sig)

ROOT = os.path.normpath(os.path.join(os.path.dirname(os.path.abspath(__file__)), ".."))

VERIFY_MSGS = (
    "postcondition not satisfied",
    "precondition not satisfied",
    "invariant not satisfied before loop",
    "invariant not satisfied at end of loop body",
    "loop invariant not preserved",
    "assertion failed",
    "assertion not satisfied",
    "possible arithmetic underflow/overflow",
    "possible division by zero",
    "possible bit shift underflow/overflow",
    "decreases not satisfied at end of loop",
    "decreases not satisfied at continue",
    "decreases not satisfied",
    "could not prove termination",
    "unable to prove assertion safety condition",
    "recommendation not met",
    "cannot show invariant holds before loop",
    "cannot show invariant holds at end of loop body",
    "requires not satisfied",
    "loop invariant not satisfied",
    "loop ensures not satisfied",
    "invariant not satisfied",
    "constructed value may fail to meet its declared type invariant",
)
UNDECIDED_MSGS = ("resource limit", "rlimit", "timed out", "timeout")


def _attrs(line):
    """parse `key=value key="v w" flag` after a directive"""
    out = {}
    for m in re.finditer(r'(\w+)(?:=("([^"]*)"|\S+))?', line):
        k = m.group(1)
        v = m.group(3) if m.group(3) is not None else m.group(2)
        out[k] = True if v is None else v
    return out


class Fn:
    def __init__(self):
        self.name = None; self.file = None; self.item = None; self.props = []
        self.first = self.last = 0
        self.orig = ""; self.emitted = ""; self.rules = []
        self.spec_lines = (0, 0)
        self.has_requires = False
        self.noreach = False
        self.kind = "extracted"  # or "lemma"
        self.sha = ""


class Generated:
    def __init__(self):
        self.lines = []
        self.fns = []
        self.trusted = []      # (line, text) of external_body / assume_specification / assume / admit in committed text
        self.unit = ""
        self.includes = []
        self.types = []
        self.reach = []
        self.n_inserts = 0
        self.probe_line = None
        self.probe_desc = None

    @property
    def text(self):
        return "\n".join(self.lines) + "\n"

    def fn_at(self, line):
        for f in self.fns:
            if f.first <= line <= f.last:
                return f
        return None


def _split_clauses(spec_text):
    """split a Verus spec block into (kind, clause text, rel_line) using top-level commas"""
    clauses = []
    kind = None
    depth = 0
    cur = []
    cur_line = None
    toks = tokenize(spec_text)
    line = 0
    for t in toks:
        if t.kind in ("ws", "comment"):
            if cur: cur.append(t.text)
            line += t.text.count("\n")
            continue
        if depth == 0 and t.kind == "ident" and t.text in ("requires", "ensures", "invariant", "invariant_except_break",
                                                             "decreases", "recommends", "returns", "no_unwind", "opens_invariants"):
            if cur and "".join(cur).strip():
                clauses.append((kind, "".join(cur).strip(), cur_line))
            cur = []; kind = t.text; cur_line = None
            continue
        if t.kind == "punct":
            if t.text in "([{": depth += 1
            elif t.text in ")]}": depth -= 1
            elif t.text == "," and depth == 0:
                if "".join(cur).strip():
                    clauses.append((kind, "".join(cur).strip(), cur_line))
                cur = []; cur_line = None
                continue
        if cur_line is None: cur_line = line
        cur.append(t.text)
    if cur and "".join(cur).strip():
        clauses.append((kind, "".join(cur).strip(), cur_line))
    return clauses


def assemble(unit_dir, repo, vacuity=False, variables=None, probe_insert=None):
    """returns Generated.  vacuity=True replaces every `ensures` of functions with a `requires`
    by `ensures false` (the must-fail reachability variant)."""
    g = Generated()
    g.unit = os.path.basename(unit_dir.rstrip("/"))
    srcs = {}

    def source(rel):
        if rel not in srcs:
            p = os.path.join(repo, rel)
            if not os.path.exists(p):
                raise ExtractError(f"anchor lost: file {rel}")
            srcs[rel] = Source(p)
        return srcs[rel]

    def emit(text):
        for l in text.split("\n"):
            g.lines.append(l)

    def process(path, depth=0):
        text = open(path).read()
        for k, v in (variables or {}).items():
            text = text.replace("${" + k + "}", v)
        lines = text.split("\n")
        i = 0
        while i < len(lines):
            l = lines[i]
            s = l.strip()
            if s.startswith("//@include "):
                inc = os.path.normpath(os.path.join(os.path.dirname(path), s[len("//@include "):].strip()))
                g.includes.append(inc)
                process(inc, depth + 1)
                i += 1; continue
            if s.startswith("//@once "):
                # single-slot prophecy stand-ins of this unit: at most one call per path in a function under contract
                if not hasattr(g, "once"): g.once = []
                g.once += [x.strip() for x in s[len("//@once "):].split(",") if x.strip()]
                i += 1; continue
            if s.startswith("//@check_struct "):
                a = _attrs(s[len("//@check_struct "):])
                real = source(a["file"]).struct_fields(a["name"])
                want = a["fields"].split(",")
                if real != want:
                    raise ExtractError(f"struct {a['name']} in {a['file']} changed: fields {real} (prelude declares {want})")
                i += 1; continue
            if s.startswith("//@bitflags "):
                # the flag set is generated from the real `bitflags!` invocation: one boolean per flag (checked: every
                # constant is a distinct single bit), with the set operations the extracted code uses
                a = _attrs(s[len("//@bitflags "):])
                src_ = source(a["file"]).src
                m = re.search(r"bitflags!\s*\{.*?struct\s+%s\s*:\s*(\w+)\s*\{(.*?)\}\s*\}" % re.escape(a["name"]), src_, re.S)
                if not m:
                    raise ExtractError(f"anchor lost: bitflags struct {a['name']} in {a['file']}")
                consts = re.findall(r"const\s+(\w+)\s*=\s*([^;]+);", m.group(2))
                vals = []
                for (cn, cv) in consts:
                    try:
                        v = int(cv.strip().replace("_", ""), 0)
                    except ValueError:
                        raise ExtractError(f"bitflags {a['name']}::{cn}: value `{cv.strip()}` is not a literal")
                    if v == 0 or v & (v - 1) or v in vals:
                        raise ExtractError(f"bitflags {a['name']}::{cn} = {cv.strip()} is not a distinct single bit: the boolean model does not apply")
                    vals.append(v)
                names = [cn for cn, _ in consts]
                low = [n.lower() for n in names]
                g.types.append({"file": a["file"], "item": "bitflags " + a["name"], "sha": hashlib.sha256(m.group(0).encode()).hexdigest()[:16],
                                "rules": [("R20", "bitflags! { " + ", ".join(f"{n} = {v:#b}" for n, v in zip(names, vals)) + " } modelled as one boolean per (distinct, single-bit) flag")]})
                out_ = ["#[derive(Clone, Copy)]", "pub struct %s { %s }" % (a["name"], ", ".join(f"pub {l}: bool" for l in low)), "impl %s {" % a["name"]]
                for n, l in zip(names, low):
                    out_.append("    pub const %s: %s = %s { %s };" % (n, a["name"], a["name"], ", ".join(f"{x}: {'true' if x == l else 'false'}" for x in low)))
                out_.append("    pub open spec fn no_flags(&self) -> bool { %s }" % " && ".join(f"!self.{l}" for l in low))
                out_.append("    pub fn empty() -> (r: %s) ensures %s { %s { %s } }" % (a["name"], " && ".join(f"!r.{l}" for l in low), a["name"], ", ".join(f"{l}: false" for l in low)))
                out_.append("    pub fn contains(&self, o: %s) -> (r: bool) ensures r == (%s) { %s }" % (a["name"], " && ".join(f"(!o.{l} || self.{l})" for l in low), " && ".join(f"(!o.{l} || self.{l})" for l in low)))
                out_.append("    pub fn insert(&mut self, o: %s) ensures %s { %s }" % (a["name"], ", ".join(f"final(self).{l} == (old(self).{l} || o.{l})" for l in low), " ".join(f"self.{l} = self.{l} || o.{l};" for l in low)))
                out_.append("    pub fn remove(&mut self, o: %s) ensures %s { %s }" % (a["name"], ", ".join(f"final(self).{l} == (old(self).{l} && !o.{l})" for l in low), " ".join(f"self.{l} = self.{l} && !o.{l};" for l in low)))
                out_.append("}")
                # `A | B`, `A & B`, `!A` on flag sets (field-wise)
                N = a["name"]
                for tr, fn, op in (("BitOr", "bitor", "||"), ("BitAnd", "bitand", "&&")):
                    out_.append("impl vstd::std_specs::ops::%sSpecImpl<%s> for %s {" % (tr, N, N))
                    out_.append("    open spec fn obeys_%s_spec() -> bool { true }" % fn)
                    out_.append("    open spec fn %s_req(self, o: %s) -> bool { true }" % (fn, N))
                    out_.append("    open spec fn %s_spec(self, o: %s) -> %s { %s { %s } }" % (fn, N, N, N, ", ".join(f"{l}: self.{l} {op} o.{l}" for l in low)))
                    out_.append("}")
                    out_.append("impl core::ops::%s for %s {" % (tr, N))
                    out_.append("    type Output = %s;" % N)
                    out_.append("    fn %s(self, o: %s) -> (r: %s) { %s { %s } }" % (fn, N, N, N, ", ".join(f"{l}: self.{l} {op} o.{l}" for l in low)))
                    out_.append("}")
                emit("\n".join(out_))
                i += 1; continue
            if s.startswith("//@check_enum "):
                a = _attrs(s[len("//@check_enum "):])
                it = source(a["file"]).find("enum " + a["name"])
                toks_ = [t for t in tokenize(it.body_text) if t.kind not in ("ws", "comment")]
                names, depth = [], 0
                for j, t in enumerate(toks_):
                    if t.text in "([{": depth += 1
                    elif t.text in ")]}": depth -= 1
                    elif depth == 1 and t.kind == "ident" and (toks_[j - 1].text in ("{", ",", "]")):
                        names.append(t.text)
                if names != a["variants"].split(","):
                    raise ExtractError(f"enum {a['name']} in {a['file']} changed: variants {names}")
                i += 1; continue
            if s.startswith("//@check_unit_struct "):
                a = _attrs(s[len("//@check_unit_struct "):])
                if not re.search(r"(?m)^\s*(?:pub(?:\([a-z]+\))?\s+)?struct\s+%s\s*;" % re.escape(a["name"]), source(a["file"]).src):
                    raise ExtractError(f"struct {a['name']} in {a['file']} changed: it is no longer a unit struct (the contracts were written for a stateless type)")
                i += 1; continue
            if s.startswith("//@check_no_derive "):
                a = _attrs(s[len("//@check_no_derive "):])
                ds = source(a["file"]).derives(a["name"])
                for bad in (a.get("forbid") or "").split(","):
                    if bad and bad in ds:
                        raise ExtractError(f"type {a['name']} now derives {bad}: ownership argument no longer applies")
                for need in (a.get("require") or "").split(","):
                    if need and need not in ds:
                        raise ExtractError(f"type {a['name']} no longer derives {need}: the unit's stand-in for the derived impl does not apply")
                i += 1; continue
            if s.startswith("//@extract_type "):
                a = _attrs(s[len("//@extract_type "):])
                try:
                    it = source(a["file"]).find(a["item"])
                except ExtractError:
                    # a unit struct `struct X;` has no brace body for the item finder
                    mu = re.match(r"struct\s+(\w+)$", a["item"].strip())
                    mm = mu and re.search(r"(?m)^\s*(?:pub(?:\([a-z]+\))?\s+)?struct\s+%s\s*;" % mu.group(1), source(a["file"]).src)
                    if not mm:
                        raise
                    if a.get("derive"):
                        g.lines.append("#[derive(%s)]" % a["derive"])
                    g.types.append({"file": a["file"], "item": a["item"], "sha": hashlib.sha256(mm.group(0).encode()).hexdigest()[:16], "rules": [("R3", "unit struct")]})
                    emit(f"pub struct {mu.group(1)};")
                    i += 1; continue
                rl = []
                txt = rewrite_sig(it.text, rl)          # R3 on the whole item (visibility of type and fields)
                txt = re.sub(r"(?m)^\s*#\[[^\]]*\]\s*$", "", txt)  # attributes on fields (none expected)
                txt = _publicise(txt, rl)
                if a.get("derive"):
                    g.lines.append("#[derive(%s)]" % a["derive"])
                g.types.append({"file": a["file"], "item": a["item"], "sha": hashlib.sha256(it.text.encode()).hexdigest()[:16], "rules": rl})
                emit(txt)
                i += 1; continue
            if s.startswith("//@extract_const "):
                a = _attrs(s[len("//@extract_const "):])
                src_ = source(a["file"])
                m = re.search(r"(?m)^\s*(pub(\([a-z]+\))?\s+)?const\s+%s\s*:\s*([^=]+?)\s*=\s*([^;]+);" % re.escape(a["name"]), src_.src)
                if not m:
                    raise ExtractError(f"anchor lost: const {a['name']} in {a['file']}")
                ty, val = m.group(3).strip(), m.group(4).strip()
                g.types.append({"file": a["file"], "item": "const " + a["name"], "sha": hashlib.sha256(m.group(0).encode()).hexdigest()[:16],
                                "rules": [("R12", "const -> " + ("exec const with ensures" if a.get("ensures") else "pub const"))]})
                if a.get("dur_spec"):
                    # the VALUE of a Duration constant is read off the source expression and becomes a spec function, so
                    # that contracts can say "the crate default" without fixing its value
                    mm = re.search(r"Duration::from_(secs|millis)\(\s*(\d[\d_]*)\s*\)\s*$", val)
                    if not mm:
                        raise ExtractError(f"unsupported construct: const {a['name']} is not a literal Duration::from_secs/from_millis")
                    mult = "1_000_000_000" if mm.group(1) == "secs" else "1_000_000"
                    emit(f"pub open spec fn {a['dur_spec']}() -> nat {{ {mm.group(2)} * {mult} }}")
                    emit(f"pub exec const {a['name']}: {ty}\n    ensures {a['name']}.ns() == {a['dur_spec']}(),\n{{ {val} }}")
                elif a.get("ensures"):
                    emit(f"pub exec const {a['name']}: {ty}\n    ensures {a['ensures']},\n{{ {val} }}")
                else:
                    emit(f"pub const {a['name']}: {ty} = {val};")
                i += 1; continue
            if s.startswith("//@extract_spec "):
                # a pure Rust fn (from /repo or, with base=verif, from a committed Kani harness) emitted as `open spec fn`
                a = _attrs(s[len("//@extract_spec "):])
                base = ROOT if a.get("base") == "verif" else repo
                pth = os.path.join(base, a["file"])
                if not os.path.exists(pth):
                    raise ExtractError(f"anchor lost: file {a['file']}")
                it = Source(pth).find(a["item"])
                rl = []
                sg = rewrite_sig(it.sig_text, rl)
                sg = re.sub(r"^\s*(pub\s+)?fn\b", "pub open spec fn", sg.strip())
                g.types.append({"file": a["file"], "item": a["item"], "sha": hashlib.sha256(it.text.encode()).hexdigest()[:16],
                                "rules": rl + [("R13", "fn -> open spec fn (pure expression body, machine integers read as mathematical)")]})
                emit(sg + " " + it.body_text)
                i += 1; continue
            if s.startswith("//@lemma ") or s.startswith("//@fn "):
                # a committed proof/spec fn whose failure should be attributed: `//@lemma name props=..` until `//@end`
                a = _attrs(s.split(" ", 1)[1])
                f = Fn(); f.kind = "lemma"
                f.name = list(a.keys())[0]
                f.props = a.get("props", "").split(",") if a.get("props") else []
                f.noreach = True
                i += 1
                f.first = len(g.lines) + 1
                while not lines[i].strip().startswith("//@end"):
                    if lines[i].strip().startswith("//@tls_init_expr "):
                        # the initialiser expression of `thread_local! { static NAME: T = <expr>; }` (real text): the
                        # committed fn around it is the anonymous initialiser function the macro generates
                        ta = _attrs(lines[i].strip()[len("//@tls_init_expr "):])
                        src_ = source(ta["file"])
                        mm = re.search(r"thread_local!\s*\{(?:[^{}]|\{[^{}]*\})*?\bstatic\s+%s\s*:\s*([^=;]+?)\s*=\s*([^;]+);" % re.escape(ta["name"]), src_.src)
                        if not mm:
                            raise ExtractError(f"anchor lost: thread_local static {ta['name']} in {ta['file']}")
                        g.types.append({"file": ta["file"], "item": "thread_local static " + ta["name"],
                                        "sha": hashlib.sha256(mm.group(0).encode()).hexdigest()[:16],
                                        "rules": [("R12", "thread_local initialiser expression -> body of a committed fn returning the declared type")]})
                        g.lines.append("    " + mm.group(2).strip())
                        i += 1; continue
                    g.lines.append(lines[i]); i += 1
                f.last = len(g.lines)
                g.fns.append(f)
                i += 1; continue
            if s.startswith("//@extract "):
                a = _attrs(s[len("//@extract "):])
                blocks = {"spec": [], "loops": {}, "inserts": [], "replaces": []}
                i += 1
                cur = None
                while True:
                    if i >= len(lines):
                        raise ExtractError(f"{path}: //@extract without //@end")
                    t = lines[i].strip()
                    if t.startswith("//@end"):
                        break
                    if t.startswith("//@spec"):
                        cur = blocks["spec"]
                    elif t.startswith("//@loop "):
                        la = t[len("//@loop "):].strip()
                        if la.split()[0].isdigit():
                            n = int(la.split()[0])
                        else:
                            lat = _attrs(la)
                            n = ("head", lat["head"], bool(lat.get("optional")), lat.get("alt_head"))
                        blocks["loops"][n] = []; cur = blocks["loops"][n]
                    elif t.startswith("//@insert "):
                        ia = _attrs(t[len("//@insert "):]); ia["text"] = []; blocks["inserts"].append(ia); cur = ia["text"]
                    elif t.startswith("//@replace "):
                        ra = _attrs(t[len("//@replace "):]); ra["text"] = []; blocks["replaces"].append(ra); cur = ra["text"]
                    else:
                        if cur is None:
                            raise ExtractError(f"{path}:{i+1}: text outside a block in //@extract")
                        cur.append(lines[i])
                    i += 1
                i += 1
                _emit_fn(g, source, a, blocks, vacuity, probe_insert)
                continue
            g.lines.append(l)
            i += 1

    process(os.path.join(unit_dir, "unit.rs"))
    if getattr(g, "once", None):
        # single-slot prophecy stand-ins (`//@once`): at most one call per path in every function under contract
        import once as _once
        for f in g.fns:
            if getattr(f, "kind", "") == "lemma" or not getattr(f, "spec_lines", None):
                continue
            _c = _once.conflicts("\n".join(g.lines[f.spec_lines[1]:f.last]), g.once)
            if _c:
                raise ExtractError(f"unsupported construct: {_c[0]} in {f.name}: its contract names THE value of the one call, a second call would make the path vacuous")
    # trusted base scan over the whole generated text
    for n, l in enumerate(g.lines, 1):
        if re.search(r"external_body|assume_specification|\bassume\s*\(|\badmit\s*\(|external_type_specification|external_fn_specification|verifier::external\b|exec_allows_no_decreases_clause", l):
            if l.strip().startswith("//"):
                continue
            g.trusted.append((n, l.strip()))
    return g


def _emit_fn(g, source, a, blocks, vacuity, probe_insert=None):
    f = Fn()
    f.file, f.item = a["file"], a["item"]
    f.name = a.get("name") or (f.file.split("/")[-1].replace(".rs", "") + "::" + f.item.split("/")[-1].strip().replace("fn ", ""))
    f.props = a["props"].split(",") if a.get("props") else []
    f.noreach = bool(a.get("noreach"))
    it = source(f.file).find(f.item)
    f.orig = it.text
    rules = f.rules
    sig_src, body_src = it.sig_text, it.body_text
    if a.get("macro_vars"):
        # the function is generated by a macro_rules! definition: its metavariables are bound as the unit says
        # (`$len=N`: a const generic parameter of the impl the unit wraps the function in)
        for kv in a["macro_vars"].split(","):
            mk, _, mv = kv.partition("=")
            sig_src = sig_src.replace(mk.strip(), mv.strip()); body_src = body_src.replace(mk.strip(), mv.strip())
        rules.append(("R28", f"macro-generated function: metavariables bound ({a['macro_vars']})"))
    if a.get("bind"):
        from rsx import rebind_locals
        body_src = rebind_locals(body_src, a["bind"], f.name, rules)
    fname = f.item.split("/")[-1].strip().replace("fn ", "").strip()
    if a.get("async_block"):
        # R11c: the n-th `async [move] { BODY }` block of the function is verified as the anonymous async fn it is:
        # `async fn NAME(<captured variables, declared by the unit>) -> T { BODY }`.  BODY is the real text; a captured
        # variable the unit did not declare (or declared with the wrong type) is a type error => exit 2.
        from rsx import full_tokens as _ft, match_close as _mc3
        btoks = _ft(body_src)
        sig_i = [k for k, t in enumerate(btoks) if t.kind not in ("ws", "comment")]
        want, seen, found = int(a["async_block"]), 0, None
        for q, k in enumerate(sig_i):
            if btoks[k].kind == "ident" and btoks[k].text == "async":
                j = q + 1
                if j < len(sig_i) and btoks[sig_i[j]].text == "move": j += 1
                if j < len(sig_i) and btoks[sig_i[j]].text == "{":
                    seen += 1
                    if seen == want:
                        found = (sig_i[j], _mc3(btoks, sig_i[j])); break
        if not found:
            raise ExtractError(f"anchor lost: async block {want} of {f.item} in {f.file}")
        body_src = "".join(t.text for t in btoks[found[0]:found[1] + 1])
        sig_src = a["block_sig"]
        m = re.search(r"\bfn\s+(\w+)", sig_src)
        fname = m.group(1)
        rules.append(("R11c", f"async block {want} of `{f.item}` verified as `{norm(sig_src)}` (captured variables become parameters)"))
    if a.get("closure_block"):
        # R11f: the n-th zero-argument `move || { BODY }` closure of the function (a thread body) is verified as the
        # function it is: `fn NAME(<captured variables, declared by the unit>) { BODY }` -- same idea as R11c
        from rsx import full_tokens as _ft2, match_close as _mc7
        btoks = _ft2(body_src)
        sig_i = [k for k, t in enumerate(btoks) if t.kind not in ("ws", "comment")]
        want, seen, found = int(a["closure_block"]), 0, None
        for q, k in enumerate(sig_i):
            if btoks[k].kind == "ident" and btoks[k].text == "move" and q + 2 < len(sig_i) and btoks[sig_i[q + 1]].text == "||" \
                    and btoks[sig_i[q + 2]].text == "{":
                seen += 1
                if seen == want:
                    found = (sig_i[q + 2], _mc7(btoks, sig_i[q + 2])); break
        if not found:
            raise ExtractError(f"anchor lost: `move || {{..}}` closure {want} of {f.item} in {f.file}")
        body_src = "".join(t.text for t in btoks[found[0]:found[1] + 1])
        sig_src = a["block_sig"]
        fname = re.search(r"\bfn\s+(\w+)", sig_src).group(1)
        rules.append(("R11f", f"closure {want} of `{f.item}` verified as `{norm(sig_src)}` (captured variables become parameters)"))
    sigtext = rewrite_sig(sig_src, rules, a.get("ret"))
    if a.get("sig_from"):      # R8-style declared receiver changes: `sig_replace="&self=>&mut self"`
        pass
    # R4b: `Self::Assoc` in a trait-impl method signature is replaced by the `type Assoc = ..;` of that impl
    for _round in range(3):        # an associated type may itself mention Self::Other
      for m in sorted(set(re.findall(r"\bSelf::([A-Z]\w*)", sigtext))):
        parent = "/".join(f.item.split("/")[:-1]).strip()
        if parent:
            pit = source(f.file).find(parent)
            mm = re.search(r"\btype\s+%s\s*=\s*([^;]+);" % m, pit.body_text)
            if mm:
                sigtext = re.sub(r"\bSelf::%s\b" % m, mm.group(1).strip(), sigtext)
                rules.append(("R4b", f"Self::{m} -> {mm.group(1).strip()}"))
    for rep in (a.get("sig_replace") or "").split(";;"):
        if rep:
            old, new = rep.split("=>")
            if norm(old) not in norm(sigtext):
                raise ExtractError(f"anchor lost: signature text `{old}` in {f.name}")
            sigtext = _replace_norm(sigtext, old, new)
            rules.append(("R8", f"signature: {old.strip()} -> {new.strip()}"))
    if a.get("opaque_move_closures"):
        # R11d: a zero-argument `move || { .. }` closure (the body of a thread / runtime factory) is NOT verified: it is
        # replaced by an opaque `vopaque_closure()`; everything inside it (including async blocks) goes with it
        from rsx import match_close as _mc5
        cnt = 0
        while True:
            tk = tokenize(body_src)
            sigk = [k for k, t in enumerate(tk) if t.kind not in ("ws", "comment")]
            hit = None
            for q, k in enumerate(sigk):
                if tk[k].kind == "ident" and tk[k].text == "move" and q + 2 < len(sigk) and tk[sigk[q + 1]].text == "||" and tk[sigk[q + 2]].text == "{":
                    hit = (k, _mc5(tk, sigk[q + 2])); break
            if not hit: break
            body_src = "".join(t.text for t in tk[:hit[0]]) + "vopaque_closure()" + "".join(t.text for t in tk[hit[1] + 1:])
            cnt += 1
        if not cnt:
            raise ExtractError(f"anchor lost: no `move || {{ .. }}` closure in {f.name}")
        rules.append(("R11d", f"{cnt} `move || {{ .. }}` closure(s) replaced by vopaque_closure(): their bodies are not verified"))
    # R26: calls of NEW simple private helpers of the same file are expanded in place
    try:
        import inventory as _inv
        _all = _inv.load().get("__all__", {}).get(f.file)
        _known = None if _all is None else {l.split(" / ")[-1] for l in _all}
    except Exception:
        _known = None
    from rsx import inline_new_helpers
    body_src = inline_new_helpers(body_src, source(f.file), _known, rules)
    # R2c: an import alias of the `ready!` macro in the same file (`use futures_core::ready as NAME;`) is resolved:
    # `NAME!(` -> `ready!(` (the unit defines `ready!` exactly as futures_core / std does)
    for alias in set(re.findall(r"\bready\s+as\s+(\w+)", source(f.file).src)):
        b2 = re.sub(r"\b%s!\s*\(" % re.escape(alias), "ready!(", body_src)
        if b2 != body_src:
            rules.append(("R2c", f"`{alias}!` is an import alias of `ready!`"))
            body_src = b2
    body = rewrite_body(body_src, rules, intended_panics=bool(a.get("intended_panics")), runtime_asserts=bool(a.get("runtime_asserts")))
    body = apply_r9(body, rules)
    if a.get("inline_thread_body"):
        # R11e: `.spawn(move || EXPR)` (a thread whose body is one expression over variables it takes by move) ->
        # `.spawn({ EXPR; vthread_body_done() })`: the body is evaluated in place, so the callee's PRECONDITIONS are
        # checked against the state the thread starts from (the closure owns that state: nothing else can touch it)
        from rsx import match_close as _mc6
        tk = tokenize(body)
        sigk = [k for k, t in enumerate(tk) if t.kind not in ("ws", "comment")]
        done = False
        for q, k in enumerate(sigk):
            if tk[k].kind == "ident" and tk[k].text == "spawn" and q + 3 < len(sigk) and tk[sigk[q + 1]].text == "(" \
                    and tk[sigk[q + 2]].text == "move" and tk[sigk[q + 3]].text == "||":
                closep = _mc6(tk, sigk[q + 1])
                expr = "".join(t.text for t in tk[sigk[q + 3] + 1:closep]).strip()
                body = "".join(t.text for t in tk[:sigk[q + 1] + 1]) + "{ " + expr + "; vthread_body_done() }" + "".join(t.text for t in tk[closep:])
                rules.append(("R11e", f"`spawn(move || {norm(expr)[:100]})`: the thread body is evaluated in place"))
                done = True
                break
        if not done:
            raise ExtractError(f"anchor lost: `.spawn(move || EXPR)` in {f.name}")
    if a.get("tls_state"):
        # R25: thread-local state passed explicitly.  The function gets one more parameter `r25_tls: &mut ThreadLocals`
        # (this thread's instances of the crate's `thread_local!` cells); `KEY.with(|x| BODY)` becomes
        # `{ let x = &mut r25_tls.FIELD; BODY }`, and calls of the functions the unit lists (`tls_calls`) pass `r25_tls`
        # on.  The standard state-passing encoding of per-thread globals: each thread owns its own instance.
        from rsx import match_close as _mc8
        mapping = dict(x.split(":") for x in a["tls_state"].split(","))
        # signature
        # the parameter list: the first `(` outside the generic parameter list `<..>` that follows the name
        m0 = re.search(r"\bfn\s+\w+", sigtext)
        k0 = m0.end(); ang = 0
        while k0 < len(sigtext):
            ch = sigtext[k0]
            if ch == "<": ang += 1
            elif ch == ">" and sigtext[k0 - 1] != "-": ang -= 1
            elif ch == "(" and ang == 0: break
            k0 += 1
        po = k0
        depth = 0; pc = None
        for k in range(po, len(sigtext)):
            if sigtext[k] == "(": depth += 1
            elif sigtext[k] == ")":
                depth -= 1
                if depth == 0: pc = k; break
        inner = sigtext[po + 1:pc].strip()
        sigtext = sigtext[:pc].rstrip().rstrip(",") + (", " if inner else "") + "r25_tls: &mut ThreadLocals" + sigtext[pc:]
        n_with = 0
        for key, field in mapping.items():
            while True:
                tk = tokenize(body)
                sigk = [k for k, t in enumerate(tk) if t.kind not in ("ws", "comment")]
                hit = None
                for q, k in enumerate(sigk):
                    if tk[k].kind == "ident" and tk[k].text == key and q + 6 < len(sigk):
                        w = [tk[sigk[q + d]].text for d in range(1, 7)]
                        if w[0] == "." and w[1] == "with" and w[2] == "(" and w[3] == "|" and w[5] == "|":
                            hit = (k, sigk[q + 3], sigk[q + 6], w[4]); break
                if not hit: break
                k0, open_paren, after_bar, var = hit
                close_paren = _mc8(tk, open_paren)
                inner_b = "".join(t.text for t in tk[after_bar + 1:close_paren])
                body = "".join(t.text for t in tk[:k0]) + "({ let " + var + " = &mut r25_tls." + field + "; " + inner_b + " })" + "".join(t.text for t in tk[close_paren + 1:])
                n_with += 1
        n_calls = 0
        for callee in [c for c in (a.get("tls_calls") or "").split(",") if c]:
            pat = re.compile(re.escape(callee).replace(r"\:\:", r"\s*::\s*") + r"\s*\(")
            pos = 0
            while True:
                m = pat.search(body, pos)
                if not m: break
                # matching close paren
                depth = 0; k = m.end() - 1; pc = None
                while k < len(body):
                    if body[k] == "(": depth += 1
                    elif body[k] == ")":
                        depth -= 1
                        if depth == 0: pc = k; break
                    k += 1
                args = body[m.end():pc].strip()
                if "r25_tls" not in args:
                    body = body[:pc] + (", " if args else "") + "r25_tls" + body[pc:]
                    n_calls += 1
                pos = m.end()
        rules.append(("R25", f"thread-local state passed explicitly: +`r25_tls: &mut ThreadLocals`, {n_with} `KEY.with(..)` rewritten, {n_calls} call(s) pass it on"))
    if a.get("tls_with"):
        # R23: `KEY.with(|x| BODY)` on a thread_local! key -> `{ let x = KEY.tls_ref(); BODY }`: the closure is applied
        # at once to a reference to this thread's instance (LocalKey::with); KEY is the unit's stand-in for the key
        key = a["tls_with"]
        tk = tokenize(body)
        sigk = [k for k, t in enumerate(tk) if t.kind not in ("ws", "comment")]
        done = False
        for q, k in enumerate(sigk):
            if tk[k].kind == "ident" and tk[k].text == key and q + 7 < len(sigk):
                w = [tk[sigk[q + d]].text for d in range(1, 7)]
                if w[0] == "." and w[1] == "with" and w[2] == "(" and w[3] == "|" and w[5] == "|":
                    var = w[4]
                    open_paren = sigk[q + 3]
                    from rsx import match_close as _mc4
                    close_paren = _mc4(tk, open_paren)
                    inner = "".join(t.text for t in tk[sigk[q + 6] + 1:close_paren])
                    body = ("".join(t.text for t in tk[:k]) + "{ let " + var + " = " + key + ".tls_ref(); " + inner + " }"
                            + "".join(t.text for t in tk[close_paren + 1:]))
                    rules.append(("R23", f"`{key}.with(|{var}| ..)` -> `{{ let {var} = {key}.tls_ref(); .. }}`"))
                    done = True
                    break
        if not done:
            # the function no longer goes through the key: nothing to rewrite (whatever it does instead is verified as it is)
            rules.append(("R23", f"no `{key}.with(|x| ..)` found"))
    if a.get("drop_as_infer"):
        # R2b: ` as _` after an expression (the marker of an unsizing coercion to a boxed trait object) is dropped:
        # the stand-in `Box::new` already returns the stand-in of the trait object
        cnt = len(re.findall(r"\s+as\s+_\b", body))
        if not cnt:
            raise ExtractError(f"anchor lost: ` as _` in {f.name}")
        body = re.sub(r"\s+as\s+_\b", "", body)
        rules.append(("R2b", f"` as _` dropped ({cnt}x)"))
    if a.get("str_paths"):
        # R15d: the std validators `std::str::X` / `core::str::X` are reached through the unit's stand-in module `str`
        body2 = re.sub(r"\b(?:std|core)::str::", "str::", body)
        if body2 != body:
            rules.append(("R15d", "`std::str::` / `core::str::` paths -> the unit's stand-in module `str`"))
            body = body2
    if a.get("str_types"):
        # R15c: the primitive type `str` named inside the body (`::<str>`, `&str`) -> the stand-in `Str`
        body2 = re.sub(r"(?<![\w])str(?![\w:(])", "Str", body)
        if body2 != body:
            rules.append(("R15c", "`str` as a type inside the body -> `Str`"))
            body = body2
    if a.get("str_lits"):
        # R15b: a string literal used as a value (not the message of `.expect(..)`) becomes `vstr_lit("..")`, an
        # opaque `&Str` of the unit's stand-in string type: its content is not modelled
        tk = tokenize(body)
        sigk = [k for k, t in enumerate(tk) if t.kind not in ("ws", "comment")]
        outp = []
        pos = {k: q for q, k in enumerate(sigk)}
        n_l = 0
        for k, t in enumerate(tk):
            if t.kind == "str" and t.text.startswith('"'):
                q = pos[k]
                prev2 = [tk[sigk[q - 1]].text if q >= 1 else "", tk[sigk[q - 2]].text if q >= 2 else ""]
                if not (prev2[0] == "(" and prev2[1] in ("expect", "unreachable", "panic")):
                    outp.append("vstr_lit(" + t.text + ")"); n_l += 1
                    continue
            outp.append(t.text)
        if n_l:
            body = "".join(outp)
            rules.append(("R15b", f"{n_l} string literal(s) -> vstr_lit(..) (opaque &Str)"))
    if a.get("async_block_call"):
        # R11b': the (one) async block of this function is verified separately as an async fn (R11c); here the block
        # becomes a CALL of that fn with the captured variables -- calling an async fn builds the same future
        if body.count("vasync_block()") != 1:
            raise ExtractError(f"anchor lost: exactly one async block expected in {f.name}")
        body = body.replace("vasync_block()", a["async_block_call"])
        rules.append(("R11b", f"the async block is replaced by a call of its R11c fn: `{a['async_block_call']}`"))
    if a.get("trace_calls"):
        from rsx import trace_calls as _tc
        body = _tc(body, a["trace_calls"].split(","), rules)
    if a.get("trace_awaits"):
        from rsx import trace_awaits as _ta
        body = _ta(body, rules)
    if a.get("closure_ty"):
        # R18: an un-annotated closure `|p| EXPR` (EXPR a value expression) gets its specification: `|p| -> (o: TY) ensures o == EXPR { EXPR }`
        tk = tokenize(body)
        outp, k, hit = [], 0, 0
        from rsx import match_close as _mc
        while k < len(tk):
            t = tk[k]
            if t.text == "|" and k >= 1:
                prev = [x for x in tk[:k] if x.kind not in ("ws", "comment")]
                nxt = [j for j in range(k + 1, len(tk)) if tk[j].kind not in ("ws", "comment")]
                # closure parameters: a single identifier, or a tuple pattern `(a, _)`
                pend = None
                if prev and prev[-1].text == "(" and nxt:
                    if tk[nxt[0]].kind == "ident" and len(nxt) >= 2 and tk[nxt[1]].text == "|":
                        pend = 1
                    elif tk[nxt[0]].text == "(":
                        cpar = _mc(tk, nxt[0])
                        after = [j for j in range(cpar + 1, len(tk)) if tk[j].kind not in ("ws", "comment")]
                        if after and tk[after[0]].text == "|":
                            pend = nxt.index(after[0])
                cty = a["closure_ty"]
                if ";;" in cty:
                    # one type per closure, in source order; `-` leaves that closure un-annotated
                    ctys = cty.split(";;")
                    seen_cl = getattr(f, "_cl_seen", 0)
                    if pend is not None and len(nxt) > pend + 1 and tk[nxt[pend + 1]].text != "->":
                        f._cl_seen = seen_cl + 1
                        cty = ctys[seen_cl].strip() if seen_cl < len(ctys) else "-"
                        if cty == "-":
                            outp.append(t.text); k += 1; continue
                if pend is not None and len(nxt) > pend + 1 and tk[nxt[pend + 1]].text != "->":
                    params = "".join(("_unused" if (x.kind == "ident" and x.text == "_") else x.text) for x in tk[nxt[0]:nxt[pend]]).strip()
                    open_idx = max(j for j in range(k) if tk[j].text == "(" and tk[j] is prev[-1])
                    close_idx = _mc(tk, open_idx)
                    expr = "".join(x.text for x in tk[nxt[pend + 1]:close_idx]).strip()
                    if expr.startswith("{"):
                        inner = expr[1:expr.rstrip().rfind("}")].strip()
                        if ";" in inner or not expr.rstrip().endswith("}"):
                            outp.append(t.text); k += 1; continue
                        expr = inner
                    if "@@" in cty:
                        # R18b: the unit supplies the closure's postcondition (the body calls exec functions, so
                        # `o == EXPR` is not a specification); the body is unchanged and is verified against it
                        cty, cens = cty.split("@@", 1)
                        if params.startswith("("):
                            # tuple pattern: Verus closures take plain variables only -> destructure inside (the
                            # unit's postcondition may name the pattern's variables)
                            outp.append(f"|r18_p| -> (o: {cty.strip()}) ensures ({{ let {params} = r18_p; {cens.strip()} }}) {{ let {params} = r18_p; {expr} }}")
                        else:
                            outp.append(f"|{params}| -> (o: {cty.strip()}) ensures {cens.strip()} {{ {expr} }}")
                        rules.append(("R18b", f"closure `|{params}| {expr}` annotated with the unit's `ensures {cens.strip()}`"))
                        k = close_idx
                        hit += 1
                        continue
                    if params.startswith("("):
                        # Verus closures take plain variables only: destructure inside
                        outp.append(f"|r18_p| -> (o: {cty}) ensures ({{ let {params} = r18_p; o == {expr} }}) {{ let {params} = r18_p; {expr} }}")
                    else:
                        outp.append(f"|{params}| -> (o: {cty}) ensures o == {expr} {{ {expr} }}")
                    rules.append(("R18", f"closure `|{params}| {expr}` annotated with `ensures o == {expr}`"))
                    k = close_idx
                    hit += 1
                    continue
                if False and prev and prev[-1].text == "(" and len(nxt) >= 3 and tk[nxt[0]].kind == "ident" and tk[nxt[1]].text == "|" and tk[nxt[2]].text != "->":
                    # body runs to the `)` that closes the enclosing call
                    open_idx = max(j for j in range(k) if tk[j].text == "(" and tk[j] is prev[-1])
                    close_idx = _mc(tk, open_idx)
                    expr = "".join(x.text for x in tk[nxt[2]:close_idx]).strip()
                    if expr.startswith("{"):
                        inner = expr[1:expr.rstrip().rfind("}")].strip()
                        if ";" in inner or not expr.rstrip().endswith("}"):
                            outp.append(t.text); k += 1; continue      # a statement block: not a value expression
                        expr = inner
                    outp.append(f"|{tk[nxt[0]].text}| -> (o: {a['closure_ty']}) ensures o == {expr} {{ {expr} }}")
                    rules.append(("R18", f"closure `|{tk[nxt[0]].text}| {expr}` annotated with `ensures o == {expr}`"))
                    k = close_idx
                    hit += 1
                    continue
            outp.append(t.text)
            k += 1
        if not hit:
            # nothing to annotate (the closure is gone): fine -- any closure left un-annotated is counted below
            rules.append(("R18", "no `|p| EXPR` closure found to annotate"))
        body = "".join(outp)
    if a.get("unproject"):
        # R4d: pin_project alias elimination.  `let [mut] this = self[.as_mut()].project();` only builds a struct of
        # (pinned) references to the fields; the statement is dropped and every `this.FIELD` becomes `(&mut self.FIELD)`.
        done = False
        for pat in ("let mut this = self.as_mut().project();", "let this = self.as_mut().project();", "let this = self.project();",
                    "let mut this = self.project();"):
            cnt = norm(body).count(norm(pat))
            if cnt:
                body = replace_pattern(body, pat, "", f.name, cnt)
                done = True
                rules.append(("R4d", f"`{pat}` dropped ({cnt}x); `this.F` -> `(&mut self.F)`"))
        if not done:
            raise ExtractError(f"anchor lost: `let this = self.project();` in {f.name}")
        tk = tokenize(body)
        outp = []
        k = 0
        while k < len(tk):
            t = tk[k]
            if t.kind == "ident" and t.text == "this":
                j1 = k + 1
                while j1 < len(tk) and tk[j1].kind in ("ws", "comment"): j1 += 1
                j2 = j1 + 1
                while j2 < len(tk) and tk[j2].kind in ("ws", "comment"): j2 += 1
                if j2 < len(tk) and tk[j1].text == "." and tk[j2].kind == "ident":
                    outp.append("(&mut self." + tk[j2].text + ")")
                    k = j2 + 1
                    continue
            if t.kind == "ident" and t.text == "this":
                raise ExtractError(f"R4d refused: bare use of `this` in {f.name}")
            outp.append(t.text)
            k += 1
        body = "".join(outp)
    if re.search(r"\(\s*mut\s+self\b", sigtext):
        # R4f: a by-value `mut self` receiver (builder pattern) is not supported by Verus: `self` + a mutable local copy.
        # Applied to every extracted function with such a receiver (the `mut_self` flag of older templates is a no-op):
        # whether the receiver binding is declared `mut` is not part of a function's interface.
        sigtext = re.sub(r"\(\s*mut\s+self\b", "(self", sigtext, count=1)
        tk = tokenize(body)
        renamed = "".join(("r4_self" if (t.kind == "ident" and t.text == "self") else t.text) for t in tk)
        first = renamed.index("{")
        body = renamed[:first + 1] + "\n        let mut r4_self = self;" + renamed[first + 1:]
        rules.append(("R4f", "`mut self` -> `self` + `let mut r4_self = self;`, `self` renamed to `r4_self` in the body"))
    if a.get("tuple_param"):
        # R4g: a tuple-pattern parameter `(a, b): (A, B)` (Verus: "input of the function is not an Ident") becomes
        # `r4_arg: (A, B)` plus `let (a, b) = r4_arg;` as the first statement
        m = re.search(r"\(\s*(\(\s*\w+(?:\s*,\s*\w+)*\s*\))\s*:", sigtext) or re.search(r",\s*(\(\s*\w+(?:\s*,\s*\w+)*\s*\))\s*:", sigtext)
        if not m:
            raise ExtractError(f"anchor lost: tuple-pattern parameter in {f.name}")
        pat = m.group(1)
        sigtext = sigtext[:m.start(1)] + "r4_arg" + sigtext[m.end(1):]
        first = body.index("{")
        body = body[:first + 1] + f"\n        let {pat} = r4_arg;" + body[first + 1:]
        rules.append(("R4g", f"tuple-pattern parameter `{pat}` -> `r4_arg` + `let {pat} = r4_arg;`"))
    if a.get("alias_get_mut"):
        # R4e: with R4 the receiver already is `&mut self`; `self.get_mut()` (Pin::get_mut) is the identity
        n_gm = norm(body).count(norm("self.get_mut()"))
        if n_gm:
            body = replace_pattern(body, "self.get_mut()", "self", f.name, n_gm)
            rules.append(("R4e", f"`self.get_mut()` -> `self` ({n_gm}x)"))
        else:
            rules.append(("R4e", "no `self.get_mut()` in the body: nothing to do"))
    if a.get("alias_this"):
        # R4c: with R4 the receiver already is `&mut self`; `let this = self.as_mut().get_mut();` (or `self.get_mut()`)
        # only re-borrows it.  The statement is dropped and the alias `this` is renamed to `self`.
        done = False
        for pat in ("let this = self.as_mut().get_mut();", "let this = self.get_mut();", "let this = Pin::into_inner(self);"):
            try:
                body = replace_pattern(body, pat, "", f.name, 1)
                done = True
                rules.append(("R4c", f"`{pat}` dropped; alias `this` renamed to `self`"))
                break
            except ExtractError:
                continue
        if not done:
            raise ExtractError(f"anchor lost: `let this = self.as_mut().get_mut();` in {f.name}")
        body = "".join(("self" if (t.kind == "ident" and t.text == "this") else t.text) for t in tokenize(body))
    for ra in blocks["replaces"]:
        rep = "\n".join(ra["text"]).strip("\n")
        if ra.get("optional") and norm(ra["pattern"]) not in norm(body):
            # the text the declared replacement is for is gone: nothing to replace (what is there instead is verified as it is)
            rules.append((ra.get("rule", "R9"), f"replace `{ra['pattern']}`: not present"))
            continue
        body = replace_pattern(body, ra["pattern"], rep, f.name, int(ra.get("count", 1)))
        rules.append((ra.get("rule", "R9"), f"replace `{ra['pattern']}` -> `{norm(rep)[:200]}`"))
    # R12b: a `const NAME: T = <literal>;` of the same source file that the body refers to and the unit does not
    # define is bound as a local at the top of the body (a new constant introduced by an edit stays within reach)
    sofar = "\n".join(g.lines)
    filesrc = source(f.file).src
    for cand in sorted(set(re.findall(r"\b[A-Z][A-Z0-9_]{2,}\b", body))):
        if re.search(r"\b%s\b" % cand, sofar) or re.search(r"\b%s\b" % cand, sigtext):
            continue
        mc = re.search(r"\bconst\s+%s\s*:\s*([\w:<>]+)\s*=\s*([0-9][0-9_]*(?:\s*[*+<]{1,2}\s*[0-9][0-9_]*)*|true|false)\s*;" % cand, filesrc)
        if mc:
            first_b = body.index("{")
            body = body[:first_b + 1] + f"\n        let {cand}: {mc.group(1)} = {mc.group(2)};" + body[first_b + 1:]
            rules.append(("R12b", f"`const {cand}: {mc.group(1)} = {mc.group(2)};` of {f.file} bound as a local"))
    # closures without a specification: Verus treats their result as unconstrained, so a NEW one can turn a correct
    # edit into a failed obligation.  The unit declares how many each function has (`closures=N`, default 0); more than
    # that is an unsupported construct (exit 2), never a violation.
    # `err_closures`: closures that are the direct argument of `.map_err(` are not counted — the unit declares that its
    # contracts on this function say nothing about an error VALUE beyond "is Err", so an unconstrained one cannot fail them
    n_plain = _count_plain_closures(body, bool(a.get("err_closures")))
    f.plain_closures = n_plain
    if n_plain > int(a.get("closures", 0)):
        raise ExtractError(f"unsupported construct: {n_plain} closure(s) without a specification in {f.name} (the unit declares {a.get('closures', 0)})")
    for ia in blocks["inserts"]:
        txt = "\n" + "\n".join(ia["text"]) + "\n"
        if ("assert" in txt or "proof" in txt) and not ia.get("guard"):
            # (`guard`: an insert that is unreachable on the unchanged tree on purpose -- e.g. after a `loop` that only
            # leaves through `return` -- and only becomes reachable, and then fails, when the code is changed)
            if probe_insert is not None and g.n_inserts == probe_insert:
                txt += "assert(false); // REACH-PROBE\n"
                g.probe_desc = f.name + " @ " + " ".join(f"{k}={v}" for k, v in ia.items() if k != "text")
            g.n_inserts += 1
        nth = int(ia.get("nth", 1))
        if "loop_start" in ia or "loop_end" in ia:
            # anchored on the n-th loop of the function, whatever its header looks like
            from rsx import loop_positions, match_close as _mc2
            ltoks, lpos = loop_positions(body)
            n = int(ia.get("loop_start") or ia.get("loop_end"))
            if n < 1 or n > len(lpos):
                raise ExtractError(f"anchor lost: loop {n} of {f.name} (function has {len(lpos)} loops)")
            brace = lpos[n - 1][1]
            at = brace + 1 if "loop_start" in ia else _mc2(ltoks, brace)
            body = "".join(t.text for t in ltoks[:at]) + txt + "".join(t.text for t in ltoks[at:])
            continue
        if "arms_of" in ia:
            # the ghost text is placed at the start of EVERY `PAT => {` arm of the (first) match whose header is the pattern
            from rsx import match_close as _mc9
            tk = tokenize(body)
            sg = [k for k, t in enumerate(tk) if t.kind not in ("ws", "comment")]
            pat = [t.text for t in tokenize(ia["arms_of"]) if t.kind not in ("ws", "comment")]
            hit = None
            for q in range(len(sg) - len(pat)):
                if all(tk[sg[q + b]].text == pat[b] for b in range(len(pat))):
                    hit = q + len(pat); break
            if hit is not None:
                # the pattern is a PREFIX of the scrutinee: skip to the `{` that opens the arms
                kk = sg[hit]
                while kk < len(tk) and tk[kk].text != "{":
                    kk = _mc9(tk, kk) + 1 if tk[kk].text in ("(", "[") else kk + 1
                hit = kk if kk < len(tk) else None
            if hit is None:
                raise ExtractError(f"anchor lost: match `{ia['arms_of']}` in {f.name}")
            mo = hit; mc = _mc9(tk, mo)
            ins_at = []
            k = mo + 1
            depth = 0
            while k < mc:
                t = tk[k]
                if t.text in ("(", "[", "{"):
                    if t.text == "{":
                        # an arm block if the previous significant token is `=>`
                        pk = k - 1
                        while tk[pk].kind in ("ws", "comment"): pk -= 1
                        if tk[pk].text == "=>":
                            ins_at.append(k + 1)
                    k = _mc9(tk, k) + 1; continue
                k += 1
            if not ins_at:
                raise ExtractError(f"anchor lost: no block arms in match `{ia['arms_of']}` of {f.name}")
            outp = []
            for k, t in enumerate(tk):
                if k in ins_at:
                    outp.append("\n" + txt.rstrip() + "\n")
                outp.append(t.text)
            body = "".join(outp)
            rules.append(("R6", f"arms_of: ghost text placed at the start of {len(ins_at)} arm(s) of `{ia['arms_of']}`"))
            continue
        if "fn_exit" in ia:
            # an obligation on EVERY exit of a unit-returning function: the ghost text is placed at the end of the body and
            # in front of every `return;` (wrapped: `{ GHOST return; }`) — an early return must meet it as well
            tk = tokenize(body)
            outp = []
            nret = 0
            k = 0
            while k < len(tk):
                t = tk[k]
                if t.kind == "ident" and t.text == "return":
                    j = k + 1
                    while j < len(tk) and tk[j].kind in ("ws", "comment"): j += 1
                    if j < len(tk) and tk[j].text == ";":
                        outp.append("{\n" + txt.rstrip() + "\n return; }")
                        nret += 1
                        k = j + 1
                        continue
                    if j < len(tk) and tk[j].text in (",", "}"):
                        outp.append("{\n" + txt.rstrip() + "\n return }")
                        nret += 1
                        k += 1
                        continue
                    raise ExtractError(f"unsupported construct: fn_exit insert in {f.name}: `return <value>`")
                outp.append(t.text)
                k += 1
            body = "".join(outp)
            rules.append(("R6", f"fn_exit: ghost obligation placed at the end of the body and before {nret} early `return`(s)"))
            ia["fn_end"] = "1"
        if "fn_end" in ia:
            # at the very end of the function body (only for bodies whose last statement ends with `;` or `}`)
            last = body.rstrip().rfind("}")
            prev = body[:last].rstrip()
            if not prev.endswith((";", "}", "{")):
                raise ExtractError(f"anchor lost: fn_end of {f.name}: the body ends with a value expression")
            body = body[:last] + txt + body[last:]
            continue
        try:
            if "after" in ia:
                body = insert_after_pattern(body, ia["after"], txt, f.name, nth=nth)
            elif "arm_last" in ia:
                body = insert_after_pattern(body, ia["arm_last"], txt, f.name, nth=nth, arm_last=True)
            elif "arm_end" in ia:
                body = insert_after_pattern(body, ia["arm_end"], txt, f.name, nth=nth, arm_end=True)
            elif "arm_start" in ia:
                body = insert_after_pattern(body, ia["arm_start"], txt, f.name, nth=nth, arm_start=True)
            elif "block_end_of" in ia:
                body = insert_after_pattern(body, ia["block_end_of"], txt, f.name, nth=nth, block_end_of=True)
            elif "after_block_of" in ia:
                body = insert_after_pattern(body, ia["after_block_of"], txt, f.name, nth=nth, after_block_of=True)
            else:
                body = insert_after_pattern(body, ia["before"], txt, f.name, before=True, nth=nth)
        except ExtractError:
            # fallback anchors: the same ghost text at another place where the same facts hold
            if "alt_after" in ia:
                body = insert_after_pattern(body, ia["alt_after"], txt, f.name)
            elif "alt_before" in ia:
                body = insert_after_pattern(body, ia["alt_before"], txt, f.name, before=True)
            else:
                raise
    loops = {n: "\n".join(v) for n, v in blocks["loops"].items()}
    body = insert_loop_specs(body, loops, f.name)
    spec = "\n".join(blocks["spec"])
    f.has_requires = bool(re.search(r"\brequires\b", spec))
    _ltxt = "\n".join(loops.values())
    if re.search(r"\b(while|loop)\b", body) and not a.get("loop_isolation"):
        # loops see what is known about the variables they do not modify (a local hoisted in front of a loop by a
        # behaviour-preserving edit must not break the invariant's proof: benign B19/07)
        g.lines.append("#[verifier::loop_isolation(false)]")
        if re.search(r"\binvariant_except_break\b|^\s*ensures\b", _ltxt, re.M):
            g.lines.append("#[verifier::allow_complex_invariants]")
        rules.append(("R6", "loop_isolation(false): facts about variables a loop does not modify remain known inside it"))
    f.first = len(g.lines) + 1
    for l in sigtext.split("\n"): g.lines.append(l)
    s0 = len(g.lines) + 1
    for l in spec.split("\n"): g.lines.append(l)
    f.spec_lines = (s0, len(g.lines))
    for l in body.split("\n"): g.lines.append(l)
    f.last = len(g.lines)
    f.emitted = "\n".join(g.lines[f.first - 1:f.last])
    f.sha = hashlib.sha256(f.orig.encode()).hexdigest()[:16]
    g.fns.append(f)
    _m = re.search(r"\bfn\s+(\w+)", sigtext)
    if _m: fname = _m.group(1)      # the name as emitted (a sig_replace may have renamed it)
    if a.get("awaited_twin"):
        # R22: Verus does not carry an async fn's `&mut` postconditions across `.await` in its caller.  The caller's
        # `X.f(..).await` is (declared //@replace) turned into a call of `f__awaited`: a body-less twin with THIS
        # function's contract, i.e. the usual modular rule "awaiting an async fn runs it to completion" (A-AWAIT).
        if not re.search(r"\basync\s+fn\s+%s\b" % re.escape(fname), sigtext):
            raise ExtractError(f"anchor lost: `async fn {fname}` in {f.name}")
        sig3 = re.sub(r"\basync\s+fn\s+%s\b" % re.escape(fname), "fn " + fname + "__awaited", sigtext, count=1)
        g.lines.append("#[verifier::external_body]")
        for l in sig3.split("\n"): g.lines.append(l)
        for l in spec.split("\n"): g.lines.append(l)
        g.lines.append("{ unimplemented!() }")
        rules.append(("R22", f"twin `{fname}__awaited` (no body, same contract) emitted for callers that await this async fn"))
    if vacuity and f.has_requires and not f.noreach:
        # must-fail reachability copy: same requires, same body, `ensures false`; callees keep their real contracts
        cl = _split_clauses(spec)
        parts = []
        cs = [c for (k, c, _) in cl if k == "requires"]
        if cs: parts.append("    requires\n" + ",\n".join("        " + c for c in cs) + ",")
        parts.append("    ensures false,")
        cs = [c for (k, c, _) in cl if k == "decreases"]
        if cs: parts.append("    decreases " + ", ".join(cs) + ",")
        sig2 = re.sub(r"\bfn\s+%s\b" % re.escape(fname), "fn reach__" + fname, sigtext, count=1)
        r = Fn()
        r.name = f.name; r.kind = "reach"; r.props = f.props; r.has_requires = True
        k = f.first - 2
        attrs = []
        while k >= 0 and g.lines[k].strip().startswith("#[verifier::"):
            attrs.append(g.lines[k].strip()); k -= 1
        for at in reversed(attrs):
            g.lines.append(at)
        r.first = len(g.lines) + 1
        for l in sig2.split("\n"): g.lines.append(l)
        for l in "\n".join(parts).split("\n"): g.lines.append(l)
        for l in body.split("\n"): g.lines.append(l)
        r.last = len(g.lines)
        g.reach.append(r)


def _count_plain_closures(body, skip_map_err=False):
    tk = [t for t in tokenize(body) if t.kind not in ("ws", "comment")]
    n = 0
    k = 0
    while k < len(tk):
        t = tk[k]
        if t.text in ("|", "||") and k >= 1 and tk[k - 1].text in ("(", ",", "=", "move", "return", "{", ";"):
            if skip_map_err and k >= 3 and tk[k - 1].text == "(" and tk[k - 2].text == "map_err" and tk[k - 3].text == ".":
                k += 1
                continue
            if t.text == "||":
                close = k
            else:
                close = k + 1
                while close < len(tk) and tk[close].text != "|":
                    close += 1
            if close + 1 < len(tk) and tk[close + 1].text != "->":
                n += 1
            k = close + 1
            continue
        k += 1
    return n


def _publicise(txt, rl):
    """R3 for type definitions: the type and each named field become `pub` (visibility only)"""
    toks = tokenize(txt)
    out = []
    depth = 0
    prev_sig = None
    for i, t in enumerate(toks):
        if t.kind == "punct" and t.text in "([{<": depth += (t.text != "<")
        if t.kind == "punct" and t.text in ")]}": depth -= 1
        if t.kind == "ident" and t.text in ("struct", "enum") and depth == 0 and (prev_sig is None or prev_sig.text != "pub"):
            out.append("pub ")
            rl.append(("R3", f"{t.text} -> pub {t.text}"))
        if t.kind == "ident" and depth == 1 and txt.lstrip().startswith(("struct", "pub struct")):
            # field name: ident followed by ':' and preceded by `{` or `,`
            j = i + 1
            while j < len(toks) and toks[j].kind in ("ws", "comment"): j += 1
            if j < len(toks) and toks[j].text == ":" and prev_sig is not None and prev_sig.text in ("{", ","):
                out.append("pub ")
                rl.append(("R3", f"field {t.text} -> pub"))
        out.append(t.text)
        if t.kind not in ("ws", "comment"): prev_sig = t
    return "".join(out)


def _replace_norm(text, old, new):
    # whitespace-insensitive single replacement
    pat = r"\s*".join(re.escape(t.text) for t in sig(tokenize(old)))
    return re.sub(pat, new, text, count=1)


def extraction_diff(f):
    a = f.orig.split("\n")
    b = f.emitted.split("\n")
    return "\n".join(difflib.unified_diff(a, b, "real:" + f.file + "::" + f.item, "verified", lineterm="", n=0))


# --------------------------------------------------------------------------------------------- running
def run_verus(path, rlimit=None, seed=None, multiple_errors=8, timeout=600, extra=()):
    cmd = ["verus", path, "--error-format=json", "--output-json", "--time", "--multiple-errors", str(multiple_errors)]
    if rlimit: cmd += ["--rlimit", str(rlimit)]
    if seed is not None: cmd += ["--smt-option", f"smt.random_seed={seed}"]
    cmd += list(extra)
    t0 = time.time()
    try:
        p = subprocess.run(cmd, capture_output=True, text=True, timeout=timeout, cwd=os.path.dirname(path))
    except subprocess.TimeoutExpired:
        return {"rc": -1, "timeout": True, "diags": [], "json": {}, "wall": time.time() - t0, "cmd": " ".join(cmd), "stderr": "timeout"}
    diags = []
    for l in p.stderr.split("\n"):
        l = l.strip()
        if l.startswith("{"):
            try: diags.append(json.loads(l))
            except Exception: pass
    js = {}
    try:
        js = json.loads(p.stdout[p.stdout.index("{"):])
    except Exception:
        pass
    return {"rc": p.returncode, "timeout": False, "diags": diags, "json": js, "wall": time.time() - t0,
            "cmd": " ".join(cmd), "stderr": p.stderr if not diags else ""}


class Failure:
    def __init__(self, fn, kind, clause, line, rendered, props):
        self.fn, self.kind, self.clause, self.line, self.rendered, self.props = fn, kind, clause, line, rendered, props

    @property
    def obligation(self):
        c = re.sub(r"\s+", " ", self.clause)[:120]
        return f"{self.fn}/{self.kind}: {c}"


def classify(res, g):
    """returns (failures[list of Failure], undecided[list of str])"""
    fails, undecided = [], []
    if res["timeout"]:
        undecided.append("verus timed out")
        return fails, undecided
    for d in res["diags"]:
        if d.get("level") != "error":
            continue
        msg = d.get("message", "")
        if msg.startswith("aborting due to"):
            continue
        spans = d.get("spans", [])
        prim = [s for s in spans if s.get("is_primary")] or spans
        line = prim[0]["line_start"] if prim else 0
        low = msg.lower()
        if any(u in low for u in UNDECIDED_MSGS):
            undecided.append(f"{msg} (line {line})")
            continue
        if not any(low.startswith(v) or v in low for v in VERIFY_MSGS):
            undecided.append(f"not a verification result: {msg} (line {line}): " + (d.get("rendered") or "")[:600])
            continue
        # which function does the failing obligation belong to?  The function whose body is being checked:
        # for pre/postconditions the span inside a function body; use the *body-side* span.
        fn = None
        body_line = line
        clause_line = line
        if "postcondition" in low:
            clause_line = line
            others = [s for s in spans if not s.get("is_primary")]
            fn = g.fn_at(line) or (g.fn_at(others[0]["line_start"]) if others else None)
            kind = "ensures"
        elif "precondition" in low or "requires not satisfied" in low:
            kind = "call-requires"
            others = [s for s in spans if not s.get("is_primary")]
            clause_line = others[0]["line_start"] if others else line
            fn = g.fn_at(line)
        elif "type invariant" in low:
            kind = "type-invariant"; fn = g.fn_at(line)
        elif "invariant" in low:
            kind = "invariant"; fn = g.fn_at(line)
        elif "assert" in low:
            kind = "assert"; fn = g.fn_at(line)
        elif "decreases" in low or "termination" in low:
            kind = "decreases"; fn = g.fn_at(line)
        elif "overflow" in low or "division" in low or "shift" in low:
            kind = "arith"; fn = g.fn_at(line)
        else:
            kind = "other"; fn = g.fn_at(line)
        clause = ""
        for s in spans:
            if s["line_start"] == clause_line and s.get("text"):
                tx = s["text"][0]
                clause = tx["text"][tx["highlight_start"] - 1:tx["highlight_end"] - 1] if s["line_start"] == s["line_end"] else tx["text"].strip()
                break
        if not clause and prim and prim[0].get("text"):
            clause = prim[0]["text"][0]["text"].strip()
        # property tags: `// [C01,C02]` on the clause line narrows the attribution
        props = None
        for ln in (clause_line, line):
            if 0 < ln <= len(g.lines):
                m = re.search(r"//\s*\[((?:C\d+\s*,?\s*)+)\]", g.lines[ln - 1])
                if m:
                    props = [x.strip() for x in m.group(1).split(",") if x.strip()]
                    break
        if fn is None:
            undecided.append(f"verification failure outside any tracked function: {msg} (line {line})")
            continue
        if props is None:
            props = fn.props
        fails.append(Failure(fn.name, kind, clause, line, d.get("rendered", ""), props))
    vr = res["json"].get("verification-results", {})
    if not res["diags"] and res["rc"] != 0:
        undecided.append("verus exited %s without diagnostics: %s" % (res["rc"], res.get("stderr", "")[:800]))
    if vr.get("encountered-vir-error"):
        if not undecided:
            undecided.append("verus reported a VIR (unsupported construct / mode) error")
    return fails, undecided


def count_obligations(g):
    """obligations declared by the contracts: per tracked fn 1 (body safety: no panic, no overflow,
    callee preconditions, termination where a decreases is given) + 1 per ensures clause + 1 per loop
    invariant clause + 1 per assert in the emitted text"""
    names = []
    for f in g.fns:
        names.append(f"{f.name}/body-safety")
        text = "\n".join(g.lines[f.first - 1:f.last])
        toks = sig(tokenize(text))
        # ensures / invariant clause counting on the token level
        for kind in ("ensures", "invariant", "invariant_except_break"):
            for m in re.finditer(r"\b%s\b" % kind, text):
                pass
        # cheap clause split: run the splitter over the spec-ish regions
        cl = _split_clauses(_spec_regions(text))
        for (k, c, _) in cl:
            if k in ("ensures", "invariant", "invariant_except_break", "returns"):
                names.append(f"{f.name}/{k}: " + re.sub(r"\s+", " ", c)[:120])
        for m in re.finditer(r"\bassert\s*\(", text):
            names.append(f"{f.name}/assert@{text.count(chr(10), 0, m.start())}")
    return names


def _spec_regions(text):
    """concatenate the regions of `text` that are spec clause lists (after requires/ensures/invariant
    keywords up to the opening brace of the body/loop)"""
    out = []
    toks = tokenize(text)
    i = 0
    n = len(toks)
    while i < n:
        t = toks[i]
        if t.kind == "ident" and t.text in ("requires", "ensures", "invariant", "invariant_except_break", "returns"):
            depth = 0
            j = i
            seg = []
            while j < n:
                x = toks[j]
                if x.kind == "punct":
                    if x.text in "([": depth += 1
                    elif x.text in ")]": depth -= 1
                    elif x.text == "{" and depth == 0:
                        # a block expression can only start a clause after `==>`/`=`/`,` etc.  Treat `{` directly
                        # following a `,` or a clause keyword or an expression end as the body.
                        prev = [y for y in toks[i:j] if y.kind not in ("ws", "comment")]
                        if prev and (prev[-1].text in (",",) or prev[-1].kind in ("ident", "num") or prev[-1].text in (")", "]")):
                            if not (prev[-1].kind == "ident" and prev[-1].text in ("if", "else", "match")) and not _in_if(prev):
                                break
                        depth += 1
                    elif x.text == "}" and depth > 0:
                        depth -= 1
                seg.append(x.text)
                j += 1
            out.append("".join(seg) + ",\n")
            i = j
            continue
        i += 1
    return "".join(out)


def _in_if(prev):
    # is there an unmatched `if` / `match` whose block has not been opened yet
    depth = 0
    pending = 0
    for y in prev:
        if y.kind == "ident" and y.text in ("if", "match"): pending += 1
        if y.kind == "ident" and y.text == "else": pending += 1
        if y.text == "{":
            if pending: pending -= 1
    return pending > 0
