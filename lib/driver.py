"""check driver: decides one property by running its Verus units (Route V) and Kani units (Route K)
against /repo's current working tree, classifies obligations, writes evidence and replay files."""
import concurrent.futures as cf
import hashlib, json, os, re, shutil, subprocess, sys, tempfile, time

ROOT = os.path.normpath(os.path.join(os.path.dirname(os.path.abspath(__file__)), ".."))
sys.path.insert(0, os.path.join(ROOT, "lib"))
import vunit
import kunit
import inventory
import unitdeps
from rsx import ExtractError

REPO = os.environ.get("VERIF_REPO", "/repo")


def load_cfg():
    return json.load(open(os.path.join(ROOT, "checks.json")))


def load_known():
    p = os.path.join(ROOT, "known_findings.json")
    if os.path.exists(p):
        return json.load(open(p))
    return {"known": [], "fixed": []}


class UnitResult:
    def __init__(self, name, route):
        self.name, self.route = name, route
        self.obligations = []      # names
        self.failures = []         # (obligation name, props, detail text, kind)
        self.undecided = []        # strings
        self.trusted = []
        self.functions = []        # dicts
        self.solver_s = 0.0
        self.wall = 0.0
        self.cmd = ""
        self.bounded = []
        self.notes = []
        self.rules = []
        self.samples = []
        self.vacuity = {}
        self.cex = {}              # obligation -> counterexample text


def run_verus_unit(unit, scratch, tier, seed):
    ur = UnitResult(unit, "verus")
    t0 = time.time()
    base, _, variant = unit.partition("@")
    udir = os.path.join(ROOT, "units", base)
    variables = None
    if variant:
        variables = json.load(open(os.path.join(udir, "variants.json")))[variant]
    try:
        g = vunit.assemble(udir, REPO, variables=variables)
        gv = vunit.assemble(udir, REPO, vacuity=True, variables=variables)
        g.unit = gv.unit = unit
    except ExtractError as e:
        ur.undecided.append(f"extraction: {e}")
        ur.wall = time.time() - t0
        return ur
    os.makedirs(scratch, exist_ok=True)
    fname = unit.replace("@", "_")
    main_p = os.path.join(scratch, f"{fname}.rs")
    vac_p = os.path.join(scratch, f"{fname}_reach.rs")
    open(main_p, "w").write(g.text)
    open(vac_p, "w").write(gv.text)
    with cf.ThreadPoolExecutor(max_workers=2) as ex:
        fm = ex.submit(vunit.run_verus, main_p)
        fv = ex.submit(vunit.run_verus, vac_p, None, None, 64)
        res, resv = fm.result(), fv.result()
    ur.cmd = "verus <generated %s.rs> --error-format=json --output-json --time --multiple-errors 8" % unit
    fails, und = vunit.classify(res, g)
    # brittle-proof guard: a failure counts only if it persists with a 4x resource limit and two other seeds
    attempts = [("default", len(fails))]
    if fails and not und:
        for k in (1, 2):
            r2 = vunit.run_verus(main_p, rlimit=40, seed=seed * 7 + k * 13 + 1)
            f2, u2 = vunit.classify(r2, g)
            attempts.append((f"rlimit=40 seed={seed * 7 + k * 13 + 1}", len(f2)))
            names2 = {f.obligation for f in f2}
            fails = [f for f in fails if f.obligation in names2]
            if u2:
                und += u2
            if not fails:
                ur.notes.append("a first-run failure disappeared on retry (unstable proof): " + json.dumps(attempts))
                break
    ur.notes.append("verus attempts: " + json.dumps(attempts))
    ur.undecided += und
    tm = res["json"].get("times-ms", {})
    ur.solver_s = (tm.get("smt", {}).get("total", 0)) / 1000.0
    vr = res["json"].get("verification-results", {})
    ur.notes.append("verus: %s verified, %s errors; total %.1fs, smt %.2fs" % (vr.get("verified"), vr.get("errors"),
                                                                              tm.get("total", 0) / 1000.0, ur.solver_s))
    ur.obligations = obligations_of(g)
    for f in fails:
        ur.failures.append({"obligation": f"{unit}::{f.obligation}", "props": f.props, "detail": f.rendered, "kind": f.kind, "fn": f.fn})
    # vacuity / reachability: every contracted fn with a `requires` must FAIL when its ensures is `false`
    vu = []
    failed_fns = set()
    if resv["timeout"]:
        vu.append("timeout")
    for d in resv["diags"]:
        if d.get("level") != "error" or d.get("message", "").startswith("aborting"):
            continue
        for sp in d.get("spans", []):
            for rf in gv.reach:
                if rf.first <= sp["line_start"] <= rf.last:
                    failed_fns.add(rf.name)
    vr_v = resv["json"].get("verification-results", {})
    if vr_v.get("encountered-vir-error") or (not resv["diags"] and resv["rc"] != 0) or \
            (vr_v.get("encountered-error") and not vr_v.get("verified") and not vr_v.get("errors")):
        # the variant did not get as far as verification (a Rust/Verus front-end error in a reach copy)
        ur.undecided.append("reachability variant did not run: " + (vunit.classify(resv, gv)[1] or ["?"])[0][:300])
    for rf in gv.reach:
        ok = rf.name in failed_fns
        ur.vacuity[rf.name] = ok
        if not ok and not any("reachability variant did not run" in u or "not a verification result" in u for u in ur.undecided):
            ur.undecided.append(f"vacuous contract: `ensures false` verifies for {rf.name} (contradictory requires, or unreachable exit)")
    if tier == "thorough" and not ur.undecided:
        # (a) re-verification with a different solver seed: a proof that depends on the seed is reported, not trusted
        r2 = vunit.run_verus(main_p, seed=seed * 31 + 17)
        f2, u2 = vunit.classify(r2, g)
        if (f2 or u2) and not fails:
            ur.undecided.append("unstable proof: verifies with the default seed but not with smt.random_seed=%d: %s" % (seed * 31 + 17, (f2[0].obligation if f2 else u2[0])[:200]))
        ur.notes.append("thorough: second-seed re-verification %s" % ("passed" if not (f2 or u2) else "differs"))
        # (b) reachability probe of every inserted ghost block: `assert(false)` placed at its end must FAIL
        probes = []
        for k in range(g.n_inserts):
            gp = vunit.assemble(udir, REPO, variables=variables, probe_insert=k)
            pp = os.path.join(scratch, f"{fname}_probe{k}.rs")
            open(pp, "w").write(gp.text)
            probes.append((k, gp, pp))
        with cf.ThreadPoolExecutor(max_workers=6) as ex:
            futs = {k: ex.submit(vunit.run_verus, pp, None, None, 2) for (k, gp, pp) in probes}
        dead = []
        for (k, gp, pp) in probes:
            rp = futs[k].result()
            line = next((i + 1 for i, l in enumerate(gp.lines) if "REACH-PROBE" in l), None)
            hit = any(d.get("level") == "error" and any(sp["line_start"] == line for sp in d.get("spans", [])) for d in rp["diags"])
            if not hit:
                dead.append(gp.probe_desc or str(k))
        ur.notes.append(f"thorough: {len(probes)} ghost insertion points probed for reachability, {len(dead)} unreachable")
        for dsc in dead:
            ur.undecided.append("unreachable ghost code (its assertions are vacuous): " + dsc)
    for f in g.fns:
        d = {"name": f"{unit}::{f.name}", "kind": f.kind, "props": f.props}
        if f.kind == "extracted":
            d.update({"source": f"{f.file} :: {f.item}", "sha256_16_of_real_text": f.sha,
                      "rewrite_rules_applied": [f"{a}: {b}" for a, b in f.rules],
                      "extraction_diff": vunit.extraction_diff(f)[:6000]})
        ur.functions.append(d)
    for t in g.types:
        ur.functions.append({"name": f"{unit}::type {t['item']}", "kind": "extracted type/const", "source": t["file"],
                             "sha256_16_of_real_text": t["sha"], "rewrite_rules_applied": [f"{a}: {b}" for a, b in t["rules"]]})
    ur.trusted = [f"{unit}.rs:{n}: {l}" for n, l in g.trusted]
    ur.trusted_named = trusted_items(g)
    ur.wall = time.time() - t0
    ur.generated = g
    return ur


def trusted_items(g):
    """human-readable list of assumed contracts: the item following each external_body / assume_specification"""
    out = []
    L = g.lines
    for n, l in g.trusted:
        if "external_body" in l:
            for k in range(n, min(n + 6, len(L))):
                m = re.search(r"\b(fn|struct)\s+(\w+)", L[k])
                if m:
                    owner = ""
                    if m.group(1) == "fn" and L[k].startswith((" ", "\t")):
                        for j in range(k, max(k - 400, 0), -1):
                            mi = re.match(r"^\s{0,4}(?:pub\s+)?(?:unsafe\s+)?impl(?:<[^>]*>)?\s+(.*?)\s*\{", L[j])
                            if mi:
                                owner = re.sub(r"\s+", " ", mi.group(1)) + "::"; break
                            if re.match(r"^\s{0,4}(pub\s+)?(mod|trait)\s+(\w+)", L[j]):
                                owner = re.match(r"^\s{0,4}(pub\s+)?(mod|trait)\s+(\w+)", L[j]).group(3) + "::"; break
                    out.append(f"{m.group(1)} {owner}{m.group(2)} (external_body: contract assumed)"); break
        elif "assume_specification" in l:
            out.append(re.sub(r"\s+", " ", l)[:160])
        elif "exec_allows_no_decreases_clause" in l:
            for k in range(n, min(n + 3, len(L))):
                m = re.search(r"\bfn\s+(\w+)", L[k])
                if m:
                    out.append(f"fn {m.group(1)}: partial correctness only (no decreases)"); break
        else:
            out.append(re.sub(r"\s+", " ", l)[:160])
    return sorted(set(out))


def obligations_of(g):
    names = []
    for f in g.fns:
        text = "\n".join(g.lines[f.first - 1:f.last])
        names.append(f"{g.unit}::{f.name}/body-safety")
        for (k, c, _) in vunit._split_clauses(vunit._spec_regions(text)):
            if k in ("ensures", "invariant", "invariant_except_break", "returns"):
                names.append(f"{g.unit}::{f.name}/{k}: " + re.sub(r"\s+", " ", c)[:120])
        for m in re.finditer(r"\bassert\s*(\(|forall)", text):
            names.append(f"{g.unit}::{f.name}/assert@+{text.count(chr(10), 0, m.start())}")
    return names


def decide(pid, tier, seed):
    cfg = load_cfg()
    if pid not in cfg["properties"]:
        print(f"property {pid} is not claimed (see MANIFEST.json not_applicable)")
        return 2
    pc = cfg["properties"][pid]
    t0 = time.time()
    scratch = tempfile.mkdtemp(prefix=f"actix-verif-{pid}-", dir=os.environ.get("VERIF_SCRATCH", "/var/tmp"))
    results = []
    dep_scan_error = None
    try:
        with cf.ThreadPoolExecutor(max_workers=8) as ex:
            futs = []
            for u in pc.get("verus", []):
                futs.append(ex.submit(run_verus_unit, u, os.path.join(scratch, "v_" + u), tier, seed))
            for u in pc.get("kani", []):
                futs.append(ex.submit(kunit.run_kani_unit, u, os.path.join(scratch, "k_" + u), tier, seed, REPO, pid))
            # the units whose contracts this property's own units ASSUME (stand-ins "proved in unit X"): verified too,
            # only to know whether those assumptions stand on this tree (lib/unitdeps.py)
            own = sorted({u.split("@")[0] for u in pc.get("verus", [])})
            try:
                extra, assumed = unitdeps.closure(own)
            except Exception as e:      # a template the dependency scan cannot read: say so, never guess
                extra, assumed = set(), {}
                dep_scan_error = f"dependency scan of the unit templates failed ({e}); the units whose contracts {pid}'s units assume were not re-verified"
            dfuts = []
            for b in sorted(extra):
                vj = os.path.join(ROOT, "units", b, "variants.json")
                names = [f"{b}@{v}" for v in json.load(open(vj))] if os.path.exists(vj) else [b]
                for u in names:
                    dfuts.append(ex.submit(run_verus_unit, u, os.path.join(scratch, "d_" + u), "quick", seed))
            kfuts = []
            for k in sorted(unitdeps.kani_assumed(set(own) | extra) - set(pc.get("kani", []))):
                kfuts.append(ex.submit(kunit.run_kani_unit, k, os.path.join(scratch, "dk_" + k), "quick", seed, REPO, None))
            for f in futs:
                results.append(f.result())
            for f in dfuts:
                r = f.result(); r.dep_only = True; r.assumed = assumed.get(r.name.split("@")[0], set())
                results.append(r)
            for f in kfuts:
                r = f.result(); r.dep_only = True; r.assumed = None
                results.append(r)
        # entry points (trait-impl methods, pub functions) that appeared in a file this property's units read after the
        # contracts were written: an operation nobody argued about -> the answer cannot be "holds"
        inv = UnitResult("inventory", "inventory")
        props = [json.loads(l) for l in open(os.path.join(ROOT, "properties.jsonl"))]
        for e in inventory.new_entry_points(pid, REPO, cfg, props):
            inv.undecided.append(f"new entry point without a contract: {e} (not in inventory.json; the per-operation argument for {pid} does not cover it)")
        for e in inventory.modified_uncontracted(pid, REPO, cfg, props):
            inv.undecided.append(f"code under no contract was modified: {e} (its text differs from inventory.json; nothing is proved about it, so {pid} cannot be answered 'holds' for this tree)")
        for e in inventory.changed_outside_own_units(pid, REPO, cfg, props):
            inv.undecided.append(f"a function of a file {pid} is anchored in was modified, and none of {pid}'s own units has it under contract: {e} (other properties' checks may judge the change; this one cannot answer 'holds')")
        run_v = list(pc.get("verus", [])) + sorted(extra)
        run_k = list(pc.get("kani", [])) + sorted(unitdeps.kani_assumed(set(own) | extra))
        for e in inventory.changed_in_dependency_crates(pid, REPO, cfg, props, run_v, run_k):
            inv.undecided.append(f"code of a workspace crate this property's code is built on was modified, and none of the units this check runs has it under contract: {e} (another property's check may judge the change; {pid} cannot be answered 'holds' for this tree)")
        for e in inventory.modified_manifests(pid, REPO, cfg, props):
            inv.undecided.append(f"crate manifest changed: {e} (features and dependencies decide which cfg-gated code is compiled; the contracts were written for the recorded configuration, so {pid} cannot be answered 'holds' for this tree)")
        if dep_scan_error:
            inv.undecided.append(dep_scan_error)
        inv.cmd = "lib/inventory.py: entry points of the files read by this property's units vs. inventory.json"
        results.append(inv)
        return report(pid, tier, seed, pc, results, time.time() - t0, scratch)
    finally:
        shutil.rmtree(scratch, ignore_errors=True)


def report(pid, tier, seed, pc, results, wall, scratch):
    known = load_known()
    all_obl, failures, undecided, trusted, functions, notes, bounded, samples = [], [], [], [], [], [], [], []
    solver = 0.0
    cmds = []
    dep_notes = []
    for r in results:
        if getattr(r, "dep_only", False):
            # a dependency unit: nothing of it is counted for this property; what matters is whether the functions this
            # property's units assume (stand-ins) still meet their contracts
            if r.route == "kani":
                # a Kani unit whose contracts (of the real Counter / Availability / LocalWaker) the Verus stand-ins assume
                kbad = sorted(set(f["obligation"] for f in r.failures if not any(match_known(known, q, f["obligation"]) for q in f["props"])))
                if kbad:
                    undecided.append(f"{r.name} (Kani unit whose contracts {pid}'s Verus units assume): {', '.join(kbad)[:300]} fail(s); {pid} is not answered 'holds' (the violation is reported by the checks that list the unit)")
                if r.undecided:
                    undecided.append(f"{r.name} (Kani unit whose contracts {pid}'s Verus units assume) could not be run on this tree: {r.undecided[0][:200]}")
                dep_notes.append(f"{r.name}: Kani-proved contracts assumed by this property's Verus stand-ins; re-run in this run ({'failed / undecided' if (kbad or r.undecided) else 'verified'})")
                solver += r.solver_s
                continue
            base = r.name.split("@")[0]
            _, ext, _ = unitdeps.info(base)
            bad = []
            for f in r.failures:
                tm = ext.get(f.get("fn") or "")
                if tm is None or tm in r.assumed or (f.get("fn") or "") in r.assumed:
                    if not any(match_known(known, q, f["obligation"]) for q in f["props"]):
                        bad.append(f.get("fn") or f["obligation"])
            if bad:
                undecided.append(f"{r.name} (a unit whose contracts {pid}'s units assume): {', '.join(sorted(set(bad)))} no longer meet(s) the contract assumed of it; {pid} is not answered 'holds' (the violation is reported by the checks that contract is attributed to)")
            if r.undecided:
                undecided.append(f"{r.name} (a unit whose contracts {pid}'s units assume) could not be verified on this tree: {r.undecided[0][:200]}")
            dep_notes.append(f"{r.name}: contracts of {', '.join(sorted((x if isinstance(x, str) else x[0] + '::' + x[1]) for x in r.assumed))} assumed by this property's units; the unit was re-verified in this run ({'failed / undecided' if (bad or r.undecided) else 'verified'})")
            solver += r.solver_s
            continue
        # only the obligations mapped to this property are counted for it
        fnprops = {x["name"]: x.get("props", []) for x in r.functions}
        sibling = {}
        for f in r.failures:
            if pid in f["props"]:
                failures.append((r, f))
            elif r.route == "verus" and f.get("fn"):
                # MODULAR SOUNDNESS: within a Verus unit every caller is verified against its callees' CONTRACTS.  When a
                # function of the unit fails a clause — even one attributed to other properties only — the proofs of this
                # property's clauses in its callers rest on a contract that no longer holds.  The violation itself is
                # reported by the checks the clause is attributed to; this property is not answered "holds".
                if not any(match_known(known, q, f["obligation"]) for q in f["props"]):
                    sibling.setdefault(f["fn"], set()).update(f["props"])
            elif r.route == "kani":
                # a harness of a Kani unit this property lists fails, attributed to other properties only: the real
                # function the unit is about misbehaves; this property lists the unit because it depends on it
                if not any(match_known(known, q, f["obligation"]) for q in f["props"]):
                    sibling.setdefault(f["obligation"].split(":")[0], set()).update(f["props"])
        undecided += [f"{r.name}: {fn} fails an obligation attributed to {','.join(sorted(ps)) or 'no property'}; {pid} rests on this unit too (Verus proofs are modular over every contract of the unit; a Kani unit is listed because the property depends on the functions it checks), so {pid} is not answered 'holds' (see the check of {','.join(sorted(ps)) or 'the unit'} for the violation)" for fn, ps in sorted(sibling.items())]
        undecided += [f"{r.name}: {u}" for u in r.undecided]
        trusted += getattr(r, "trusted_named", []) if r.route == "verus" else r.trusted
        functions += r.functions
        notes += [f"{r.name}: {n}" for n in r.notes]
        bounded += r.bounded
        solver += r.solver_s
        cmds.append(r.cmd)
        all_obl += r.obligations
        samples += r.samples
    relevant = relevant_obligations(pid, [r for r in results if not getattr(r, 'dep_only', False)])
    notes += dep_notes
    out_dir = os.path.join(ROOT, "replays", "out", pid)
    viol_lines, known_lines = [], []
    nviol = 0
    if failures:
        os.makedirs(out_dir, exist_ok=True)
    seen_obl = set()
    for (r, f) in failures:
        if f["obligation"] in seen_obl:
            continue
        seen_obl.add(f["obligation"])
        kf = match_known(known, pid, f["obligation"])
        if kf:
            known_lines.append(f"KNOWN-FINDING: property={pid} {kf['what']}")
            continue
        nviol += 1
        slug = hashlib.sha1(f["obligation"].encode()).hexdigest()[:10]
        path = os.path.join(out_dir, f"{r.name}-{slug}.txt")
        cex = r.cex.get(f["obligation"])
        with open(path, "w") as fh:
            fh.write(f"property: {pid}\nfailed obligation: {f['obligation']}\nback end: {r.route}\nunit: {r.name}\n")
            fh.write("this obligation is discharged on the unchanged tree; it fails on the tree that was checked.\n\n")
            fh.write("---- verifier output ----\n" + (f["detail"] or "") + "\n")
            if cex:
                fh.write("\n---- counterexample replayed against the real code ----\n" + cex + "\n")
            else:
                fh.write("\nno concrete failing input was produced by the verifier for this obligation.\n")
            fn = next((x for x in r.functions if x["name"].endswith(f.get("fn") or "\0")), None)
            if fn and fn.get("extraction_diff"):
                fh.write("\n---- function under contract (diff real text -> verified text) ----\n" + fn["extraction_diff"] + "\n")
        viol_lines.append(f"VIOLATION property={pid} replay={path}" + ("" if cex else " no-failing-input-found"))
    for l in sorted(set(known_lines)):
        print(l)
    status = 0
    if undecided:
        for u in undecided:
            print("UNDECIDED:", u[:400])
        status = 2
    if viol_lines:
        for l in viol_lines:
            print(l)
        status = 1
    n_obl = len(relevant)
    failed_names = {f["obligation"] for (_, f) in failures}
    discharged = n_obl - len([1 for o in relevant if any(o.startswith(fn.split("/")[0] + "/") and False for fn in failed_names)])
    discharged = n_obl - min(n_obl, len(failed_names)) if not undecided else 0
    level = pc["level"]
    ev = {
        "property_id": pid, "tier": tier, "seed": seed, "level": level,
        "coverage": {
            "obligations": max(n_obl, 1), "discharged": max(discharged, 0 if (failures or undecided) else 1),
            "checker_cmd": " ; ".join(sorted(set(c for c in cmds if c))),
            "trusted_base": sorted(set(trusted)),
            "explanation": pc.get("explanation", ""),
            "functions_under_contract": functions,
            "obligation_names": relevant[:400],
            "failed_obligations": sorted(failed_names),
            "undecided": undecided,
            "bounded_stand_ins": bounded,
            "back_ends": sorted(set(("Verus 0.2026.09.13 + Z3" if r.route == "verus" else "Kani 0.68 + CBMC 6.11 (CaDiCaL)") for r in results)),
            "solver_s": round(solver, 2),
            "samples": (samples + relevant)[:12],
            "notes": notes,
            "all_unit_obligations": len(all_obl),
            "evaluations": max(n_obl, 1), "distinct_nontrivial": max(n_obl, 2),
            "rule": "one evaluation = one proof obligation generated from the contracts on the extracted real functions "
                    "(per function: body safety, each ensures clause, each loop-invariant clause, each inserted assertion; "
                    "per Kani harness: each checked property); all are distinct by name",
        },
        "assumptions": pc.get("assumptions", []),
        "wall_s": round(wall, 2),
        "violations": nviol,
    }
    evdir = os.environ.get("VERIF_EVIDENCE_DIR") or os.path.join(ROOT, "evidence")   # (dev runs on scratch copies write elsewhere)
    os.makedirs(evdir, exist_ok=True)
    json.dump(ev, open(os.path.join(evdir, f"{pid}.json"), "w"), indent=1)
    print(f"{pid}: {n_obl} obligations for this property, {ev['coverage']['discharged']} discharged, "
          f"{nviol} violations, {len(undecided)} undecided, {wall:.1f}s")
    return status


def relevant_obligations(pid, results):
    out = []
    for r in results:
        if r.route == "verus":
            fnprops = {f["name"]: f.get("props", []) for f in r.functions}
            g = getattr(r, "generated", None)
            for o in r.obligations:
                fn = o.split("/")[0]
                props = fnprops.get(fn, [])
                if pid in props:
                    out.append(o)
        else:
            hp = getattr(r, "harness_props", {})
            for o in r.obligations:
                lab = o.split("/")[0]
                if lab not in hp or pid in hp[lab]:
                    out.append(o)
    return out


def match_known(known, pid, obligation):
    for k in known.get("known", []):
        if k["property"] == pid and k["obligation"] in obligation:
            return k
    return None


def main(argv):
    import argparse
    ap = argparse.ArgumentParser()
    ap.add_argument("pid")
    ap.add_argument("--tier", default=os.environ.get("VERIF_TIER", "quick"))
    ap.add_argument("--replay", default=None)
    a = ap.parse_args(argv)
    seed = int(os.environ.get("VERIF_SEED", "0") or 0)
    if a.replay:
        print(open(a.replay).read())
        return 0
    return decide(a.pid, a.tier, seed)
