"""Minimal Rust tokenizer + item extractor used to copy real function text out of /repo.

Nothing here interprets Rust semantics.  It finds items by *path* (impl header / fn name), copies
the token text verbatim and applies the declared, purely syntactic rewrite rules (DESIGN.md §3.1).
Every rule that fires is recorded so the evidence can state exactly what was dropped.
"""
import re


class ExtractError(Exception):
    """anchor lost / rule refused: an infrastructure answer (exit 2), never a violation"""


# ------------------------------------------------------------------ tokenizer
class Tok:
    __slots__ = ("kind", "text", "pos", "end")

    def __init__(self, kind, text, pos):
        self.kind, self.text, self.pos, self.end = kind, text, pos, pos + len(text)

    def __repr__(self):
        return f"{self.kind}:{self.text!r}"


_ident = re.compile(r"[A-Za-z_][A-Za-z0-9_]*")
_num = re.compile(r"[0-9][0-9A-Za-z_]*(\.[0-9][0-9A-Za-z_]*)?")
_ws = re.compile(r"\s+")
_raw = re.compile(r'b?r(#*)"')
PUNCT3 = ("<<=", ">>=", "...", "..=")
PUNCT2 = ("::", "->", "=>", "==", "!=", "<=", ">=", "&&", "||", "+=", "-=", "*=", "/=", "%=", "^=",
          "&=", "|=", "<<", ">>", "..")


def tokenize(src):
    """returns list of Tok; kinds: ws, comment, ident, num, str, char, lifetime, punct"""
    out = []
    i, n = 0, len(src)
    while i < n:
        c = src[i]
        m = _ws.match(src, i)
        if m:
            out.append(Tok("ws", m.group(), i)); i = m.end(); continue
        if src.startswith("//", i):
            j = src.find("\n", i)
            j = n if j < 0 else j
            out.append(Tok("comment", src[i:j], i)); i = j; continue
        if src.startswith("/*", i):
            depth, j = 1, i + 2
            while j < n and depth:
                if src.startswith("/*", j): depth += 1; j += 2
                elif src.startswith("*/", j): depth -= 1; j += 2
                else: j += 1
            out.append(Tok("comment", src[i:j], i)); i = j; continue
        m = _raw.match(src, i)
        if m:
            close = '"' + m.group(1)
            j = src.find(close, m.end())
            if j < 0: raise ExtractError("unterminated raw string")
            j += len(close)
            out.append(Tok("str", src[i:j], i)); i = j; continue
        if c == '"' or (c == 'b' and i + 1 < n and src[i + 1] == '"'):
            j = i + (2 if c == 'b' else 1)
            while j < n and src[j] != '"':
                j += 2 if src[j] == '\\' else 1
            j += 1
            out.append(Tok("str", src[i:j], i)); i = j; continue
        if c == "'" or (c == 'b' and i + 1 < n and src[i + 1] == "'"):
            k = i + (1 if c == 'b' else 0)
            # char literal or lifetime
            if k + 2 < n and src[k + 1] == '\\':
                j = src.find("'", k + 3)
                if src[k + 2] == "'": j = src.find("'", k + 3)
                j += 1
                out.append(Tok("char", src[i:j], i)); i = j; continue
            if k + 2 < n and src[k + 2] == "'":
                out.append(Tok("char", src[i:k + 3], i)); i = k + 3; continue
            # multi-byte char literal e.g. 'é'
            m2 = re.compile(r"'[^'\\\n]'").match(src, k)
            if m2:
                out.append(Tok("char", src[i:m2.end()], i)); i = m2.end(); continue
            m2 = _ident.match(src, k + 1)
            if m2:
                out.append(Tok("lifetime", src[i:m2.end()], i)); i = m2.end(); continue
            raise ExtractError(f"bad quote at {i}")
        m = _ident.match(src, i)
        if m:
            out.append(Tok("ident", m.group(), i)); i = m.end(); continue
        m = _num.match(src, i)
        if m:
            out.append(Tok("num", m.group(), i)); i = m.end(); continue
        for p in PUNCT3:
            if src.startswith(p, i):
                out.append(Tok("punct", p, i)); i += 3; break
        else:
            for p in PUNCT2:
                if src.startswith(p, i):
                    out.append(Tok("punct", p, i)); i += 2; break
            else:
                out.append(Tok("punct", c, i)); i += 1
    return out


OPEN = {"(": ")", "[": "]", "{": "}"}
CLOSE = {")", "]", "}"}


def sig(toks):
    """significant tokens (no ws/comments)"""
    return [t for t in toks if t.kind not in ("ws", "comment")]


def match_close(toks, i):
    """toks[i] is an opening bracket; return index of the matching close (over the same list)"""
    depth = 0
    for j in range(i, len(toks)):
        t = toks[j]
        if t.kind == "punct":
            if t.text in OPEN: depth += 1
            elif t.text in CLOSE:
                depth -= 1
                if depth == 0: return j
    raise ExtractError("unbalanced brackets")


def norm(text):
    """whitespace-insensitive normal form of a piece of Rust text"""
    return " ".join(t.text for t in sig(tokenize(text)))


# ------------------------------------------------------------------ item location
class Item:
    def __init__(self, src, toks, start, body_open, body_close, header, attrs=()):
        self.src, self.toks = src, toks
        self.attrs = list(attrs)
        self.start, self.body_open, self.body_close = start, body_open, body_close
        self.header = header  # normalised header text (without attributes)

    @property
    def text(self):
        return self.src[self.toks[self.start].pos:self.toks[self.body_close].end]

    @property
    def sig_text(self):
        return self.src[self.toks[self.start].pos:self.toks[self.body_open].pos].rstrip()

    @property
    def body_text(self):  # including braces
        return self.src[self.toks[self.body_open].pos:self.toks[self.body_close].end]


def _items_in(src, toks, lo, hi):
    """yield Item for every `fn`/`impl`/`mod`/`struct`/`enum`/`trait` with a brace body among sig toks[lo:hi]
    (one nesting level)."""
    i = lo
    pending = []
    while i < hi:
        t = toks[i]
        if t.kind == "punct" and t.text == "#" and i + 1 < hi and toks[i + 1].text in ("[", "!"):
            k = i + 1 if toks[i + 1].text == "[" else i + 2
            e = match_close(toks, k)
            pending.append(" ".join(x.text for x in toks[k + 1:e]))
            i = e + 1
            continue
        if t.kind == "ident" and t.text in ("fn", "impl", "mod", "struct", "enum", "trait", "union"):
            # walk back over qualifiers belonging to this item
            start = i
            while start - 1 >= lo and toks[start - 1].kind in ("ident", "str") and toks[start - 1].text in (
                    "pub", "const", "unsafe", "async", "extern", "default") or (
                    start - 1 >= lo and toks[start - 1].text == ")" and _is_pub_restr(toks, start - 1)):
                if toks[start - 1].text == ")":
                    # pub(crate)
                    j = start - 1
                    while toks[j].text != "(": j -= 1
                    start = j - 1
                else:
                    start -= 1
            # find body brace or ';'
            j = i + 1
            depth_angle = 0
            while j < hi:
                tj = toks[j]
                if tj.kind == "punct" and tj.text in ("(", "["):
                    j = match_close(toks, j) + 1; continue
                if tj.kind == "punct" and tj.text == "{":
                    break
                if tj.kind == "punct" and tj.text == ";":
                    break
                j += 1
            if j >= hi:
                return
            if toks[j].text == ";":
                i = j + 1; pending = []; continue
            close = match_close(toks, j)
            header = " ".join(x.text for x in toks[i:j])
            yield Item(src, toks, start, j, close, header, pending)
            pending = []
            i = close + 1
            continue
        if t.kind == "punct" and t.text in OPEN:
            i = match_close(toks, i) + 1
            continue
        if t.kind == "punct" and t.text == ";":
            pending = []
        i += 1


def _is_pub_restr(toks, close_idx):
    j = close_idx
    while j >= 0 and toks[j].text != "(": j -= 1
    return j >= 1 and toks[j - 1].text == "pub"


class Source:
    def __init__(self, path, text=None):
        self.path = path
        self.src = open(path).read() if text is None else text
        self.toks = sig(tokenize(self.src))

    def find(self, item_path):
        """item_path: 'impl Accept / fn send_connection' or 'fn connection_error' or
        'mod tests / fn x'.  Headers are compared in whitespace-normalised form; for `fn` only the
        name is compared."""
        parts = [p.strip() for p in item_path.split("/")]
        lo, hi = 0, len(self.toks)
        item = None
        if parts and parts[0].startswith("macro_rules!"):
            # items generated by a macro_rules! definition: `macro_rules! NAME / impl .. / fn ..` looks inside the
            # repetition group `$( .. )+` (or the whole body) of the macro's first arm; metavariables stay as written
            # (`$len`) and are bound by the unit (`macro_vars=`)
            name = parts[0].split("!", 1)[1].strip()
            T = self.toks
            mo = None
            for i in range(len(T) - 3):
                if T[i].text == "macro_rules" and T[i + 1].text == "!" and T[i + 2].text == name and T[i + 3].text in OPEN:
                    mo = i + 3; break
            if mo is None:
                raise ExtractError(f"anchor lost: {self.path} :: macro_rules! {name}")
            mc = match_close(T, mo)
            j = mo + 1
            while j < mc and T[j].text != "=>":
                j = match_close(T, j) + 1 if T[j].text in OPEN else j + 1
            while j < mc and T[j].text not in OPEN:
                j += 1
            if j >= mc:
                raise ExtractError(f"anchor lost: {self.path} :: macro_rules! {name} (no arm body)")
            lo, hi = j + 1, match_close(T, j)
            for k in range(lo, hi - 1):
                if T[k].text == "$" and T[k + 1].text == "(":
                    lo, hi = k + 2, match_close(T, k + 1); break
            parts = parts[1:]
        for depth, part in enumerate(parts):
            found = []
            for it in _items_in(self.src, self.toks, lo, hi):
                if _header_matches(it.header, part):
                    found.append(it)
            if len(found) > 1:
                keep = [it for it in found if not any(_foreign_cfg(a) for a in it.attrs)]
                if keep: found = keep
            if not found:
                raise ExtractError(f"anchor lost: {self.path} :: {item_path} (no `{part}`)")
            if len(found) > 1:
                # disambiguate by remaining path
                rest = parts[depth + 1:]
                if rest:
                    ok = []
                    for it in found:
                        try:
                            sub = self._find_in(it, rest)
                            ok.append(sub)
                        except ExtractError:
                            pass
                    if len(ok) == 1:
                        return ok[0]
                raise ExtractError(f"ambiguous anchor: {self.path} :: {item_path} ({len(found)} matches for `{part}`)")
            item = found[0]
            lo, hi = item.body_open + 1, item.body_close
        return item

    def _find_in(self, item, parts):
        lo, hi = item.body_open + 1, item.body_close
        cur = None
        for part in parts:
            found = [it for it in _items_in(self.src, self.toks, lo, hi) if _header_matches(it.header, part)]
            if len(found) != 1:
                raise ExtractError("not unique")
            cur = found[0]
            lo, hi = cur.body_open + 1, cur.body_close
        return cur

    def struct_fields(self, name):
        """field names of `struct name {..}` in order (named-field structs only)"""
        for it in _items_in(self.src, self.toks, 0, len(self.toks)):
            h = it.header.split()
            if h[0] in ("struct",) and h[1] == name:
                return _field_names(self.toks, it.body_open, it.body_close)
        # look inside macro invocations such as pin_project! { struct .. }
        for i, t in enumerate(self.toks):
            if t.kind == "ident" and t.text == "struct" and self.toks[i + 1].text == name:
                j = i + 2
                while self.toks[j].text != "{":
                    if self.toks[j].text in ("(", "["): j = match_close(self.toks, j)
                    j += 1
                return _field_names(self.toks, j, match_close(self.toks, j))
        raise ExtractError(f"anchor lost: struct {name} in {self.path}")

    def derives(self, name):
        """identifiers inside #[derive(..)] attributes directly preceding struct/enum `name`"""
        ds = []
        toks = self.toks
        for i, t in enumerate(toks):
            if t.kind == "ident" and t.text in ("struct", "enum") and toks[i + 1].text == name:
                j = i - 1
                while j >= 0 and toks[j].text in ("pub", ")", "crate", "super", "("):
                    j -= 1
                while j >= 0 and toks[j].text == "]":
                    k = j
                    depth = 0
                    while True:
                        if toks[k].text == "]": depth += 1
                        if toks[k].text == "[": depth -= 1
                        if depth == 0: break
                        k -= 1
                    seg = toks[k:j + 1]
                    if len(seg) > 2 and seg[1].text == "derive":
                        ds += [x.text for x in seg[2:] if x.kind == "ident"]
                    j = k - 2  # skip '#'
                return ds
        raise ExtractError(f"anchor lost: type {name} in {self.path}")


def _foreign_cfg(attr):
    a = attr.replace(" ", "")
    return a in ('cfg(target_os="windows")', 'cfg(windows)') or ("io-uring" in a and not a.startswith("cfg(not("))


def _field_names(toks, bo, bc):
    names = []
    i = bo + 1
    while i < bc:
        t = toks[i]
        if t.text == "#":
            i = match_close(toks, i + 1) + 1; continue
        if t.text == "pub":
            i += 1
            if toks[i].text == "(": i = match_close(toks, i) + 1
            continue
        if t.kind == "ident" and toks[i + 1].text == ":":
            names.append(t.text)
            # skip type up to top-level comma
            j = i + 2
            angle = 0
            while j < bc:
                x = toks[j].text
                if x in OPEN: j = match_close(toks, j) + 1; continue
                if x == "<": angle += 1
                elif x == ">": angle -= 1
                elif x == ">>": angle -= 2
                elif x == "->": pass
                elif x == "," and angle <= 0: break
                j += 1
            i = j + 1
            continue
        i += 1
    return names


def _header_matches(header, want):
    h = header.split()
    w = norm(want).split()
    if w[0] == "fn":
        return h[0] == "fn" and len(h) > 1 and h[1] == w[1]
    if w[0] in ("mod", "struct", "enum", "trait"):
        return h[0] == w[0] and h[1] == w[1]
    # impl: compare whole normalised header, but allow the caller to omit generics bounds / where
    if h[0] != "impl":
        return False
    hs, ws = " ".join(h), " ".join(w)
    if hs == ws:
        return True
    # strip a where clause from the real header
    if " where " in hs and hs.split(" where ")[0] == ws:
        return True
    return False


# ------------------------------------------------------------------ rewrite rules on a token stream
LOG_MACROS = {"trace", "debug", "info", "warn", "error"}
DROP_ATTRS = {"inline", "allow", "track_caller", "must_use", "doc"}


def full_tokens(text):
    return tokenize(text)


def _next_sig(toks, i):
    j = i
    while j < len(toks) and toks[j].kind in ("ws", "comment"):
        j += 1
    return j


def _prev_sig(toks, i):
    j = i
    while j >= 0 and toks[j].kind in ("ws", "comment"):
        j -= 1
    return j


def rewrite_body(text, rules_log, intended_panics=False, keep_asserts=False, runtime_asserts=False):
    """apply R1, R2, R5, R10 to the text of a fn body (with braces).  Returns new text."""
    toks = full_tokens(text)
    out = []
    i = 0
    n = len(toks)
    while i < n:
        t = toks[i]
        # R2: attributes inside bodies
        if t.kind == "punct" and t.text == "#":
            j = _next_sig(toks, i + 1)
            if j < n and toks[j].text == "[":
                k = match_close(toks, j)
                name = toks[_next_sig(toks, j + 1)].text
                if name in DROP_ATTRS:
                    rules_log.append(("R2", "".join(x.text for x in toks[i:k + 1])))
                    i = k + 1
                    continue
                if name == "cfg":
                    atxt = norm("".join(x.text for x in toks[i:k + 1])).replace(" ", "")
                    if atxt in ("#[cfg(unix)]", '#[cfg(not(target_os="windows"))]', "#[cfg(not(windows))]", '#[cfg(target_os="linux")]'):
                        rules_log.append(("R2", atxt + " dropped (platform: Linux)"))
                        i = k + 1
                        continue
                    if atxt in ('#[cfg(not(all(target_os="linux",feature="io-uring")))]', '#[cfg(not(feature="io-uring"))]'):
                        rules_log.append(("R2", atxt + " kept (feature io-uring is off in the verified configuration)"))
                        i = k + 1
                        continue
                    if atxt in ("#[cfg(not(unix))]", "#[cfg(windows)]", '#[cfg(target_os="windows")]', '#[cfg(not(target_os="linux"))]',
                                '#[cfg(all(target_os="linux",feature="io-uring"))]', '#[cfg(feature="io-uring")]'):
                        # the item/block/statement this attribute guards does not exist on Linux: dropped with it
                        nx = _next_sig(toks, k + 1)
                        if nx < n and toks[nx].text == "{":
                            endb = match_close(toks, nx)
                            rules_log.append(("R2", atxt + " { .. } dropped (not in the verified configuration)"))
                            i = endb + 1
                            continue
                        if nx < n and toks[nx].kind == "ident" and toks[nx].text == "let":
                            # a guarded `let .. ;` statement: dropped up to its `;`
                            j2 = nx
                            while j2 < n:
                                if toks[j2].kind == "punct" and toks[j2].text in OPEN:
                                    j2 = match_close(toks, j2) + 1; continue
                                if toks[j2].kind == "punct" and toks[j2].text == ";":
                                    break
                                j2 += 1
                            rules_log.append(("R2", atxt + " let ..; dropped (not in the verified configuration)"))
                            i = j2 + 1
                            continue
                    raise ExtractError("cfg attribute inside extracted body: " + "".join(x.text for x in toks[i:k + 1]))
        # macro calls
        if t.kind == "ident":
            j = _next_sig(toks, i + 1)
            if j < n and toks[j].text == "!" :
                k = _next_sig(toks, j + 1)
                if k < n and toks[k].text in ("(", "[", "{"):
                    close = match_close(toks, k)
                    name = t.text
                    # allow `tracing::trace!`
                    path_start = len(out)
                    p = _prev_sig(toks, i - 1)
                    is_tracing_path = p >= 1 and toks[p].text == "::" and toks[_prev_sig(toks, p - 1)].text in ("tracing", "log")
                    if name in LOG_MACROS:
                        args = toks[k + 1:close]
                        _check_log_args(args)
                        if is_tracing_path:
                            # drop already emitted `tracing ::`
                            while out and out[-1].kind in ("ws", "comment"): out.pop()
                            out.pop()  # ::
                            while out and out[-1].kind in ("ws", "comment"): out.pop()
                            out.pop()  # tracing
                        e = _next_sig(toks, close + 1)
                        macro_text = "".join(x.text for x in toks[i:close + 1])
                        rules_log.append(("R1", norm(macro_text)))
                        prev = _prev_sig(toks, i - 1)
                        prevtxt = toks[prev].text if prev >= 0 else "{"
                        if is_tracing_path:
                            pp = _prev_sig(toks, _prev_sig(toks, p - 1) - 1)
                            prevtxt = toks[pp].text if pp >= 0 else "{"
                        if e < n and toks[e].text == ";" and prevtxt in ("{", "}", ";"):
                            i = e + 1          # statement: drop with its semicolon
                        else:
                            out.append(Tok("punct", "()", t.pos))   # expression position (match arm)
                            i = close + 1
                        continue
                    if runtime_asserts and name in ("assert", "assert_eq", "assert_ne"):
                        # R5e: a release-mode assertion whose panic is DOCUMENTED behaviour of the function: it is a
                        # run-time check (`if !(c) { panic }`), so what follows it may rely on the condition — and
                        # deleting it is visible to a postcondition that needs it
                        args = toks[k + 1:close]
                        if name == "assert":
                            ctext = "".join(x.text for x in _first_arg(args))
                        else:
                            a_, rest_ = _split_first(args)
                            b_ = _first_arg(rest_)
                            ctext = "(" + "".join(x.text for x in a_) + ") " + ("!=" if name == "assert_ne" else "==") + " (" + "".join(x.text for x in b_) + ")"
                        rules_log.append(("R5e", norm("".join(x.text for x in toks[i:close + 1])) + " -> run-time check with an intended panic"))
                        out.append(Tok("ident", "if !(" + ctext + ") { vpanic_intended(); }", t.pos))
                        i = close + 1
                        e2 = _next_sig(toks, i)
                        continue
                    if name in ("assert", "debug_assert") and not keep_asserts:
                        args = toks[k + 1:close]
                        cond = _first_arg(args)
                        rules_log.append(("R5", norm("".join(x.text for x in toks[i:close + 1]))))
                        out.append(Tok("ident", "{ let r5_c: bool = ", t.pos))
                        out.extend(cond)
                        out.append(Tok("punct", "; assert(r5_c); }", t.pos))
                        i = close + 1
                        continue
                    if name in ("assert_eq", "assert_ne", "debug_assert_eq") and not keep_asserts:
                        args = toks[k + 1:close]
                        a, rest = _split_first(args)
                        b = _first_arg(rest)
                        rules_log.append(("R5", norm("".join(x.text for x in toks[i:close + 1]))))
                        op = "!=" if name == "assert_ne" else "=="
                        out.append(Tok("ident", "{ let r5_a = &(", t.pos)); out.extend(a)
                        out.append(Tok("punct", "); let r5_b = &(", t.pos)); out.extend(b)
                        out.append(Tok("punct", "); assert(*r5_a " + op + " *r5_b); }", t.pos))
                        i = close + 1
                        continue
                    if name == "format":
                        # R17: `format!(..)` -> an opaque String (arguments must be effect-free, as for logging macros)
                        _check_log_args(toks[k + 1:close])
                        rules_log.append(("R17", norm("".join(x.text for x in toks[i:close + 1]))[:160] + " -> vfmt_string()"))
                        out.append(Tok("ident", "vfmt_string()", t.pos))
                        i = close + 1
                        continue
                    if name in ("panic", "unreachable", "unimplemented", "todo"):
                        rules_log.append(("R5", norm("".join(x.text for x in toks[i:close + 1]))))
                        fn = "vpanic_intended" if intended_panics else "vpanic"
                        out.append(Tok("ident", fn + "()", t.pos))
                        i = close + 1
                        continue
        # R5d: a zero-arm `match x {}` (x of an uninhabited type) -> `vabsurd(x)`: Verus has no zero-arm match; the call
        # is never reached at run time and nothing is assumed about its result
        if t.kind == "ident" and t.text == "match":
            j = _next_sig(toks, i + 1)
            if j < n and toks[j].kind == "ident":
                j2 = _next_sig(toks, j + 1)
                if j2 < n and toks[j2].text == "{":
                    j3 = _next_sig(toks, j2 + 1)
                    if j3 < n and toks[j3].text == "}":
                        rules_log.append(("R5d", f"match {toks[j].text} {{}} -> vabsurd({toks[j].text})"))
                        out.append(Tok("ident", f"vabsurd({toks[j].text})", t.pos))
                        i = j3 + 1
                        continue
        # R5c: `.unwrap_or_else(|_| { panic!(..) })`  ->  `.vunwrap_or_panic()` (unwrap with a custom panic message)
        if t.kind == "ident" and t.text == "unwrap_or_else":
            j = _next_sig(toks, i + 1)
            if j < n and toks[j].text == "(":
                close = match_close(toks, j)
                inner = [x for x in toks[j + 1:close] if x.kind not in ("ws", "comment")]
                txt = [x.text for x in inner]
                if len(txt) >= 6 and txt[0] == "|" and txt[2] == "|":
                    rest = txt[3:]
                    if rest and rest[0] == "{" and rest[-1] == "}":
                        rest = rest[1:-1]
                    if len(rest) >= 3 and rest[0] in ("panic", "unreachable") and rest[1] == "!" and rest[-1] in (")", "]", "}", ";"):
                        # make sure the macro call spans the whole rest
                        rules_log.append(("R5c", norm("".join(x.text for x in toks[i:close + 1]))[:200] + "  =>  vunwrap_or_panic()"))
                        out.append(Tok("ident", "vunwrap_or_panic()" if intended_panics else "vunwrap_or_vpanic()", t.pos))
                        i = close + 1
                        continue
        # R14: a datatype constructor used as a function value, `.map(Some)` -> eta-expanded closure with its spec
        if t.kind == "ident" and t.text in ("map", "map_err", "map_ok") and _prev_sig(toks, i - 1) >= 0 and toks[_prev_sig(toks, i - 1)].text == ".":
            j = _next_sig(toks, i + 1)
            if j < n and toks[j].text == "(":
                close = match_close(toks, j)
                inner = [x for x in toks[j + 1:close] if x.kind not in ("ws", "comment")]
                if len(inner) == 3 and inner[1].text == "::" and inner[0].kind == "ident" and inner[2].kind == "ident" \
                        and inner[2].text[:1].isupper() and inner[0].text[:1].isupper():
                    # an enum variant constructor path, `.map_err(ConnectError::Resolver)`
                    c = inner[0].text + "::" + inner[2].text
                    rules_log.append(("R14", f".{t.text}({c}) -> .{t.text}(|v| {c}(v)) with `ensures o == {c}(v)`"))
                    out.append(Tok("ident", f"{t.text}(|v| -> (o: _) ensures (o matches {c}(r14_w) && r14_w == v) {{ {c}(v) }})", t.pos))
                    i = close + 1
                    continue
                if len(inner) == 1 and inner[0].text in ("Some", "Ok", "Err"):
                    c = inner[0].text
                    ty = "Option<_>" if c == "Some" else "Result<_, _>"
                    rules_log.append(("R14", f".{t.text}({c}) -> .{t.text}(|v| {c}(v)) with `ensures o == {c}(v)`"))
                    out.append(Tok("ident", f"{t.text}(|v| -> (o: {ty}) ensures o == {c}(v) {{ {c}(v) }})", t.pos))
                    i = close + 1
                    continue
        # R11b: an `async [move] { .. }` block is NOT verified: it is replaced by an opaque future constructor
        if t.kind == "ident" and t.text == "async":
            j = _next_sig(toks, i + 1)
            if j < n and toks[j].text == "move":
                j = _next_sig(toks, j + 1)
            if j < n and toks[j].text == "{":
                close = match_close(toks, j)
                rules_log.append(("R11b", "async block (%d tokens) replaced by vasync_block(): its body is not verified" % (close - j)))
                out.append(Tok("ident", "vasync_block()", t.pos))
                i = close + 1
                continue
        # R10: closure parameter `_`
        if t.kind == "punct" and t.text == "|":
            j = _next_sig(toks, i + 1)
            k = _next_sig(toks, j + 1) if j < n else n
            if j < n and toks[j].text == "_" and k < n and toks[k].text == "|":
                # only when this starts a closure: previous sig token is one of ( , = or `move`
                p = _prev_sig(toks, i - 1)
                if p >= 0 and toks[p].text in ("(", ",", "=", "move"):
                    rules_log.append(("R10", "|_| -> |_unused|"))
                    out.append(t); out.append(Tok("ident", "_unused", toks[j].pos)); out.append(toks[k])
                    i = k + 1
                    continue
        out.append(t)
        i += 1
    return "".join(x.text for x in out)


_SAFE_CALLS = {"local_addr", "name", "len", "kind", "display", "idx", "token", "hostname", "peer_addr", "port", "as_ref", "unwrap", "addrs",
               "id", "is_empty", "total", "to_string", "clone", "as_str", "get", "elapsed", "capacity"}


def _check_log_args(args):
    s = sig(args)
    for idx, t in enumerate(s):
        if t.text in ("=", "+=", "-=", "?") or (t.kind == "ident" and t.text == "await"):
            # `key = value` fields of tracing macros are permitted only as `ident = expr` at top level
            if t.text == "=":
                continue
            raise ExtractError("R1 refused: logging macro argument has an effect: " + " ".join(x.text for x in s))
        if t.kind == "ident" and idx + 1 < len(s) and s[idx + 1].text == "(" and idx > 0 and s[idx - 1].text == ".":
            if t.text not in _SAFE_CALLS:
                raise ExtractError(f"R1 refused: call `{t.text}` in logging macro is not on the allow-list")


def _split_first(args):
    depth = 0
    for i, t in enumerate(args):
        if t.kind == "punct":
            if t.text in OPEN: depth += 1
            elif t.text in CLOSE: depth -= 1
            elif t.text == "," and depth == 0:
                return args[:i], args[i + 1:]
    return args, []


def _first_arg(args):
    a, _ = _split_first(args)
    return a


def loop_positions(text):
    """indices (into full token list) of the `{` that opens the body of each loop, in source order"""
    toks = full_tokens(text)
    res = []
    for i, t in enumerate(toks):
        if t.kind == "ident" and t.text in ("loop", "while", "for"):
            if t.text == "for":
                # skip `for<'a>` HRTB and `impl X for Y`
                j = _next_sig(toks, i + 1)
                if toks[j].text == "<":
                    continue
            j = i + 1
            while j < len(toks):
                tj = toks[j]
                if tj.kind == "punct" and tj.text in ("(", "["):
                    j = match_close(toks, j) + 1; continue
                if tj.kind == "punct" and tj.text == "{":
                    break
                j += 1
            res.append((i, j))
    return toks, res


def insert_loop_specs(text, specs, fn_name):
    """specs: {key: spec text}; key = 1-based ordinal (int) or ('head', 'token pattern of the loop header', optional).
    Inserted before the loop body's `{`."""
    if not specs:
        return text
    toks, pos = loop_positions(text)
    ins = {}
    for n in specs:
        if isinstance(n, int):
            if n < 1 or n > len(pos):
                raise ExtractError(f"anchor lost: loop {n} of {fn_name} (function has {len(pos)} loops)")
            ins[pos[n - 1][1]] = specs[n]
        else:
            _, head, optional = n[:3]
            alt = n[3] if len(n) > 3 else None
            hits = []
            for h in ([head] + ([alt] if alt else [])):
                pat = [t.text for t in sig(tokenize(h))]
                for (kw, brace) in pos:
                    hdr = [t.text for t in toks[kw:brace] if t.kind not in ("ws", "comment")]
                    if hdr[:len(pat)] == pat:
                        hits.append(brace)
                if hits:
                    break
            if len(hits) == 0 and optional:
                continue
            if len(hits) != 1:
                raise ExtractError(f"anchor lost: loop `{head}` of {fn_name} ({len(hits)} matches)")
            ins[hits[0]] = specs[n]
    out = []
    for i, t in enumerate(toks):
        if i in ins:
            out.append("\n" + ins[i].rstrip() + "\n")
        out.append(t.text)
    return "".join(out)


def _last_stmt_start(toks, bo, bc):
    """index of the first token of the last top-level statement/expression inside block toks[bo..bc]"""
    starts = []
    i = bo + 1
    cur = None
    block_like = False
    while i < bc:
        t = toks[i]
        if t.kind in ("ws", "comment"):
            i += 1; continue
        if cur is None:
            cur = i
            starts.append(i)
            block_like = t.text in ("if", "while", "loop", "for", "match", "{", "unsafe", "proof")
        if t.kind == "punct" and t.text in OPEN:
            j = match_close(toks, i)
            if t.text == "{" and block_like:
                k = _next_sig(toks, j + 1)
                if k < bc and toks[k].text == "else":
                    i = k + 1; continue
                if k < bc and toks[k].text in (".", "?"):
                    block_like = False; i = j + 1; continue
                cur = None
            i = j + 1; continue
        if t.kind == "punct" and t.text == ";":
            cur = None
        i += 1
    if not starts:
        raise ExtractError("empty arm")
    return starts[-1]


def insert_after_pattern(text, pattern, insertion, fn_name, before=False, nth=1, arm_end=False, arm_last=False, arm_start=False, block_end_of=False, after_block_of=False):
    """insert `insertion` right after (or before) the nth occurrence of the token sequence `pattern`
    (whitespace-insensitive).  arm_end: insert before the `}` closing the first `{` that follows the pattern.
    Used for ghost snapshots and arm-end assertions (R6)."""
    toks = full_tokens(text)
    s_idx = [i for i, t in enumerate(toks) if t.kind not in ("ws", "comment")]
    pat = [t.text for t in sig(tokenize(pattern))]
    seen = 0
    for a in range(len(s_idx) - len(pat) + 1):
        if all(toks[s_idx[a + b]].text == pat[b] for b in range(len(pat))):
            seen += 1
            if seen != nth:
                continue
            if arm_start:
                # right after the `{` that opens the first block following the pattern (the arm's body, whatever
                # surrounds the pattern: `P => {` and `Some(P) => {` alike)
                j = s_idx[a + len(pat) - 1] + 1
                while j < len(toks) and toks[j].text != "{":
                    j += 1
                if j >= len(toks):
                    break
                at = j + 1
            elif arm_last:
                j = s_idx[a + len(pat) - 1] + 1
                while j < len(toks) and toks[j].text != "{":
                    j += 1
                if j >= len(toks):
                    break
                at = _last_stmt_start(toks, j, match_close(toks, j))
            elif after_block_of:
                # right AFTER the statement formed by the innermost block that contains the pattern (an `if c { .. PATTERN .. }`
                # including its `else` chain): a ghost assertion placed there is reached whether or not the block ran
                j = s_idx[a] - 1; d = 0
                while j >= 0:
                    x = toks[j]
                    if x.kind == "punct" and x.text in CLOSE: d += 1
                    elif x.kind == "punct" and x.text in OPEN:
                        if d == 0: break
                        d -= 1
                    j -= 1
                if j < 0 or toks[j].text != "{":
                    break
                # is that block a branch of an `if`?  (walk back over the condition)
                kk = j - 1; dd = 0; is_if = False
                while kk >= 0:
                    x = toks[kk]
                    if x.kind == "punct" and x.text in CLOSE: dd += 1
                    elif x.kind == "punct" and x.text in OPEN:
                        if dd == 0: break
                        dd -= 1
                    elif dd == 0 and x.kind == "punct" and x.text in (";", "=>", ","): break
                    elif dd == 0 and x.kind == "ident" and x.text in ("if", "else"):
                        is_if = True; break
                    elif dd == 0 and x.kind == "ident" and x.text in ("match", "while", "loop", "for"): break
                    kk -= 1
                if not is_if:
                    # the statement sits directly in an arm / loop / function body: right after the statement itself
                    at = s_idx[a + len(pat) - 1] + 1
                    return "".join(t.text for t in toks[:at]) + insertion + "".join(t.text for t in toks[at:])
                e = match_close(toks, j)
                while True:
                    n1 = _next_sig(toks, e + 1)
                    if n1 < len(toks) and toks[n1].text == "else":
                        n2 = _next_sig(toks, n1 + 1)
                        while n2 < len(toks) and toks[n2].text != "{":
                            if toks[n2].text in OPEN:
                                n2 = match_close(toks, n2)
                            n2 = _next_sig(toks, n2 + 1)
                        if n2 >= len(toks):
                            break
                        e = match_close(toks, n2)
                        continue
                    break
                at = e + 1
            elif arm_end or block_end_of:
                if block_end_of:
                    # the innermost block that CONTAINS the pattern (however the `else` / arm around it is spelled)
                    j = s_idx[a] - 1; d = 0
                    while j >= 0:
                        x = toks[j]
                        if x.kind == "punct" and x.text in CLOSE: d += 1
                        elif x.kind == "punct" and x.text in OPEN:
                            if d == 0: break
                            d -= 1
                        j -= 1
                    if j < 0 or toks[j].text != "{":
                        break
                else:
                    j = s_idx[a + len(pat) - 1] + 1
                    while j < len(toks) and toks[j].text != "{":
                        j += 1
                if j >= len(toks):
                    break
                at = match_close(toks, j)
                # the insertion point must be reachable: the block must not end in return/break/continue
                k = at - 1
                while k > j and toks[k].kind in ("ws", "comment"): k -= 1
                if toks[k].text == ";":
                    # walk back to the start of the last statement at this depth
                    d = 0; m = k - 1
                    while m > j:
                        x = toks[m]
                        if x.kind == "punct" and x.text in CLOSE: d += 1
                        elif x.kind == "punct" and x.text in OPEN: d -= 1
                        elif d == 0 and x.text == ";": break
                        m -= 1
                    first = toks[_next_sig(toks, m + 1)]
                    if first.text in ("return", "break", "continue"):
                        raise ExtractError(f"insertion point after `{first.text}` is unreachable: `{pattern}` in {fn_name}")
            else:
                at = s_idx[a] if before else s_idx[a + len(pat) - 1] + 1
                if before:
                    # a ghost block cannot sit in the middle of a statement (`let x = <here> f(..)?;`): back up to the
                    # start of the statement the pattern is part of (the previous `;`, `{` or `}` at the same depth)
                    d = 0; m = a - 1
                    while m >= 0:
                        x = toks[s_idx[m]]
                        if x.kind == "punct" and x.text in CLOSE:
                            if d == 0 and x.text == "}": break
                            d += 1
                        elif x.kind == "punct" and x.text in OPEN:
                            if d == 0: break
                            d -= 1
                        elif d == 0 and x.text in (";", "=>"): break
                        m -= 1
                    at = s_idx[m + 1]
            return "".join(t.text for t in toks[:at]) + insertion + "".join(t.text for t in toks[at:])
    raise ExtractError(f"anchor lost: pattern `{pattern}` (occurrence {nth}) in {fn_name}")


def replace_pattern(text, pattern, replacement, fn_name, count=1):
    toks = full_tokens(text)
    s_idx = [i for i, t in enumerate(toks) if t.kind not in ("ws", "comment")]
    pat = [t.text for t in sig(tokenize(pattern))]
    hits = []
    a = 0
    while a <= len(s_idx) - len(pat):
        if all(toks[s_idx[a + b]].text == pat[b] for b in range(len(pat))):
            hits.append((s_idx[a], s_idx[a + len(pat) - 1] + 1)); a += len(pat)
        else:
            a += 1
    if len(hits) != count:
        raise ExtractError(f"anchor lost: pattern `{pattern}` expected {count}x in {fn_name}, found {len(hits)}")
    out, last = [], 0
    for (s, e) in hits:
        out.append("".join(t.text for t in toks[last:s])); out.append(replacement); last = e
    out.append("".join(t.text for t in toks[last:]))
    return "".join(out)


def rewrite_sig(sigtext, rules_log, ret_name=None):
    """R2 (attributes/doc comments dropped by caller), R3 visibility, R4 receiver, name the return value."""
    toks = full_tokens(sigtext)
    out = []
    i, n = 0, len(toks)
    while i < n:
        t = toks[i]
        if t.kind == "ident" and t.text == "pub":
            j = _next_sig(toks, i + 1)
            if j < n and toks[j].text == "(":
                k = match_close(toks, j)
                rules_log.append(("R3", "".join(x.text for x in toks[i:k + 1]) + " -> pub"))
                out.append(t); i = k + 1; continue
        out.append(t); i += 1
    s = "".join(x.text for x in out)
    # R4 receiver
    m = re.search(r"\b(mut\s+)?self\s*:\s*Pin\s*<\s*&\s*mut\s+Self\s*>", s)
    if m:
        rules_log.append(("R4", norm(m.group()) + " -> &mut self"))
        s = s[:m.start()] + "&mut self" + s[m.end():]
    if ret_name:
        # name the return value:  `-> T` => `-> (r: T)`; where clause (if any) stays behind
        toks = full_tokens(s)
        # find top-level `->` after the parameter list
        st = [i for i, t in enumerate(toks) if t.kind not in ("ws", "comment")]
        depth = 0
        arrow = None
        for i in st:
            x = toks[i].text
            if x in ("(", "["): depth += 1
            elif x in (")", "]"): depth -= 1
            elif x == "->" and depth == 0 and arrow is None:
                arrow = i      # the function's own arrow comes first; later ones belong to `Fn(..) -> T` bounds
        if arrow is not None:
            # return type runs to `where` at angle-depth 0 or to end
            j = arrow + 1
            angle = 0
            end = len(toks)
            while j < len(toks):
                x = toks[j]
                if x.kind == "punct" and x.text in ("(", "["):
                    j = match_close(toks, j) + 1; continue
                if x.text == "<": angle += 1
                elif x.text == "<<": angle += 2
                elif x.text == ">": angle -= 1
                elif x.text == ">>": angle -= 2
                elif x.kind == "ident" and x.text == "where" and angle == 0:
                    end = j; break
                j += 1
            ty = "".join(t.text for t in toks[arrow + 1:end]).strip()
            s = "".join(t.text for t in toks[:arrow + 1]) + f" ({ret_name}: {ty})" + (
                "\n" + "".join(t.text for t in toks[end:]) if end < len(toks) else "")
    return s


def strip_leading_attrs(item):
    """signature text of an Item without leading attributes/doc comments (they precede item.start)"""
    return item.sig_text


# ------------------------------------------------------------------ R9: declared iterator desugarings
# Patterns are token sequences with holes: `$x` matches one identifier, `$$x` matches a balanced, non-empty token
# run (lazy, up to the next literal token at bracket depth 0).  The same hole name must match the same text.
KEYWORDS = {'if','let','while','match','return','in','for','mut','loop','else','move','ref','break','continue','as','fn','impl'}
R9_RULES = [
    ("R9s", "for ( $i , $x ) in $$e . iter ( ) . enumerate ( ) {",
            "let mut r9_n: usize = 0; while r9_n < $$e.len() { let $i = r9_n; let $x = &$$e[$i]; r9_n = r9_n + 1;"),
    ("R9a", "for ( $i , $x ) in $$e . iter_mut ( ) . enumerate ( ) {",
            "let mut r9_n: usize = 0; while r9_n < $$e.len() { let $i = r9_n; let $x = &mut $$e[$i]; r9_n = r9_n + 1;"),
    ("R9c", "$$e . iter_mut ( ) . map ( | $x | ( $$m , $x ) ) . filter ( | ( $t , _ ) | $$c ) . for_each ( | ( _ , $x ) | $$b ) ;",
            "let mut r9_n: usize = 0; while r9_n < $$e.len() { let $x = &mut $$e[r9_n]; r9_n = r9_n + 1; let $t = $$m; if $$c { $$b; } }"),
    ("R9b", "$$e . iter_mut ( ) . filter ( | $x | $$c ) . for_each ( | $x | {",
            "let mut r9_n: usize = 0; while r9_n < $$e.len() { let $x = &mut $$e[r9_n]; r9_n = r9_n + 1; if $$c {", "} ) ;", "} }"),
    ("R9b2", "$$e . iter_mut ( ) . filter ( | $x | $$c ) . for_each ( | $x | $$b ) ;",
            "let mut r9_n: usize = 0; while r9_n < $$e.len() { let $x = &mut $$e[r9_n]; r9_n = r9_n + 1; if $$c { $$b; } }"),
    ("R9d", "$$e . iter_mut ( ) . map ( | $x | $x . $f ) . collect :: < Vec < _ >> ( ) . into_iter ( ) . for_each ( | $y | $$b )",
            "{ let mut r9_v: Vec<usize> = Vec::new(); let mut r9_n: usize = 0; while r9_n < $$e.len() { r9_v.push($$e[r9_n].$f); r9_n = r9_n + 1; } "
            "let mut r9_m: usize = 0; while r9_m < r9_v.len() { let $y = r9_v[r9_m]; r9_m = r9_m + 1; $$b; } }"),
    ("R9e", "$$e . iter_mut ( ) . for_each ( | $x | {",
            "let mut r9_n: usize = 0; while r9_n < $$e.len() { let $x = &mut $$e[r9_n]; r9_n = r9_n + 1; {", "} ) ;", "} }"),
    ("R9l", "$$e . iter ( ) . map ( | $x | $$b ) . collect :: < Vec < _ >> ( )",
            "({ let mut r9_out = Vec::new(); let mut r9_n: usize = 0; while r9_n < $$e.len() { let $x = &$$e[r9_n]; r9_out.push($$b); r9_n = r9_n + 1; } r9_out })"),
    ("R9m", "$$e . iter ( ) . map ( | $x | $$b ) . collect ( )",
            "({ let mut r9_out = Vec::new(); let mut r9_n: usize = 0; while r9_n < $$e.len() { let $x = &$$e[r9_n]; r9_out.push($$b); r9_n = r9_n + 1; } r9_out })"),
    ("R9n", "* $$e . iter_mut ( ) . find ( | $x | $$c ) . unwrap ( ) = $$v ;",
            "{ let r9_v = $$v; let mut r9_k: usize = 0; let mut r9_found = false; while r9_k < $$e.len() && !r9_found { let $x = &$$e[r9_k]; if $$c { r9_found = true; } else { r9_k = r9_k + 1; } } "
            "if !r9_found { vpanic(); } $$e[r9_k] = r9_v; }"),
    ("R9o", "$$e . into_iter ( ) . fold ( $$i , | mut $acc , ( $a , $b , $c ) | {",
            "({ let mut r9_q = $$e; let mut $acc = $$i; while r9_q.len() > 0 { let ($a, $b, $c) = vec_take_first(&mut r9_q); $acc = {", "} )", "}; } $acc })"),
    ("R9p", "$$e . iter ( ) . for_each ( | $x | {",
            "let mut r9_n: usize = 0; while r9_n < $$e.len() { let $x = &$$e[r9_n]; r9_n = r9_n + 1; {", "} )", "} }"),
    ("R9q", "$$e . into_iter ( ) . map ( | $x | $$b ) . collect ( )",
            "({ let mut r9_q = $$e; let mut r9_out = Vec::new(); while r9_q.len() > 0 { let $x = vec_take_first(&mut r9_q); r9_out.push($$b); } r9_out })"),
    ("R9u", "( 0 .. $$n ) . map ( | $i | {",
            "({ let mut r9_a = Vec::new(); let mut r9_b = Vec::new(); let mut $i: usize = 0; while $i < $$n { let r9_item = ({",
            "} ) . collect :: < io :: Result < Vec < _ >> > ( ) ? . into_iter ( ) . unzip ( )",
            "})?; r9_a.push(r9_item.0); r9_b.push(r9_item.1); $i = $i + 1; } (r9_a, r9_b) })"),
    ("R9t", "$$e . into_iter ( ) . map ( | ( $a , mut $b ) | {",
            "({ let mut r9_q = $$e; let mut r9_out = Vec::new(); while r9_q.len() > 0 { let ($a, mut $b) = vec_take_first(&mut r9_q); let r9_item = ({",
            "} ) . collect :: < io :: Result < _ >> ( ) ?", "})?; r9_out.push(r9_item); } r9_out })"),
    ("R9g", "$$e . iter ( ) . any ( | $x | $$c )",
            "({ let mut r9_any = false; let mut r9_k: usize = 0; while r9_k < $$e.len() && !r9_any { let $x = &$$e[r9_k]; if $$c { r9_any = true; } r9_k = r9_k + 1; } r9_any })"),
    ("R9i", "$$e . as_mut ( ) . and_then ( | $x | $x . pop_front ( ) )",
            "(match $$e.as_mut() { Some($x) => $x.pop_front(), None => None })"),
    ("R9h2", "$$e . values ( ) . all ( $$f ) ;",
            "let mut r9_n: usize = 0; let r9_len: usize = $$e.len(); let mut r9_all: bool = true; while r9_n < r9_len && r9_all { let r9_x = $$e.nth_value_mut(r9_n); r9_n = r9_n + 1; r9_all = $$f(r9_x); }"),
    ("R9h", "for $x in $$e . values ( ) {",
            "let mut r9_n: usize = 0; let r9_len: usize = $$e.len(); while r9_n < r9_len { let $x = $$e.nth_value_mut(r9_n); r9_n = r9_n + 1;"),
    ("R9r", "for ( $a , $b ) in $$e . iter_mut ( ) {",
            "let mut r9_n: usize = 0; while r9_n < $$e.len() { let r9_p = &mut $$e[r9_n]; let $a = &r9_p.0; let $b = &mut r9_p.1; r9_n = r9_n + 1;"),
    ("R9v", "for $i in 0 .. $$n {",
            "let mut r9_n: usize = 0; let r9_end: usize = $$n; while r9_n < r9_end { let $i = r9_n; r9_n = r9_n + 1;"),
    ("R9k", "for $x in $$e . iter_mut ( ) {",
            "let mut r9_n: usize = 0; while r9_n < $$e.len() { let $x = &mut $$e[r9_n]; r9_n = r9_n + 1;"),
    ("R9w", "for $x in $$e ? {",
            "let mut r9_q = $$e?; while r9_q.len() > 0 { let $x = vec_take_first(&mut r9_q);"),
    ("R9j", "for $x in $e {",
            "let mut r9_q = $e; while r9_q.len() > 0 { let $x = vec_take_first(&mut r9_q);"),
    ("R9f", "for $x in $$e . iter ( ) {",
            "let mut r9_n: usize = 0; while r9_n < $$e.len() { let $x = &$$e[r9_n]; r9_n = r9_n + 1;"),
]


def _match_pat(toks, sidx, a, pat):
    """try to match pattern token list `pat` at significant index a.  returns (end_sig_index, bindings) or None"""
    binds = {}

    def rec(pi, si):
        if pi == len(pat):
            return si
        p = pat[pi]
        if p.startswith("$$"):
            # lazy balanced run; next literal decides the end
            depth = 0
            j = si
            while j < len(sidx):
                t = toks[sidx[j]]
                if j > si and depth == 0:
                    # try to stop here
                    saved = dict(binds)
                    text = "".join(x.text for x in toks[sidx[si]:sidx[j - 1] + 1])
                    if p not in binds or norm(binds[p]) == norm(text):
                        binds[p] = text
                        r = rec(pi + 1, j)
                        if r is not None:
                            return r
                    binds.clear(); binds.update(saved)
                if p == "$$e" and depth == 0 and not (t.kind == "punct" and t.text in ("(", "[")) and \
                        (not (t.kind == "ident" or t.text in (".", "::")) or t.text in KEYWORDS):
                    return None
                if p == "$$e" and depth == 0 and t.kind == "punct" and t.text in ("(", "[") and j == si:
                    return None      # a receiver expression starts with a name, not with a bracket
                if t.kind == "punct" and t.text in OPEN: depth += 1
                elif t.kind == "punct" and t.text in CLOSE:
                    depth -= 1
                    if depth < 0: return None
                j += 1
            return None
        if si >= len(sidx):
            return None
        t = toks[sidx[si]]
        if p.startswith("$"):
            if t.kind != "ident": return None
            if p in binds and binds[p] != t.text: return None
            had = p in binds
            binds[p] = t.text
            r = rec(pi + 1, si + 1)
            if r is None and not had: del binds[p]
            return r
        if t.text != p:
            return None
        return rec(pi + 1, si + 1)

    end = rec(0, a)
    if end is None:
        return None
    return end, binds


def _subst(tmpl, binds):
    out = tmpl
    for k in sorted(binds, key=len, reverse=True):
        out = out.replace(k, binds[k])
    return out


def apply_r9(text, rules_log):
    changed = True
    guard = 0
    while changed and guard < 20:
        changed = False; guard += 1
        toks = full_tokens(text)
        sidx = [i for i, t in enumerate(toks) if t.kind not in ("ws", "comment")]
        for rule in R9_RULES:
            name, pat, rep = rule[0], rule[1].split(), rule[2]
            for a in range(len(sidx)):
                m = _match_pat(toks, sidx, a, pat)
                if not m:
                    continue
                end, binds = m
                head_start, head_end = sidx[a], sidx[end - 1] + 1
                new_head = _subst(rep, binds)
                if len(rule) == 5:
                    # the head ends with the `{` of a closure/loop body: find its matching `}` and rewrite the tail
                    open_i = sidx[end - 1]
                    close_i = match_close(toks, open_i)
                    tail_pat = rule[3].split()
                    cs = sidx.index(close_i)
                    tail = [toks[sidx[cs + q]].text for q in range(len(tail_pat)) if cs + q < len(sidx)]
                    if tail != tail_pat:
                        continue
                    tail_end = sidx[cs + len(tail_pat) - 1] + 1
                    text = ("".join(t.text for t in toks[:head_start]) + new_head + "".join(t.text for t in toks[head_end:close_i])
                            + _subst(rule[4], binds) + "".join(t.text for t in toks[tail_end:]))
                else:
                    text = "".join(t.text for t in toks[:head_start]) + new_head + "".join(t.text for t in toks[head_end:])
                rules_log.append((name, norm("".join(t.text for t in toks[head_start:head_end]))[:160] + "  =>  " + norm(new_head)[:200]))
                changed = True
                break
            if changed:
                break
    return text


# ------------------------------------------------------------------ R21: await trace
def trace_awaits(body, rules_log):
    """R21: every `E.await` in an async fn becomes `({ let r21_f = E; proof { r21_trace = r21_trace.push(vawait_tag(&r21_f)); } r21_f.await })`
    and the body starts with `let ghost mut r21_trace: Seq<AwaitTag> = Seq::empty();` -- the sequence of futures the
    function has waited for is then available to its inserted assertions.  E is the postfix chain in front of `.await`."""
    n_done = 0
    while True:
        toks = full_tokens(body)
        sig = [i for i, t in enumerate(toks) if t.kind not in ("ws", "comment")]
        hit = None
        for q, i in enumerate(sig):
            if toks[i].kind == "ident" and toks[i].text == "await" and q >= 2 and toks[sig[q - 1]].text == "." \
                    and not (toks[sig[q - 2]].kind == "ident" and toks[sig[q - 2]].text == "r21_f"):
                hit = q; break
        if hit is None:
            break
        q = hit - 2          # last token of E
        start = None
        while q >= 0:
            t = toks[sig[q]]
            if t.kind == "punct" and t.text in (")", "]"):
                # matching open
                depth = 0; j = sig[q]
                while j >= 0:
                    if toks[j].kind == "punct" and toks[j].text in CLOSE: depth += 1
                    elif toks[j].kind == "punct" and toks[j].text in OPEN:
                        depth -= 1
                        if depth == 0: break
                    j -= 1
                q = sig.index(j)
                start = q
                # a call/index: the callee path continues to the left
                if q - 1 >= 0 and (toks[sig[q - 1]].kind == "ident" and toks[sig[q - 1]].text not in KEYWORDS or toks[sig[q - 1]].text in (")", "]", ">")):
                    q -= 1; continue
                break
            if t.kind == "ident" and t.text not in KEYWORDS:
                start = q
                if q - 1 >= 0 and toks[sig[q - 1]].text in (".", "::"):
                    q -= 2; continue
                break
            raise ExtractError("R21 refused: cannot delimit the awaited expression before `.await`")
        if start is None:
            raise ExtractError("R21 refused: cannot delimit the awaited expression before `.await`")
        a, b = sig[start], sig[hit - 2] + 1
        expr = "".join(t.text for t in toks[a:b])
        body = ("".join(t.text for t in toks[:a]) + "({ let r21_f = " + expr + "; proof { r21_trace = r21_trace.push(vawait_tag(&r21_f)); } r21_f.await })"
                + "".join(t.text for t in toks[sig[hit] + 1:]))
        rules_log.append(("R21", f"`{norm(expr)[:120]}.await`: the awaited future is recorded in the ghost trace r21_trace before it is awaited"))
        n_done += 1
    first = body.index("{")
    body = body[:first + 1] + "\n        let ghost mut r21_trace: Seq<AwaitTag> = Seq::empty();" + body[first + 1:]
    return body


# ------------------------------------------------------------------ R24: call trace
def trace_calls(body, names, rules_log):
    """R24: every method call `RECV.NAME(ARGS)` with NAME in `names` becomes
    `({ let r24_v = RECV.NAME(ARGS); proof { r24_trace = r24_trace.push(K); } r24_v })` (K = index of NAME in names),
    and the body starts with `let ghost mut r24_trace: Seq<int> = Seq::empty();` -- the ORDER in which the function
    performs these effects is then available to its inserted assertions."""
    done_pos = set()
    n_done = 0
    while True:
        toks = full_tokens(body)
        sig = [i for i, t in enumerate(toks) if t.kind not in ("ws", "comment")]
        hit = None
        resnames = {n[:-1] for n in names if n.endswith("?")}      # `f?`: the event records whether the call returned Ok
        names = [n[:-1] if n.endswith("?") else n for n in names]
        pathn = [n[2:] for n in names if n.startswith("::")]      # `::f`: a path / free-function call `a::b::f(..)`
        plain = [n for n in names if "." not in n and not n.startswith("::")]
        qual = {n.split(".")[1]: n.split(".")[0] for n in names if "." in n}
        phit = None
        for q, i in enumerate(sig):
            if toks[i].kind == "ident" and toks[i].text in pathn and q + 1 < len(sig) and toks[sig[q + 1]].text == "(" \
                    and (q == 0 or toks[sig[q - 1]].text != "."):
                close = match_close(toks, sig[q + 1])
                after = "".join(t.text for t in toks[close + 1:close + 12])
                if after.startswith("/*r24*/"):
                    continue
                k = q
                while k - 2 >= 0 and toks[sig[k - 1]].text == "::" and toks[sig[k - 2]].kind == "ident":
                    k -= 2
                phit = (k, q, close); break
        if phit is not None:
            k, q, close = phit
            a = sig[k]
            idx = names.index("::" + toks[sig[q]].text)
            inner = "".join(t.text for t in toks[a:close + 1]) + "/*r24*/"
            body = ("".join(t.text for t in toks[:a]) + "({ let r24_v = " + inner + "; proof { r24_trace = r24_trace.push(%dint); } r24_v })" % idx
                    + "".join(t.text for t in toks[close + 1:]))
            rules_log.append(("R24", f"`{norm(inner)[:120]}`: recorded as event {idx} in the ghost trace r24_trace"))
            n_done += 1
            if n_done > 50:
                raise ExtractError("R24 refused: too many traced calls")
            continue
        for q, i in enumerate(sig):
            if toks[i].kind == "ident" and (toks[i].text in plain or toks[i].text in qual) and q >= 2 and toks[sig[q - 1]].text == "." \
                    and q + 1 < len(sig) and toks[sig[q + 1]].text == "(":
                # already wrapped?  (preceded by `let r24_v = ` at chain start is hard to see: use a marker comment)
                close = match_close(toks, sig[q + 1])
                after = "".join(t.text for t in toks[close + 1:close + 12])
                if after.startswith("/*r24*/"):
                    continue
                hit = (q, close); break
        if hit is None:
            break
        q, close = hit
        k = q - 2          # last token of RECV
        start = None
        while k >= 0:
            t = toks[sig[k]]
            if t.kind == "punct" and t.text in (")", "]"):
                depth = 0; j = sig[k]
                while j >= 0:
                    if toks[j].kind == "punct" and toks[j].text in CLOSE: depth += 1
                    elif toks[j].kind == "punct" and toks[j].text in OPEN:
                        depth -= 1
                        if depth == 0: break
                    j -= 1
                k = sig.index(j)
                start = k
                if k - 1 >= 0 and (toks[sig[k - 1]].kind == "ident" and toks[sig[k - 1]].text not in KEYWORDS or toks[sig[k - 1]].text in (")", "]", ">")):
                    k -= 1; continue
                break
            if t.kind == "ident" and t.text not in KEYWORDS:
                start = k
                if k - 1 >= 0 and toks[sig[k - 1]].text in (".", "::"):
                    k -= 2; continue
                break
            raise ExtractError("R24 refused: cannot delimit the receiver of `.%s(`" % toks[sig[q]].text)
        if start is None:
            raise ExtractError("R24 refused: cannot delimit the receiver of `.%s(`" % toks[sig[q]].text)
        a = sig[start]
        expr = "".join(t.text for t in toks[a:close + 1])
        mname = toks[sig[q]].text
        if mname in qual and toks[sig[q - 2]].kind == "ident" and toks[sig[q - 2]].text == qual[mname]:
            idx = names.index(qual[mname] + "." + mname)      # a receiver-qualified event, e.g. `ready_tx.send`
        elif mname in plain:
            idx = names.index(mname)
        else:
            # qualified name only, other receiver: not an event; mark so it is not looked at again
            body = "".join(t.text for t in toks[:close + 1]) + "/*r24*/" + "".join(t.text for t in toks[close + 1:])
            continue
        # the marker keeps the rewritten call from being matched again (it sits right after the inner call)
        inner = "".join(t.text for t in toks[a:close + 1]) + "/*r24*/"
        ev = ("(%dint + r24_bit(r24_v is Ok))" % (2 * idx)) if mname in resnames else ("%dint" % idx)
        body = ("".join(t.text for t in toks[:a]) + "({ let r24_v = " + inner + "; proof { r24_trace = r24_trace.push(" + ev + "); } r24_v })"
                + "".join(t.text for t in toks[close + 1:]))
        rules_log.append(("R24", f"`{norm(expr)[:120]}`: recorded as event {idx} ({toks[sig[q]].text}) in the ghost trace r24_trace"))
        n_done += 1
        if n_done > 50:
            raise ExtractError("R24 refused: too many traced calls")
    first = body.index("{")
    body = body[:first + 1] + "\n        let ghost mut r24_trace: Seq<int> = Seq::empty();" + body[first + 1:]
    return body


# ---------------------------------------------------------------------------------------------------------------------
# R26: a call of a NEW private helper (a function of the same file that did not exist when the contracts were written —
# absent from inventory.json) with a simple body is expanded in place, so that the caller is verified with the helper's
# real text ("extract a helper" is a behaviour-preserving refactoring; a helper with a bug in it is not).
def _helper_items(src):
    """name -> (params text list, has_self ('', '&', '&mut', 'val'), body text incl. braces, is_pub)"""
    out = {}

    def walk(lo, hi):
        for it in _items_in(src.src, src.toks, lo, hi):
            h = it.header.split()
            if any("test" in a for a in it.attrs):
                continue
            if h[0] == "fn":
                name = re.match(r"fn\s+(\w+)", it.header).group(1)
                quals = []
                k = it.start
                while src.toks[k].text != "fn":
                    quals.append(src.toks[k].text); k += 1
                # parameter list: first (...) after the name
                j = k
                while src.toks[j].text != "(":
                    j += 1
                close = match_close(src.toks, j)
                ptoks = [t for t in src.toks[j + 1:close] if t.kind not in ("ws", "comment")]
                params, cur, depth = [], [], 0
                for t in ptoks:
                    if t.text in ("(", "[", "<", "{"): depth += 1
                    elif t.text in (")", "]", ">", "}"): depth -= 1
                    if t.text == "," and depth == 0:
                        params.append(cur); cur = []
                    else:
                        cur.append(t.text)
                if cur: params.append(cur)
                selfk = ""
                names = []
                for p in params:
                    s = "".join(p)
                    if s == "&self": selfk = "&"
                    elif s == "&mutself": selfk = "&mut"
                    elif s in ("self", "mutself"): selfk = "val"
                    else:
                        names.append(p[0] if p[0] != "mut" else p[1])
                out.setdefault(name, []).append((names, selfk, it.body_text, "pub" in quals, it))
            elif h[0] in ("impl", "mod") and it.body_open is not None:
                if h[0] == "mod" and len(h) > 1 and h[1] in ("tests", "test"):
                    continue
                walk(it.body_open + 1, it.body_close)
    walk(0, len(src.toks))
    return out


def inline_new_helpers(body, src, known_names, rules_log):
    """known_names: function names of this file recorded in inventory.json (None = no inventory: do nothing)"""
    if known_names is None:
        return body
    helpers = {n: v[0] for n, v in _helper_items(src).items() if n not in known_names and len(v) == 1}
    if not helpers:
        return body
    for _ in range(20):
        toks = full_tokens(body)
        sg = [i for i, t in enumerate(toks) if t.kind not in ("ws", "comment")]
        hit = None
        for q, i in enumerate(sg):
            t = toks[i]
            if t.kind == "ident" and t.text in helpers and q + 1 < len(sg) and toks[sg[q + 1]].text == "(":
                names, selfk, hbody, is_pub, it = helpers[t.text]
                inner = [x for x in tokenize(hbody) if x.kind not in ("ws", "comment")]
                txts = [x.text for x in inner]
                if is_pub or any(x in ("return", "?", "await", "loop", "while", "for", "Self") for x in txts):
                    raise ExtractError(f"unsupported construct: call of the new function `{t.text}` (not in inventory.json; too complex to expand in place)")
                close = match_close(toks, sg[q + 1])
                args, cur, depth = [], [], 0
                for x in toks[sg[q + 1] + 1:close]:
                    if x.text in ("(", "[", "{"): depth += 1
                    elif x.text in (")", "]", "}"): depth -= 1
                    if x.text == "," and depth == 0 and x.kind == "punct":
                        args.append("".join(cur)); cur = []
                    else:
                        cur.append(x.text)
                if "".join(cur).strip(): args.append("".join(cur))
                # receiver
                start = i
                recv = None
                if selfk:
                    if q < 2 or toks[sg[q - 1]].text != ".":
                        raise ExtractError(f"unsupported construct: new helper `{t.text}` is not called as a method")
                    k = q - 2
                    st = None
                    while k >= 0:
                        x = toks[sg[k]]
                        if x.kind == "punct" and x.text in (")", "]"):
                            depth = 0; j = sg[k]
                            while j >= 0:
                                if toks[j].kind == "punct" and toks[j].text in CLOSE: depth += 1
                                elif toks[j].kind == "punct" and toks[j].text in OPEN:
                                    depth -= 1
                                    if depth == 0: break
                                j -= 1
                            k = sg.index(j); st = k
                            if k - 1 >= 0 and toks[sg[k - 1]].kind == "ident" and toks[sg[k - 1]].text not in KEYWORDS:
                                k -= 1; continue
                            break
                        if x.kind == "ident" and x.text not in KEYWORDS:
                            st = k
                            if k - 1 >= 0 and toks[sg[k - 1]].text in (".", "::"):
                                k -= 2; continue
                            break
                        break
                    if st is None:
                        raise ExtractError(f"unsupported construct: cannot delimit the receiver of the new helper `{t.text}`")
                    start = sg[st]
                    recv = "".join(x.text for x in toks[start:sg[q - 1]])
                else:
                    # `Self::name(` / `path::name(` / `name(`
                    k = q
                    while k - 2 >= 0 and toks[sg[k - 1]].text == "::" and toks[sg[k - 2]].kind == "ident":
                        k -= 2
                    start = sg[k]
                if len(args) != len(names):
                    raise ExtractError(f"unsupported construct: new helper `{t.text}`: {len(args)} argument(s) for {len(names)} parameter(s)")
                simple_recv = recv is not None and re.fullmatch(r"[\w\s.:]+", recv) is not None
                self_txt = ("(" + recv.strip() + ")") if simple_recv else "r26_self"
                hb = "".join(((self_txt if (x.kind == "ident" and x.text == "self") else x.text)) for x in tokenize(hbody))
                pre = ""
                if simple_recv: pass     # a plain place expression is substituted for `self` (no re-borrow: its own mutability applies)
                elif selfk == "&": pre += f"let r26_self = &{recv}; "
                elif selfk == "&mut": pre += f"let r26_self = &mut {recv}; "
                elif selfk == "val": pre += f"let r26_self = {recv}; "
                for n_, a_ in enumerate(args):
                    pre += f"let r26_a{n_} = {a_}; "
                for n_, nm in enumerate(names):
                    pre += f"let {nm} = r26_a{n_}; "
                hit = (start, close, "({ " + pre + hb + " })", t.text)
                break
        if hit is None:
            return body
        start, close, rep, nm = hit
        body = "".join(x.text for x in toks[:start]) + rep + "".join(x.text for x in toks[close + 1:])
        rules_log.append(("R26", f"call of the new private helper `{nm}` (not in inventory.json) expanded in place with its real body"))
    raise ExtractError("R26 refused: too many helper expansions")


def rebind_locals(text, binds, fn_name, rules):
    """R27: `binds` = "name=INIT EXPR;;name2=INIT2": the local introduced by `let [mut] X = INIT EXPR;` is alpha-renamed
    to `name` (the name the unit's contract / block signature uses) when the source calls it something else.  Renaming
    a local is behaviour-preserving; it is refused (exit 2) when `name` is already in use or the binding is not found."""
    for b in binds.split(";;"):
        name, _, init = b.partition("=")
        name = name.strip()
        toks = full_tokens(text)
        s_idx = [i for i, t in enumerate(toks) if t.kind not in ("ws", "comment")]
        pat = [t.text for t in sig(tokenize(init))]
        found = None
        for a in range(len(s_idx)):
            if toks[s_idx[a]].text != "let":
                continue
            k = a + 1
            if k < len(s_idx) and toks[s_idx[k]].text == "mut":
                k += 1
            if k + 1 + len(pat) >= len(s_idx) or toks[s_idx[k]].kind != "ident" or toks[s_idx[k + 1]].text != "=":
                continue
            if all(toks[s_idx[k + 2 + b2]].text == pat[b2] for b2 in range(len(pat))) and toks[s_idx[k + 2 + len(pat)]].text == ";":
                if found is not None:
                    raise ExtractError(f"anchor lost: binding `let _ = {init};` occurs more than once in {fn_name}")
                found = toks[s_idx[k]].text
        if found is None:
            # the initialiser was rewritten: when the function still binds a local of the contract's own name there is
            # nothing to rename (the hints then speak about that local; if it means something else they simply fail)
            sg0 = [toks[i] for i in s_idx]
            if any(sg0[i].text == "let" and (sg0[i + 1].text == name or (sg0[i + 1].text == "mut" and sg0[i + 2].text == name))
                   for i in range(len(sg0) - 2)):
                continue
            raise ExtractError(f"anchor lost: binding `let _ = {init};` in {fn_name}")
        if found == name:
            continue
        sg = [toks[i] for i in s_idx]
        if any(t.kind == "ident" and t.text == name and not (i > 0 and sg[i - 1].text in (".", "::")) for i, t in enumerate(sg)):
            raise ExtractError(f"unsupported construct: cannot rename local `{found}` to `{name}` in {fn_name}: the name is in use")
        out = []
        prev = None
        for i, t in enumerate(toks):
            if t.kind == "ident" and t.text == found and (prev is None or prev.text not in (".", "::")):
                nxt = next((x for x in toks[i + 1:] if x.kind not in ("ws", "comment")), None)
                if nxt is not None and nxt.text == "::":
                    out.append(t.text)
                else:
                    out.append(name)
            else:
                out.append(t.text)
            if t.kind not in ("ws", "comment"):
                prev = t
        text = "".join(out)
        rules.append(("R27", f"local `{found}` alpha-renamed to `{name}` (the name the contract uses for `{init}`)"))
    return text
