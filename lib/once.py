"""Single-slot prophecy stand-ins may be called at most once per path.

A stand-in such as `send_cmd(&self, c) ensures sent_sys_cmd() == (self.chan(), c)` names "THE command sent during the
verified call".  If the function under contract called it twice with different values on one path, the two
postconditions would contradict each other and everything after the second call would be proved vacuously — the reach
variant (`ensures false` must fail) only notices when EVERY path is affected.  The units therefore list such methods
(`//@once name, name, ..`), and the generator refuses (exit 2, "unsupported construct") a function body in which two
calls of one listed method can lie on the same path, or one lies inside a loop.

Two call sites are on different paths only if they sit in different arms of the same `match`, or in different branches
of the same `if .. else if .. else` chain.  Everything else (sequential statements, sequential `if`s, nesting) counts as
possibly the same path."""
import re
from rsx import full_tokens, match_close, OPEN, CLOSE


def _sig(toks):
    return [i for i, t in enumerate(toks) if t.kind not in ("ws", "comment")]


def _enclosing_blocks(toks, pos):
    """indices of the `{` tokens enclosing token index pos, outermost first"""
    out = []
    stack = []
    for i, t in enumerate(toks[:pos]):
        if t.kind == "punct" and t.text == "{":
            stack.append(i)
        elif t.kind == "punct" and t.text == "}":
            if stack:
                stack.pop()
    return stack


def _prev_sig(toks, i):
    i -= 1
    while i >= 0 and toks[i].kind in ("ws", "comment"):
        i -= 1
    return i


def _next_sig(toks, i):
    i += 1
    while i < len(toks) and toks[i].kind in ("ws", "comment"):
        i += 1
    return i


def _chain_id(toks, brace):
    """for a block opened at `brace` that is a branch of an if/else chain: the index of the chain's first `if` token;
    for a match arm body `PAT => {`: ('arm', index of the match's `{`); otherwise None"""
    p = _prev_sig(toks, brace)
    if p >= 0 and toks[p].text == "=>":
        return "arm"
    # walk back over the condition to the `if` / `else`
    k = p
    depth = 0
    while k >= 0:
        t = toks[k]
        if t.kind == "punct" and t.text in CLOSE:
            depth += 1
        elif t.kind == "punct" and t.text in OPEN:
            if depth == 0:
                return None
            depth -= 1
        elif depth == 0 and t.kind == "punct" and t.text in (";", ","):
            return None
        elif depth == 0 and t.kind == "ident" and t.text in ("if", "else"):
            # find the head of the chain: `if` not preceded by `else`
            while True:
                if toks[k].text == "else":
                    # block before this else
                    q = _prev_sig(toks, k)
                    if q < 0 or toks[q].text != "}":
                        return None
                    # find its opening brace
                    d = 0; j = q
                    while j >= 0:
                        if toks[j].text == "}": d += 1
                        elif toks[j].text == "{":
                            d -= 1
                            if d == 0: break
                        j -= 1
                    return _chain_id(toks, j)
                pe = _prev_sig(toks, k)
                if pe >= 0 and toks[pe].text == "else":
                    k = pe; continue
                return ("if", k)
        k -= 1
    return None


def _loop_block(toks, brace):
    """is the block opened at `brace` the body of a loop / while / for?"""
    k = _prev_sig(toks, brace)
    depth = 0
    while k >= 0:
        t = toks[k]
        if t.kind == "punct" and t.text in CLOSE:
            depth += 1
        elif t.kind == "punct" and t.text in OPEN:
            if depth == 0:
                return False
            depth -= 1
        elif depth == 0 and t.kind == "punct" and t.text in (";", "}", "=>", ","):
            return False
        elif depth == 0 and t.kind == "ident" and t.text in ("loop", "while", "for"):
            return True
        elif depth == 0 and t.kind == "ident" and t.text in ("if", "else", "match"):
            return False
        k -= 1
    return False


def _is_match_body(toks, brace):
    k = _prev_sig(toks, brace)
    depth = 0
    while k >= 0:
        t = toks[k]
        if t.kind == "punct" and t.text in CLOSE:
            depth += 1
        elif t.kind == "punct" and t.text in OPEN:
            if depth == 0:
                return False
            depth -= 1
        elif depth == 0 and t.kind == "punct" and t.text in (";", "=>"):
            return False
        elif depth == 0 and t.kind == "ident" and t.text == "match":
            return True
        elif depth == 0 and t.kind == "ident" and t.text in ("if", "else", "while", "loop", "for"):
            return False
        k -= 1
    return False


def _arm_index(toks, brace, pos):
    """number of top-level `=>` between the match body's `{` and pos"""
    n = 0
    i = brace + 1
    while i < pos:
        t = toks[i]
        if t.kind == "punct" and t.text in OPEN:
            e = match_close(toks, i)
            if e >= pos:
                i += 1; continue
            i = e + 1; continue
        if t.kind == "punct" and t.text == "=>":
            n += 1
        i += 1
    return n


def conflicts(body_text, names):
    """-> list of messages: two calls of a once-method that may lie on one path, or a call inside a loop"""
    toks = full_tokens(body_text)
    msgs = []
    for name in names:
        sites = []
        for i, t in enumerate(toks):
            if t.kind == "ident" and t.text == name:
                p, n = _prev_sig(toks, i), _next_sig(toks, i)
                if n < len(toks) and toks[n].text == "(" and p >= 0 and toks[p].text in (".", "::"):
                    sites.append(i)
        for i in sites:
            for b in _enclosing_blocks(toks, i):
                if _loop_block(toks, b):
                    msgs.append(f"`{name}` (a single-slot prophecy stand-in) is called inside a loop")
                    break
        for x in range(len(sites)):
            for y in range(x + 1, len(sites)):
                bx, by = _enclosing_blocks(toks, sites[x]), _enclosing_blocks(toks, sites[y])
                k = 0
                while k < len(bx) and k < len(by) and bx[k] == by[k]:
                    k += 1
                # the innermost common block is a match body and the sites are in different arms
                if k >= 1 and _is_match_body(toks, bx[k - 1]) and _arm_index(toks, bx[k - 1], sites[x]) != _arm_index(toks, bx[k - 1], sites[y]):
                    continue
                if k == len(bx) or k == len(by):
                    msgs.append(f"`{name}` (a single-slot prophecy stand-in) is called twice on one path")
                    continue
                cx, cy = _chain_id(toks, bx[k]), _chain_id(toks, by[k])
                if cx is not None and cx == cy:
                    continue            # different arms of one match / different branches of one if-else chain
                msgs.append(f"`{name}` (a single-slot prophecy stand-in) may be called twice on one path")
    return sorted(set(msgs))
