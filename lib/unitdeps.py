"""Cross-unit dependencies of the Verus units (MODULAR SOUNDNESS across units).

A unit verifies its functions against the CONTRACTS of what they call.  Callees that live in another unit appear as
stand-ins (`#[verifier::external_body]` methods with the contract "proved in unit X").  So a proof in unit A is only as
good as the verification of the units whose functions A assumes: when `WakerQueue::wake` fails its contract in unit
`waker_queue`, everything unit `accept` proved about code that calls `wake` rests on a broken assumption.

This module computes, from the unit templates themselves,
  * standins(unit)  : {(Type, method)} of the external_body methods the unit declares (includes its //@include files),
  * extracted(unit) : {function name used in obligations -> (Type, method)} of the functions the unit extracts,
  * depends(unit)   : the units of the SAME crate that extract a function this unit has a stand-in for,
  * closure(units)  : the transitive closure.
The driver runs the closure of a property's own units and answers UNDECIDED (never "holds", never an alarm) for the
property when a dependency unit fails — or cannot verify — a function some unit of the closure assumes."""
import glob, json, os, re

ROOT = os.path.normpath(os.path.join(os.path.dirname(os.path.abspath(__file__)), ".."))
_cache = {}


def _text(name):
    p = os.path.join(ROOT, "units", name, "unit.rs")
    txt = open(p).read()
    for inc in re.findall(r"^//@include (\S+)", txt, re.M):
        ip = os.path.normpath(os.path.join(os.path.dirname(p), inc))
        if os.path.exists(ip):
            txt += "\n" + open(ip).read()
    return txt


def all_units():
    return sorted(os.path.basename(os.path.dirname(p)) for p in glob.glob(os.path.join(ROOT, "units", "*", "unit.rs")))


def _type_of_header(h):
    h = h.strip()
    if not h.startswith("impl"):
        return None
    h = h[4:].lstrip()
    if h.startswith("<"):          # skip the generics (balanced angle brackets)
        d = 0
        for i, ch in enumerate(h):
            if ch == "<": d += 1
            elif ch == ">":
                d -= 1
                if d == 0:
                    h = h[i + 1:].lstrip(); break
    if " for " in h:
        h = h.split(" for ", 1)[1]
    m = re.match(r"[\w:]+", h.strip())
    return m.group(0).split("::")[-1] if m else None


def info(name):
    """-> (crate, extracted {fn name -> (Type, method)}, standins {(Type, method)})"""
    if name in _cache:
        return _cache[name]
    t = _text(name)
    ext, crates = {}, set()
    for m in re.finditer(r'^//@extract file=(\S+) item="([^"]+)"([^\n]*)', t, re.M):
        f, item, rest = m.group(1), m.group(2), m.group(3)
        crates.add(f.split("/")[0])
        parts = [x.strip() for x in item.split("/")]
        fn = re.sub(r"^fn\s+", "", parts[-1]).strip()
        ty = _type_of_header(parts[-2]) if len(parts) > 1 else None
        nm = re.search(r"\bname=(\S+)", rest)
        label = nm.group(1) if nm else f.split("/")[-1].replace(".rs", "") + "::" + fn
        ext[label] = (ty, fn)
    st, cur, pending = set(), None, False
    for l in t.split("\n"):
        if l.strip().startswith("//"):
            continue
        m = re.match(r"\s*(?:pub\s+)?(?:unsafe\s+)?impl\b(.*)", l)
        if m:
            cur = _type_of_header("impl" + m.group(1).split("{")[0])
        if "external_body" in l:
            pending = True
        m2 = re.search(r"\bfn\s+(\w+)", l)
        if m2 and pending:
            if cur is not None and l[:1] in (" ", "\t") or (cur is not None and "impl" in l):
                st.add((cur, m2.group(1)))
            pending = False
    crate = sorted(crates)[0] if crates else None
    _cache[name] = (crate, ext, st)
    return _cache[name]


# a unit's stand-ins may also name functions of ANOTHER workspace crate its crate is built on (actix-server and actix-tls
# call actix-rt: `System::try_current`, `Arbiter::try_current`, `ArbiterHandle::stop`, `Arbiter::with_tokio_rt`);
# crates not listed here are matched within themselves only (a tokio `Sender::send` stand-in is not local-channel's)
CRATE_USES = {"actix-server": {"actix-rt"}, "actix-tls": {"actix-rt"}}


def declared_assumptions(name):
    """`//@assumes unit=X fns=a::b,c::d`: this unit takes a PRECONDITION for granted that unit X establishes as the
    postcondition of the named functions (e.g. `ServerBuilder::ready()`, assumed by run_sync, is what bind / listen ensure)"""
    out = {}
    for m in re.finditer(r"^//@assumes\s+unit=(\S+)\s+fns=(\S+)", _text(name), re.M):
        out.setdefault(m.group(1), set()).update(x for x in m.group(2).split(",") if x)
    return out


def depends(name):
    crate, _, st = info(name)
    out = {}
    for y, labels in declared_assumptions(name).items():
        out.setdefault(y, set()).update(labels)
    for y in all_units():
        if y == name:
            continue
        c2, ext2, _ = info(y)
        if c2 != crate and c2 not in CRATE_USES.get(crate, ()):
            continue
        common = st & set(v for v in ext2.values() if v[0] is not None)
        if common:
            out.setdefault(y, set()).update(common)
    return out


def closure(units):
    """units: base names.  -> (set of dependency units not in `units`, {dep unit -> {(Type, method)} assumed by the closure})"""
    seen = set(units)
    todo = list(units)
    assumed = {}
    while todo:
        x = todo.pop()
        for y, common in depends(x).items():
            assumed.setdefault(y, set()).update(common)
            if y not in seen:
                seen.add(y); todo.append(y)
    return seen - set(units), assumed


# Verus stand-ins whose contracts are proved by a KANI unit on the real crate (named in the stand-in's doc comment):
# Verus unit -> Kani units it assumes
KANI_ASSUMED = {
    "worker_handles": ["server_counter"],     # worker.rs Counter::{inc, dec, total}
    "worker_start": ["server_counter"],       # Counter::new / Clone
    "worker": ["server_counter"],
    "backpressure": ["server_counter", "availability"],
    "accept": ["availability"],               # Availability bit set (all [u128; 4], all indices)
    "tls_accept_native": ["utils_counter", "local_waker"],    # actix_utils::counter::{Counter, CounterGuard}
    "tls_accept_openssl": ["utils_counter", "local_waker"],
    "tls_accept_rustls": ["utils_counter", "local_waker"],
    "local_channel": ["local_waker"],         # LocalWaker::{register, wake, take}
}


def kani_assumed(units):
    out = set()
    for u in units:
        out.update(KANI_ASSUMED.get(u, ()))
    return out


if __name__ == "__main__":
    import sys
    for u in (sys.argv[1:] or all_units()):
        d = depends(u)
        for y in sorted(d):
            print(u, "->", y, sorted(map(str, d[y]))[:8])
    cfg = json.load(open(os.path.join(ROOT, "checks.json")))["properties"]
    for pid, pc in cfg.items():
        own = sorted({u.split("@")[0] for u in pc.get("verus", [])})
        extra, _ = closure(own)
        print(pid, "own:", own, "deps:", sorted(extra))
