"""Route K: inject a committed harness module (+ contract attributes) into a scratch copy of /repo's working
tree and run `cargo kani` on the real crate.  Complete (loop-free, full-domain) harnesses count as proofs,
`bounded` ones are reported as bounded stand-ins only."""
import json, os, re, shutil, subprocess, time

from rsx import ExtractError, Source

ROOT = os.path.normpath(os.path.join(os.path.dirname(os.path.abspath(__file__)), ".."))
KANI_TIMEOUT = int(os.environ.get("VERIF_KANI_TIMEOUT", "900"))


def copy_repo(repo, dst):
    os.makedirs(dst, exist_ok=True)
    subprocess.run(["rsync", "-a", "--exclude", "/target", "--exclude", ".git", repo.rstrip("/") + "/", dst + "/"], check=True)


def inject(unit_dir, cfg, scratch_repo):
    for inj in cfg.get("inject", []):
        p = os.path.join(scratch_repo, inj["file"])
        if not os.path.exists(p):
            raise ExtractError(f"anchor lost: file {inj['file']}")
        body = open(os.path.join(unit_dir, inj["harness"])).read()
        modname = inj.get("mod", "verif_kani")
        with open(p, "a") as fh:
            fh.write(f"\n#[cfg(kani)]\n#[allow(dead_code, unused_imports, unused_variables, unused_mut)]\nmod {modname} {{\n{body}\n}}\n")
    for c in cfg.get("contracts", []):
        p = os.path.join(scratch_repo, c["file"])
        src = Source(p)
        it = src.find(c["item"])
        pos = src.toks[it.start].pos
        text = src.src
        attrs = "".join(f"#[cfg_attr(kani, {a})]\n" for a in c["attrs"])
        open(p, "w").write(text[:pos] + attrs + text[pos:])
    for pr in cfg.get("crate_attrs", []):
        p = os.path.join(scratch_repo, pr["file"])
        text = open(p).read()
        open(p, "w").write(pr["text"] + "\n" + text)


def parse_kani(out):
    """terse output, possibly from several threads.
    returns {harness: {"status", "nchecks", "nfailed", "failed": [(desc, loc)], "covers": (sat, total), "time"}}"""
    res = {}
    thread_h = {}
    cur = None
    lines = out.split("\n")
    for i, l in enumerate(lines):
        s = l.strip()
        m = re.match(r"^(?:Thread (\d+): )?Checking harness (\S+?)\.\.\.", s)
        if m:
            h = m.group(2)
            res[h] = {"status": None, "nchecks": 0, "nfailed": 0, "failed": [], "covers": (0, 0), "time": 0.0}
            if m.group(1) is not None:
                thread_h[m.group(1)] = h
            else:
                cur = h
            continue
        m = re.match(r"^Thread (\d+):\s*$", s)
        if m:
            cur = thread_h.get(m.group(1))
            continue
        if cur is None or cur not in res:
            continue
        r = res[cur]
        m = re.match(r"^\*\* (\d+) of (\d+) failed", s)
        if m:
            r["nfailed"], r["nchecks"] = int(m.group(1)), int(m.group(2)); continue
        m = re.match(r"^\*\* (\d+) of (\d+) cover properties satisfied", s)
        if m:
            r["covers"] = (int(m.group(1)), int(m.group(2))); continue
        if s.startswith("Failed Checks:"):
            loc = lines[i + 1].strip() if i + 1 < len(lines) and lines[i + 1].strip().startswith("File:") else ""
            r["failed"].append((s[len("Failed Checks:"):].strip(), loc)); continue
        m = re.match(r"^VERIFICATION:- (\w+)", s)
        if m:
            r["status"] = m.group(1); continue
        m = re.match(r"^Verification Time: ([0-9.]+)s", s)
        if m:
            r["time"] = float(m.group(1)); continue
    return res


def run_kani_unit(unit, scratch, tier, seed, repo, pid=None):
    from driver import UnitResult
    ur = UnitResult(unit, "kani")
    t0 = time.time()
    udir = os.path.join(ROOT, "kani", unit)
    cfg = json.load(open(os.path.join(udir, "unit.json")))
    sr = os.path.join(scratch, "repo")
    try:
        copy_repo(repo, sr)
        inject(udir, cfg, sr)
    except ExtractError as e:
        ur.undecided.append(f"injection: {e}")
        return ur
    hs = [h for h in cfg["harnesses"] if (tier == "thorough" or h.get("tier", "quick") == "quick")]
    # every quick-tier harness of the unit is run, whatever property it is attributed to: a harness that fails under a
    # sibling property makes this property undecided (driver: sibling rule) instead of going unseen
    if not hs:
        ur.wall = time.time() - t0
        return ur
    mod = cfg.get("inject", [{}])[0].get("mod", "verif_kani")
    cmd = ["cargo", "kani", "-p", cfg["package"], "-Z", "function-contracts", "-Z", "stubbing"] + cfg.get("kani_args", [])
    for h in hs:
        cmd += ["--harness", h["name"]]
    cmd += ["-j", str(min(int(os.environ.get("VERIF_KANI_JOBS", "6")), len(hs))), "--output-format", "terse"]
    env = dict(os.environ, CARGO_NET_OFFLINE="true", CARGO_TARGET_DIR=os.path.join(scratch, "target"),
               VERIF_KANI_DIR=os.path.join(ROOT, "kani"))
    ur.cmd = "cargo kani -p %s -Z function-contracts -Z stubbing %s --harness <%d harnesses of kani/%s>" % (
        cfg["package"], " ".join(cfg.get("kani_args", [])), len(hs), unit)
    try:
        p = subprocess.run(cmd, cwd=sr, env=env, capture_output=True, text=True, timeout=KANI_TIMEOUT)
        out = p.stdout + "\n" + p.stderr
    except subprocess.TimeoutExpired as e:
        ur.undecided.append(f"cargo kani timed out after {KANI_TIMEOUT}s")
        ur.wall = time.time() - t0
        return ur
    res = parse_kani(out)
    if os.environ.get("VERIF_DEBUG"):
        open(os.path.join("/var/tmp", f"kani_{unit}.log"), "w").write(out)
    for h in hs:
        key = next((k for k in res if k.endswith("::" + h["name"]) or k == h["name"]), None)
        if key is None or res[key]["status"] is None:
            tail = "\n".join(out.strip().split("\n")[-25:])
            ur.undecided.append(f"harness {h['name']}: no verdict from Kani (compile error / ICE / unsupported construct / out of memory?)\n{tail}")
            continue
        r = res[key]
        ur.solver_s += r["time"]
        kind = h.get("kind", "complete")
        label = f"{unit}::{h['name']}"
        if not hasattr(ur, "harness_props"):
            ur.harness_props = {}
        ur.harness_props[label] = list(h["props"])
        if kind == "bounded":
            ur.bounded.append(f"{label}: bounded stand-in ({h.get('bound', '?')}); not counted as proved")
        fails = r["failed"]
        unwind_fail = [c for c in fails if "unwinding assertion" in c[0]]
        unsupported = [c for c in fails if "unsupported" in c[0].lower() or "not currently supported" in c[0].lower()]
        if h.get("should_panic"):
            if kind != "bounded":
                ur.obligations.append(f"{label}/panics-as-documented ({r['nchecks']} checks)")
            if r["status"] != "SUCCESSFUL":
                ur.failures.append({"obligation": f"{label}/panics-as-documented", "props": h["props"],
                                    "detail": excerpt(out, key), "kind": "kani", "fn": h["name"], "harness": h["name"]})
            else:
                ur.samples.append(f"{label}: panics as documented ({fails[0][0] if fails else ''})")
            continue
        if kind == "cover":
            sat, tot = r["covers"]
            for k in range(tot):
                ur.obligations.append(f"{label}/cover#{k + 1}")
            if r["status"] != "SUCCESSFUL" or fails:
                ur.undecided.append(f"vacuity guard {label} itself failed a check: {fails[:1]}")
            if sat < h.get("covers", 1) or sat != tot:
                ur.undecided.append(f"vacuity guard {label}: {sat}/{tot} covers satisfied (expected {h.get('covers')})")
            continue
        if kind != "bounded":      # bounded stand-ins are reported separately and never counted as discharged obligations
            for k in range(r["nchecks"]):
                ur.obligations.append(f"{label}/check#{k + 1}")
        else:
            ur.bounded[-1] += f" [{r['nchecks']} checks, status {r['status']}]"
        if "covers" in h:
            sat, tot = r["covers"]
            if sat < h["covers"]:
                ur.undecided.append(f"vacuity guard {label}: {sat}/{tot} covers satisfied (expected {h['covers']})")
        if unwind_fail:
            ur.undecided.append(f"{label}: unwinding bound too small ({unwind_fail[0][1]})")
            continue
        if unsupported:
            ur.undecided.append(f"{label}: unsupported construct reached ({unsupported[0][0]})")
            continue
        if r["status"] == "SUCCESSFUL" and not fails:
            ur.samples.append(f"{label}: {r['nchecks']} checks discharged, {r['time']:.2f}s" + (" [bounded]" if kind == "bounded" else ""))
            continue
        if not fails:
            ur.undecided.append(f"{label}: Kani reported {r['status']} without a failed check")
            continue
        for c in fails:
            ur.failures.append({"obligation": f"{label}: {c[0]}"[:200], "props": h["props"],
                                "detail": f"Failed check: {c[0]}\n {c[1]}\n\n" + excerpt(out, key),
                                "kind": "kani", "fn": h["name"], "harness": h["name"]})
    # counterexamples for failing harnesses: concrete playback, replayed on the real code
    failing = sorted({f["harness"] for f in ur.failures if f.get("harness")})
    for hn in failing[:3]:
        cex = concrete_playback(cfg, sr, env, hn, mod, udir)
        if cex:
            for f in ur.failures:
                if f.get("harness") == hn:
                    ur.cex[f["obligation"]] = cex
    for fn in cfg.get("functions", []):
        ur.functions.append({"name": f"{cfg['package']}::{fn}", "kind": "real function, harness injected as child module (cfg(kani))",
                             "props": sorted({p for h in cfg["harnesses"] for p in h["props"]})})
    ur.trusted = list(cfg.get("trusted", []))
    for c in cfg.get("contracts", []):
        ur.notes.append(f"kani contract on {c['item']}: " + "; ".join(c["attrs"]))
    ur.wall = time.time() - t0
    ur.notes.append("kani: %d harnesses, solver %.1fs, wall %.1fs" % (len(hs), ur.solver_s, ur.wall))
    return ur


def excerpt(out, key):
    """the result block of harness `key` from terse (threaded) output"""
    lines = out.split("\n")
    start, th = None, None
    for i, l in enumerate(lines):
        m = re.match(r"^(?:Thread (\d+): )?Checking harness (\S+?)\.\.\.", l.strip())
        if m and m.group(2) == key:
            start, th = i, m.group(1)
    if start is None:
        return out[-2000:]
    seg, on = [], th is None
    for l in lines[start + 1:]:
        s = l.strip()
        if not on:
            if re.match(r"^Thread %s:\s*$" % th, s):
                on = True
            continue
        if s.startswith("Thread ") or s.startswith("Checking harness") or s.startswith("Manual Harness Summary"):
            break
        seg.append(l)
    return ("harness " + key + "\n" + "\n".join(seg))[:4000]


def concrete_playback(cfg, sr, env, harness, mod, udir):
    """ask Kani for a concrete counterexample (unit test form), add it to the scratch copy next to the harness and run
    it with `cargo kani playback`, i.e. against the real function bodies.  Returns transcript text or None."""
    try:
        cmd = ["cargo", "kani", "-p", cfg["package"], "-Z", "function-contracts", "-Z", "stubbing", "-Z", "concrete-playback",
               "--concrete-playback=print", "--harness", harness] + cfg.get("kani_args", [])
        p = subprocess.run(cmd, cwd=sr, env=env, capture_output=True, text=True, timeout=KANI_TIMEOUT)
        out = p.stdout
        m = re.search(r"```\s*\n(.*?#\[test\].*?)```", out, re.S)
        if not m:
            return None
        test = m.group(1)
        tname = re.search(r"fn (kani_concrete_playback_\w+)", test)
        # append inside the injected module
        f = os.path.join(sr, cfg["inject"][0]["file"])
        text = open(f).read()
        idx = text.rfind("}")
        open(f, "w").write(text[:idx] + "\n" + test + "\n}\n")
        cmd2 = ["cargo", "kani", "playback", "-p", cfg["package"], "-Z", "concrete-playback", "--", tname.group(1) if tname else ""]
        p2 = subprocess.run(cmd2, cwd=sr, env=env, capture_output=True, text=True, timeout=KANI_TIMEOUT)
        keep = [l for l in (p2.stdout + p2.stderr).split("\n")
                if re.search(r"panicked|assertion|test result|^test |FAILED|failures:|overflow|index out of", l)]
        tail = "\n".join(keep[-25:])
        return "concrete values found by Kani (as a unit test over the real function):\n" + test + \
               "\n---- `cargo kani playback` on the real code ----\n" + tail
    except Exception as e:  # replay is best effort; the violation is reported either way
        return None
