"""Inventory of ENTRY POINTS of the source files a property's units read: trait-impl methods (`impl Tr for Ty { fn .. }`:
Drop, Clone incl. an overridden clone_from, Future, Service, From, ...) and `pub`/`pub(crate)` functions.  A contract set
argues operation by operation; an entry point that appeared after the contracts were written is an operation nobody
argued about, so the check of every property that reads the file answers UNDECIDED (exit 2) instead of "holds".
Private helpers are not entry points: they are reached (and verified or executed) through their callers."""
import glob, json, os, re
from rsx import Source, _items_in, _foreign_cfg, match_close, OPEN

ROOT = os.path.normpath(os.path.join(os.path.dirname(os.path.abspath(__file__)), ".."))


def entry_points(path):
    s = Source(path)
    out = []

    def walk(lo, hi, trail, in_trait_impl):
        for it in _items_in(s.src, s.toks, lo, hi):
            h = it.header.split()
            if any("test" in a for a in it.attrs) or any(_foreign_cfg(a) for a in it.attrs) or any("cfg(kani)" in a for a in it.attrs):
                continue
            hd = re.sub(r"\s+", " ", it.header)
            words = h
            k = it.start
            quals = []
            while k < len(s.toks) and s.toks[k].text != h[0]:
                quals.append(s.toks[k].text); k += 1
            vis = "pub" in quals
            if words and words[0] == "fn":
                name = re.search(r"\bfn\s+(\w+)", it.header).group(1)
                if in_trait_impl or vis:
                    out.append(" / ".join(trail + [name]))
            elif words and words[0] in ("impl", "mod", "trait"):
                if words[0] == "mod" and len(words) > 1 and words[1] in ("tests", "test", "verif_kani"):
                    continue
                if it.body_open is None:
                    continue
                is_ti = words[0] == "impl" and re.search(r"\bfor\b", hd.split(" where ")[0]) is not None
                walk(it.body_open + 1, it.body_close, trail + [hd.split(" where ")[0][:90]], is_ti or (words[0] == "trait"))
    walk(0, len(s.toks), [], False)
    return sorted(set(out))


def files_of_property(pid, cfg, props):
    files = set()
    pc = cfg["properties"].get(pid, {})
    for u in pc.get("verus", []):
        name, _, var = u.partition("@")
        p = os.path.join(ROOT, "units", name, "unit.rs")
        if not os.path.exists(p):
            continue
        txt = open(p).read()
        for inc in re.findall(r"^//@include (\S+)", txt, re.M):
            ip = os.path.normpath(os.path.join(os.path.dirname(p), inc))
            if os.path.exists(ip):
                txt += "\n" + open(ip).read()
        vj = os.path.join(ROOT, "units", name, "variants.json")
        variables = {}
        if var and os.path.exists(vj):
            variables = json.load(open(vj)).get(var, {})
        for f in re.findall(r"^//@(?:extract|extract_type|extract_const|extract_spec|check_struct|check_enum|check_no_derive|bitflags)\s+file=(\S+)", txt, re.M):
            for k, v in variables.items():
                f = f.replace("${%s}" % k, v)
            if "${" not in f:
                files.add(f)
    for k in pc.get("kani", []):
        j = json.load(open(os.path.join(ROOT, "kani", k, "unit.json")))
        for inj in j.get("inject", []):
            files.add(inj["file"])
    for p in props:
        if p["id"] == pid:
            for f in p["anchors"]["files"]:
                files.add(f)
    # source files the property's code path runs through that no unit reads and the property is not anchored in
    # (`Host for http::Uri`, the `Resolve` trait, crate roots): nothing in them is under contract — they are hashed, so a
    # change there is answered "undecided" instead of going unnoticed
    for f in pc.get("extra_files", []):
        files.add(f)
    return sorted(files)


def load():
    p = os.path.join(ROOT, "inventory.json")
    return json.load(open(p)) if os.path.exists(p) else {}


def new_entry_points(pid, repo, cfg, props):
    inv = load()
    out = []
    for f in files_of_property(pid, cfg, props):
        path = os.path.join(repo, f)
        if not os.path.exists(path) or f not in inv or f.startswith("__"):
            continue
        try:
            cur = entry_points(path)
        except Exception as e:      # the file no longer parses with the item finder: the units will say so themselves
            continue
        known = set(inv[f])
        for e in cur:
            if e not in known:
                out.append(f"{f}: {e}")
    return out


# ---------------------------------------------------------------------------------------------------------------------
# Functions that are under NO contract (not extracted by a Verus unit, not executed by a Kani harness): their text is
# hashed, and a check that reads the file answers UNDECIDED when such a function's text has changed — "holds" is only
# ever said about a tree whose every modified function is under contract.  Formatting impls (Debug / Display /
# Error::source) and the serde impls are exempt: no listed property depends on them.
import hashlib

EXEMPT = re.compile(r"impl[^/]*\b(fmt :: Debug|fmt :: Display|Debug|Display|Error|Serialize|Deserialize < 'de >)\b[^/]* for ")


# A formatting impl is exempt only while it is evidently PURE: a `fmt` that takes a waker out of a cell "while it is being
# formatted" and loses it on the error path (seeded RDC17) changes behaviour like any other function.
_MUTATORS = {"take", "set", "replace", "swap", "borrow_mut", "get_mut", "as_mut", "push", "push_back", "push_front", "pop",
             "pop_front", "pop_back", "insert", "remove", "clear", "drain", "truncate", "store", "fetch_add", "fetch_sub",
             "lock", "send", "wake", "register", "forget", "update", "advance", "split_to", "split_off", "extend"}
_impure = set()      # (path, label) of formatting impls whose body is not evidently pure (filled by all_fns)


def _evidently_pure(toks):
    prev = None
    for t in toks:
        if t.kind in ("ws", "comment"):
            continue
        if t.kind == "ident" and prev is not None and prev.text == "." and t.text in _MUTATORS:
            return False
        if t.kind == "ident" and t.text in ("unsafe", "mem"):
            return False
        prev = t
    return True


def is_exempt(path, label):
    return bool(EXEMPT.search(label + " ")) and (path, label) not in _impure


def all_fns(path):
    s = Source(path)
    out = {}

    def walk(lo, hi, trail):
        for it in _items_in(s.src, s.toks, lo, hi):
            h = it.header.split()
            if any("test" in a for a in it.attrs) or any(_foreign_cfg(a) for a in it.attrs) or any("cfg(kani)" in a for a in it.attrs):
                continue
            if h[0] == "fn":
                name = re.match(r"fn\s+(\w+)", it.header).group(1)
                label = " / ".join(trail + [name])
                text = re.sub(r"\s+", " ", " ".join(t.text for t in s.toks[it.start:it.body_close + 1] if t.kind not in ("ws", "comment")))
                out[label] = (hashlib.sha256(text.encode()).hexdigest()[:16], it.start)
                if EXEMPT.search(label + " ") and it.body_open is not None and not _evidently_pure(s.toks[it.body_open:it.body_close + 1]):
                    _impure.add((path, label))
            elif h[0] in ("impl", "mod", "trait"):
                if h[0] == "mod" and len(h) > 1 and h[1] in ("tests", "test", "verif_kani"):
                    continue
                if it.body_open is None:
                    continue
                walk(it.body_open + 1, it.body_close, trail + [re.sub(r"\s+", " ", it.header)[:70]])
    walk(0, len(s.toks), [])
    return out, s


def verus_covered(repo):
    """file -> set of token start indices of fn items extracted by some Verus unit"""
    cov = {}
    srcs = {}
    for u in sorted(glob.glob(os.path.join(ROOT, "units", "*", "unit.rs"))):
        txt = open(u).read()
        variants = [{}]
        vj = os.path.join(os.path.dirname(u), "variants.json")
        if os.path.exists(vj):
            variants = list(json.load(open(vj)).values())
        for m in re.finditer(r'^//@extract file=(\S+) item="([^"]+)"', txt, re.M):
            for v in variants:
                f = m.group(1)
                for k, val in v.items():
                    f = f.replace("${%s}" % k, val)
                try:
                    if f not in srcs:
                        srcs[f] = Source(os.path.join(repo, f))
                    it = srcs[f].find(m.group(2))
                    cov.setdefault(f, set()).add(it.start)
                except Exception:
                    pass
    return cov


def kani_executed():
    """file -> set of labels executed by a harness (from coverage_kani.md) + functions under a Kani function contract"""
    ex, notex = {}, {}
    p = os.path.join(ROOT, "coverage_kani.md")
    cur = None
    if os.path.exists(p):
        for l in open(p):
            m = re.match(r"^\* `([^`]+)`:", l)
            if m:
                cur = m.group(1); notex.setdefault(cur, set()); continue
            m = re.match(r"^\s+\* NOT executed: (.*)$", l)
            if m and cur:
                notex[cur].update(x.strip() for x in m.group(1).split(";"))
    contracted = {}
    for k in glob.glob(os.path.join(ROOT, "kani", "*", "unit.json")):
        j = json.load(open(k))
        for c in j.get("contracts", []):
            contracted.setdefault(c["file"], set()).add(c["item"].replace("fn ", "").strip())
    return notex, contracted


def uncontracted_table(repo, files):
    vc = verus_covered(repo)
    notex, contracted = kani_executed()
    table = {}
    for f in files:
        path = os.path.join(repo, f)
        if not os.path.exists(path):
            continue
        fns, _ = all_fns(path)
        for label, (sha, start) in fns.items():
            if is_exempt(path, label):
                continue
            if start in vc.get(f, set()):
                continue
            if f in notex:       # a Kani-injected file: executed unless listed as NOT executed
                short = label
                if short not in notex[f]:
                    continue
                if any(label.replace(" / ", " / ").endswith(c.split(" / ")[-1]) and c.split(" / ")[0] in label for c in contracted.get(f, ())):
                    continue
            table.setdefault(f, {})[label] = sha
        ext = extracted_values()
        for label, sha in value_items(path).items():
            last = label.split(" / ")[-1]
            if (f, last.split()[-1]) in ext and last.split()[0] in ("const", "static", "macro", "macro_rules!"):
                continue
            table.setdefault(f, {})["[value] " + label] = sha
    return table


def extracted_values():
    """(file, NAME) of the const / static / bitflags items some Verus unit extracts (their text reaches the verifier)"""
    out = set()
    for u in sorted(glob.glob(os.path.join(ROOT, "units", "*", "unit.rs")) + glob.glob(os.path.join(ROOT, "units", "common", "*.rs"))):
        txt = open(u).read()
        for m in re.finditer(r"^//@(?:extract_const|bitflags|tls_init_expr)\s+file=(\S+)\s+name=(\w+)", txt, re.M):
            out.add((m.group(1), m.group(2)))
        # functions generated by a macro_rules! definition that a unit extracts from the macro's body (rule R28)
        for m in re.finditer(r'^//@extract file=(\S+) item="macro_rules!\s*(\w+)\s*/', txt, re.M):
            out.add((m.group(1), m.group(2)))
    return out


def modified_uncontracted(pid, repo, cfg, props):
    inv = load().get("__uncontracted__", {})
    out = []
    for f in files_of_property(pid, cfg, props):
        if f not in inv:
            continue
        path = os.path.join(repo, f)
        if not os.path.exists(path):
            continue
        try:
            fns, _ = all_fns(path)
        except Exception:
            continue
        vals = None
        for label, sha in inv[f].items():
            if label.startswith("[value] "):
                if vals is None:
                    try:
                        vals = value_items(path)
                    except Exception:
                        vals = {}
                if vals.get(label[len("[value] "):]) != sha:     # changed or gone
                    out.append(f"{f}: {label[len('[value] '):]} (a static / const / item macro outside every function)")
                continue
            if label in fns and fns[label][0] != sha:
                out.append(f"{f}: {label}")
    # formatting impls are exempt from the table — unless one has been changed into something that is no longer evidently
    # pure (it calls a mutator such as take / set / replace / borrow_mut)
    allh = load().get("__all__", {})
    for f in files_of_property(pid, cfg, props):
        path = os.path.join(repo, f)
        if f not in allh or not os.path.exists(path):
            continue
        try:
            fns, _ = all_fns(path)
        except Exception:
            continue
        for label, (sha, _) in fns.items():
            if EXEMPT.search(label + " ") and (path, label) in _impure and allh[f].get(label) != sha:
                out.append(f"{f}: {label} (a formatting impl that is no longer evidently pure)")
    return out


# ---------------------------------------------------------------------------------------------------------------------
# Per property: a function of a file the property is ANCHORED in whose text changed must be under contract in one of
# THAT property's own units (or executed by one of its Kani units) — otherwise the property's check would say "holds"
# about a change none of its obligations looks at (it may well be reported under a sibling property).
def _unit_labels(unit, repo, f):
    """labels of the fn items of file f that Verus unit `unit` (name[@variant]) extracts, on the current tree"""
    name, _, var = unit.partition("@")
    p = os.path.join(ROOT, "units", name, "unit.rs")
    if not os.path.exists(p):
        return set()
    txt = open(p).read()
    variables = {}
    vj = os.path.join(ROOT, "units", name, "variants.json")
    if var and os.path.exists(vj):
        variables = json.load(open(vj)).get(var, {})
    out = set()
    try:
        fns, src = all_fns(os.path.join(repo, f))
    except Exception:
        return out
    by_start = {start: label for label, (sha, start) in fns.items()}
    for m in re.finditer(r'^//@extract file=(\S+) item="([^"]+)"', txt, re.M):
        ff = m.group(1)
        for k, v in variables.items():
            ff = ff.replace("${%s}" % k, v)
        if ff != f:
            continue
        try:
            it = src.find(m.group(2))
            if it.start in by_start:
                out.add(by_start[it.start])
        except Exception:
            pass
    return out


def changed_outside_own_units(pid, repo, cfg, props):
    inv = load().get("__all__", {})
    notex, contracted = kani_executed()
    pc = cfg["properties"].get(pid, {})
    anchors = []
    for p in props:
        if p["id"] == pid:
            anchors = p["anchors"]["files"]
    out = []
    for f in anchors:
        if f not in inv or not os.path.exists(os.path.join(repo, f)):
            continue
        try:
            fns, _ = all_fns(os.path.join(repo, f))
        except Exception:
            continue
        changed = [l for l, (sha, _) in fns.items() if l in inv[f] and inv[f][l] != sha and not is_exempt(os.path.join(repo, f), l)]
        if not changed:
            continue
        covered = set()
        for u in pc.get("verus", []):
            covered |= _unit_labels(u, repo, f)
        kani_files = set()
        own_contracted = set()
        for k in pc.get("kani", []):
            j = json.load(open(os.path.join(ROOT, "kani", k, "unit.json")))
            for inj in j.get("inject", []):
                kani_files.add(inj["file"])
            for c in j.get("contracts", []):
                if c["file"] == f:
                    own_contracted.add(c["item"].replace("fn ", "").strip())
        for l in changed:
            if l in covered:
                continue
            if f in kani_files and l not in notex.get(f, set()):
                continue
            # under a Kani FUNCTION CONTRACT of one of this property's units (proof_for_contract: the coverage run does
            # not list contract-checked functions as executed)
            if any(l.endswith(c.split(" / ")[-1]) and c.split(" / ")[0] in l for c in own_contracted):
                continue
            out.append(f"{f}: {l}")
    return out


# ---------------------------------------------------------------------------------------------------------------------
# VALUE ITEMS outside every function: `static` / `const` items with their initialisers and item-position macro
# invocations (`thread_local! { static X = <expr> }`, `bitflags! { .. }`, `pin_project! { .. }`).  They carry behaviour
# (a limit, a timeout, the initialiser of a per-thread counter) but are not functions, so the function hashes do not see
# them.  Those a unit extracts (`//@extract_const`, `//@bitflags`) are under contract; the text of the others is hashed
# and a change makes every check that reads the file answer UNDECIDED.
def value_items(path):
    s = Source(path)
    toks = s.toks
    out = {}

    def scan_gap(lo, hi, trail):
        i = lo
        while i < hi:
            # one item-like piece: up to `;` at depth 0, or a macro invocation's closing delimiter
            j = i
            first = None
            is_macro = False
            while j < hi:
                t = toks[j]
                if t.kind == "punct" and t.text == "#" and j + 1 < hi and toks[j + 1].text in ("[", "!") and first is None:
                    k = j + 1 if toks[j + 1].text == "[" else j + 2
                    j = match_close(toks, k) + 1; i = j
                    continue
                if first is None and t.kind in ("ident",) and t.text in ("pub", "crate"):
                    j += 1; continue
                if first is None and t.text == "(" and j > lo and toks[j - 1].text == "pub":
                    j = match_close(toks, j) + 1; continue
                if first is None:
                    first = j
                if t.kind == "punct" and t.text == "!" and toks[first].text == "macro_rules" and j == first + 1 and j + 2 < hi and toks[j + 2].text in OPEN:
                    # `macro_rules! NAME { .. }`: a macro DEFINITION (its body is code every expansion site runs)
                    e = match_close(toks, j + 2)
                    is_macro = True
                    j = e + 1
                    if j < hi and toks[j].text == ";": j += 1
                    break
                if t.kind == "punct" and t.text == "!" and j + 1 < hi and toks[j + 1].text in OPEN and all(
                        x.kind == "ident" or x.text == "::" for x in toks[first:j]):
                    e = match_close(toks, j + 1)
                    is_macro = True
                    j = e + 1
                    if j < hi and toks[j].text == ";": j += 1
                    break
                if t.kind == "punct" and t.text in OPEN:
                    j = match_close(toks, j) + 1; continue
                if t.kind == "punct" and t.text == ";":
                    j += 1; break
                j += 1
            if first is not None and first < hi:
                head = toks[first].text
                text = re.sub(r"\s+", " ", " ".join(x.text for x in toks[first:j]))
                label = None
                if is_macro:
                    nm = "".join(x.text for x in toks[first:j] if True)
                    mname = re.match(r"([\w:]+?)!", "".join(x.text for x in toks[first:first + 8]))
                    inner = re.search(r"\b(?:static|struct|enum|const)\s+(\w+)", text)
                    label = "macro " + (mname.group(1) if mname else head) + "!" + (" " + inner.group(1) if inner else "")
                    if head == "macro_rules":
                        label = "macro_rules! " + toks[first + 2].text
                elif head in ("static", "const") and first + 1 < hi and toks[first + 1].text not in ("fn", "unsafe", "async"):
                    k = first + 1
                    if toks[k].text == "mut": k += 1
                    label = head + " " + toks[k].text
                if label:
                    label = " / ".join(trail + [label])
                    n = 2
                    base = label
                    while label in out:
                        label = f"{base} #{n}"; n += 1
                    out[label] = hashlib.sha256(text.encode()).hexdigest()[:16]
            i = max(j, i + 1)

    def walk(lo, hi, trail):
        pos = lo
        for it in _items_in(s.src, toks, lo, hi):
            h = it.header.split()
            skip = any("test" in a for a in it.attrs) or any(_foreign_cfg(a) for a in it.attrs) or any("cfg(kani)" in a for a in it.attrs)
            # the attributes of this item sit right before it.start: they belong to the item, not to the gap
            scan_gap(pos, it.start, trail)
            pos = it.body_close + 1
            if skip or it.body_open is None:
                continue
            if h[0] in ("impl", "mod", "trait"):
                if h[0] == "mod" and len(h) > 1 and h[1] in ("tests", "test", "verif_kani"):
                    continue
                walk(it.body_open + 1, it.body_close, trail + [re.sub(r"\s+", " ", it.header)[:70]])
        scan_gap(pos, hi, trail)
    walk(0, len(toks), [])
    return out


# ---------------------------------------------------------------------------------------------------------------------
# CRATE MANIFESTS.  Which cfg-gated items are compiled (io-uring vs. tokio arbiters, unix vs. non-unix signal handling,
# the TLS back ends) is decided by Cargo features and dependencies; the Verus units select the cfg variants of the
# recorded configuration.  The manifests are hashed (comments and blank lines stripped): when the Cargo.toml of a crate a
# property's files live in — or the workspace manifest — differs, the check answers UNDECIDED.
def manifest_hashes(repo, files):
    out = {}
    crates = sorted({f.split("/")[0] for f in files if "/" in f})
    for c in crates + ["."]:
        p = os.path.join(repo, c, "Cargo.toml") if c != "." else os.path.join(repo, "Cargo.toml")
        if os.path.exists(p):
            txt = "\n".join(l.split("#")[0].rstrip() if not re.search(r'["\']', l.split("#")[0]) or "#" not in l else l.rstrip()
                            for l in open(p).read().split("\n"))
            txt = re.sub(r"\n\s*\n+", "\n", txt).strip()
            out[c] = hashlib.sha256(txt.encode()).hexdigest()[:16]
    return out


def modified_manifests(pid, repo, cfg, props):
    inv = load().get("__manifests__", {})
    if not inv:
        return []
    files = files_of_property(pid, cfg, props)
    cur = manifest_hashes(repo, files)
    return [("Cargo.toml" if c == "." else c + "/Cargo.toml") for c, h in cur.items() if c in inv and inv[c] != h]


# ---------------------------------------------------------------------------------------------------------------------
# WORKSPACE DEPENDENCIES.  A property about actix-server / actix-tls code also rests on the workspace crates that code is
# built on (actix-rt, actix-service, actix-utils, local-waker).  Their functions are under contract in OTHER properties'
# units; this property's check runs only the units its own units assume (lib/unitdeps.py).  So: when a function (or a
# static / const / item macro) of a dependency crate's inventoried file has changed and none of the units THIS check runs
# has it under contract, the answer is UNDECIDED — the change may well be judged by another property's check.
WORKSPACE_DEPS = {
    "actix-server": ["actix-rt", "actix-service", "actix-utils", "local-waker"],
    "actix-tls": ["actix-rt", "actix-service", "actix-utils", "local-waker"],
    "actix-utils": ["local-waker"],
    "local-channel": ["local-waker"],
}


def changed_in_dependency_crates(pid, repo, cfg, props, run_verus_units, run_kani_units):
    """run_verus_units / run_kani_units: the units this check runs (own + dependency closure)"""
    inv = load()
    allh = inv.get("__all__", {})
    unc = inv.get("__uncontracted__", {})
    anchors = []
    for p in props:
        if p["id"] == pid:
            anchors = p["anchors"]["files"]
    crates = sorted({f.split("/")[0] for f in anchors})
    deps = sorted({d for c in crates for d in WORKSPACE_DEPS.get(c, [])} - set(crates))
    if not deps:
        return []
    own_files = set(files_of_property(pid, cfg, props))
    notex, _ = kani_executed()
    kani_files = {}
    for k in run_kani_units:
        j = json.load(open(os.path.join(ROOT, "kani", k, "unit.json")))
        for inj in j.get("inject", []):
            kani_files.setdefault(inj["file"], set()).add(k)
        for c in j.get("contracts", []):
            kani_files.setdefault(c["file"], set()).add(k)
    out = []
    for f in sorted(allh):
        if f.split("/")[0] not in deps or f in own_files:
            continue
        path = os.path.join(repo, f)
        if not os.path.exists(path):
            continue
        try:
            fns, _ = all_fns(path)
        except Exception:
            continue
        changed = [l for l, (sha, _) in fns.items() if l in allh[f] and allh[f][l] != sha and not is_exempt(path, l)]
        if changed:
            covered = set()
            for u in run_verus_units:
                covered |= _unit_labels(u, repo, f)
            for l in changed:
                if l in covered:
                    continue
                if f in kani_files and l not in notex.get(f, set()):
                    continue
                out.append(f"{f}: {l}")
        vals = None
        for label, sha in unc.get(f, {}).items():
            if label.startswith("[value] "):
                if vals is None:
                    try: vals = value_items(path)
                    except Exception: vals = {}
                if vals.get(label[len("[value] "):]) != sha:
                    out.append(f"{f}: {label[len('[value] '):]}")
    man = inv.get("__manifests__", {})
    cur = manifest_hashes(repo, [d + "/x" for d in deps])
    for d in deps:
        if d in man and d in cur and man[d] != cur[d]:
            out.append(f"{d}/Cargo.toml")
    return out
