"""Inventory of ENTRY POINTS of the source files a property's units read: trait-impl methods (`impl Tr for Ty { fn .. }`:
Drop, Clone incl. an overridden clone_from, Future, Service, From, ...) and `pub`/`pub(crate)` functions.  A contract set
argues operation by operation; an entry point that appeared after the contracts were written is an operation nobody
argued about, so the check of every property that reads the file answers UNDECIDED (exit 2) instead of "holds".
Private helpers are not entry points: they are reached (and verified or executed) through their callers."""
import glob, json, os, re
from rsx import Source, _items_in, _foreign_cfg

ROOT = os.path.normpath(os.path.join(os.path.dirname(os.path.abspath(__file__)), ".."))


def entry_points(path):
    s = Source(path)
    out = []

    def walk(lo, hi, trail, in_trait_impl):
        for it in _items_in(s.src, s.toks, lo, hi):
            h = it.header.split()
            if any("test" in a for a in it.attrs) or any(_foreign_cfg(a) for a in it.attrs) or any("cfg(kani)" in a for a in it.attrs):
                continue
            hd = re.sub(r"\s+", " ", it.header)
            words = h
            k = it.start
            quals = []
            while k < len(s.toks) and s.toks[k].text != h[0]:
                quals.append(s.toks[k].text); k += 1
            vis = "pub" in quals
            if words and words[0] == "fn":
                name = re.search(r"\bfn\s+(\w+)", it.header).group(1)
                if in_trait_impl or vis:
                    out.append(" / ".join(trail + [name]))
            elif words and words[0] in ("impl", "mod", "trait"):
                if words[0] == "mod" and len(words) > 1 and words[1] in ("tests", "test", "verif_kani"):
                    continue
                if it.body_open is None:
                    continue
                is_ti = words[0] == "impl" and re.search(r"\bfor\b", hd.split(" where ")[0]) is not None
                walk(it.body_open + 1, it.body_close, trail + [hd.split(" where ")[0][:90]], is_ti or (words[0] == "trait"))
    walk(0, len(s.toks), [], False)
    return sorted(set(out))


def files_of_property(pid, cfg, props):
    files = set()
    pc = cfg["properties"].get(pid, {})
    for u in pc.get("verus", []):
        name, _, var = u.partition("@")
        p = os.path.join(ROOT, "units", name, "unit.rs")
        if not os.path.exists(p):
            continue
        txt = open(p).read()
        for inc in re.findall(r"^//@include (\S+)", txt, re.M):
            ip = os.path.normpath(os.path.join(os.path.dirname(p), inc))
            if os.path.exists(ip):
                txt += "\n" + open(ip).read()
        vj = os.path.join(ROOT, "units", name, "variants.json")
        variables = {}
        if var and os.path.exists(vj):
            variables = json.load(open(vj)).get(var, {})
        for f in re.findall(r"^//@(?:extract|extract_type|extract_const|extract_spec|check_struct|check_enum|check_no_derive|bitflags)\s+file=(\S+)", txt, re.M):
            for k, v in variables.items():
                f = f.replace("${%s}" % k, v)
            if "${" not in f:
                files.add(f)
    for k in pc.get("kani", []):
        j = json.load(open(os.path.join(ROOT, "kani", k, "unit.json")))
        for inj in j.get("inject", []):
            files.add(inj["file"])
    for p in props:
        if p["id"] == pid:
            for f in p["anchors"]["files"]:
                files.add(f)
    return sorted(files)


def load():
    p = os.path.join(ROOT, "inventory.json")
    return json.load(open(p)) if os.path.exists(p) else {}


def new_entry_points(pid, repo, cfg, props):
    inv = load()
    out = []
    for f in files_of_property(pid, cfg, props):
        path = os.path.join(repo, f)
        if not os.path.exists(path) or f not in inv:
            continue
        try:
            cur = entry_points(path)
        except Exception as e:      # the file no longer parses with the item finder: the units will say so themselves
            continue
        known = set(inv[f])
        for e in cur:
            if e not in known:
                out.append(f"{f}: {e}")
    return out
